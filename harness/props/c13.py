"""C13 — the parallel specification finder is total and its output is a matched pair."""
import hashlib
import itertools
import json
import random
import traceback
from collections import defaultdict
from types import SimpleNamespace

ID = "C13"
TITLE = "parallel specification finder: total, output a matched pair"
COQ_PROPS = "Props/C13.v"
COQ_RUN = ("Parallel.Run", "run_c13")
GEN_TARGETS = []
N = {"quick": 18000, "thorough": 100000}
CASE_CPU_SECONDS = 90
NMAX_COUNT = 8
NMAX_BIJ = 6

KF_EMPTY = "empty-start-class-assertion-in-ParallelInfo"
KF_SHORTCUT = "second-search-accepts-two-assigned-labels-without-matching-their-rules"
KF_CHAIN = "returned-pair-with-chained-equivalence-steps-rejected-by-Isomorphism.check"
KF_EQCHILD = "eqpath-finder-does-not-compare-equivalence-paths-of-children-of-two-assigned-labels"

RULE = (
    "three streams. (word) pairs of REAL searchers over the word universes (28 start classes incl. two empty ones x "
    "packs with symmetries, inferral, one-way unary rules, letterwise products, two expansion sets; RuleDB, rarely a "
    "forest database; 0-2 levels of pre-expansion), both finder variants, find() as the user calls it. (reg) pairs of "
    "REAL searchers over regular-language universes with tagged copies (harness/universes/reglang.py: random partial "
    "DFAs, one- and two-letter expansions, prefix removal at once / letter by letter, two-way and one-way unary rules to "
    "other copies as symmetry / inferral / initial / expansion strategies; every rule is true of the word sets, so "
    "counts and objects are known by brute force) — many candidate rules per label, repeated children, labels matched "
    "with several partners, start classes inside non-trivial equivalence classes; expanded 0, 1, 2 levels or to "
    "exhaustion before find(). (abs) the REAL methods _find, _search_matching_info, _create_tree (both variants; "
    "for EqPath the real _eq_path_matches with its cache, over a stub extractor) run on random rule universes up to "
    "equivalence handed over in place of ParallelInfo: shapes no semantic universe reaches (dangling children, "
    "atoms that also have rules, several constructors, unary non-equivalence rules). Model input for real searchers = "
    "the two RULE DATABASES as ParallelInfo reads them (keys of rule_to_strategy in order with the constructor class of "
    "each rule, representatives, emptiness and atom identity of every label, the order in which the pruned rules up to "
    "equivalence were iterated) + the recorded _eq_path_matches answers: the model builds the universes itself "
    "(ParallelInfo._construct_eq_label_rules) and runs the finder on them; for the synthetic stream the universes are "
    "given. Compared: the universe each ParallelInfo built (or its refusal / exception), the verdict on the decidable "
    "hypotheses db_wf / only_atoms_verified of C13_construct_total / C13_construct_ok for each rule database (extracted "
    "db_wfb inside run_c13 vs. the harness's own decision on the real objects), nothing / found / exception "
    "class, the two label maps (for real searchers read back from the RETURNED specifications through the searchers' "
    "class and equivalence databases). Oracle, independent of the "
    "model: no exception except the three documented refusals; each returned specification is rooted at its start "
    "class, closed, genuine, productive (naive Kleene iteration) and counts like brute force for n <= 8; the two are "
    "isomorphic (own greatest-fixed-point bisimulation up to equivalence steps AND Isomorphism.check both ways), "
    "Bijection.construct succeeds and maps the objects of each size n <= 6 bijectively with a true inverse; for every "
    "(label, children) of the two returned label maps that the specification reaches, the rule the SPECIFICATION holds "
    "for the class resolved from that label has the children and the kind (class of Constructor.equiv, -1 verification "
    "rule) of the rule the finder COMPARED for it in ParallelInfo.eq_label_rules; on a pair that Isomorphism.check "
    "rejects, Bijection.construct must answer None without an exception (what the open chained-equivalences finding "
    "asserts, now checked on every masked case). "
    "Non-trivial: two specifications returned, or an exception, with at least 3 labels on a side; distinct = distinct case."
)
TRUSTED = [
    "modelled, not verified: bijection.py ParallelSpecFinder._find/_base_case/_potential_children/_rule_match/"
    "_search_matching_info(+_rec, base cases, _clean_descendants)/_create_tree, EqPathParallelSpecFinder."
    "_search_matching_info/_search_matching_info_recursion_base_cases_eq/_validate_atoms_for_existing_entries and the "
    "cache of _eq_path_matches, tree_searcher.Node.rule_keys — Parallel/Model.v, tied by this correspondence; the "
    "explicit stack of _find is transcribed as the equivalent recursive depth-first search (Model.v header)",
    "modelled, not verified: bijection.py ParallelInfo._construct_eq_label_rules/_pruned_rules_up_to_eq/"
    "_get_class_and_rule with RuleDBBase.rules_up_to_equivalence, rule_from_equivalence_rule_dict and "
    "tree_searcher.prune — Parallel/InfoModel.v, tied by this correspondence; the iteration order of the dict of sets "
    "of pruned rules is replayed from the real run (the model recomputes the set and compares)",
    "the expansion of the searchers (ParallelInfo._expand) is not modelled; Constructor.equiv and the (size, terms) "
    "comparison of atoms enter as equivalence-class numbers computed by the harness with the real functions",
    "answers of _eq_path_matches (EquivalenceRuleExtractor over the rule database) are replayed from the real run",
    "SpecificationRuleExtractor: model and theorem of C02 (Spec/Extractor.v, key level only), reused by "
    "C13_spec_from_label_map; CombinatorialSpecification.__init__: C02's model spec_init (Spec/Grouping.v), reused by "
    "C13_label_map_meets_constructor_contract - neither is executed by run_c13",
]
ASSUMPTIONS = [
    "well-formed searcher = RuleDB rule database, atoms are the only verified classes, strategies honour their "
    "contracts and do not apply to atoms, every level of the searcher is finite (ParallelInfo expands by whole levels: "
    "a pack whose initial strategies generate infinitely many classes never returns from do_level)",
    "the three explicit refusals raised by ParallelInfo (ValueError 'No specifications were found', ValueError 'Only "
    "atoms can be verified.', RuntimeError 'Only searcher supported rule db is `RuleDB`.') count as declining the "
    "input, not as failing on it",
    "C13_universe_well_formed / C13_two_rule_sets assume that verification rules have no children (atoms are "
    "verified by AtomStrategy); decided on every replayed rule database by extra_checks (0 exceptions required)",
    "C13_construct_total (ParallelInfo's construction raises nothing) assumes db_wf db lis, C13_construct_ok (it builds "
    "the universe) db_wf and only_atoms_verified: every entry of the pruned rules up to equivalence has a stored rule; "
    "a stored rule that is such an entry up to equivalence and whose parent is a non-empty atom is a verification "
    "rule, one whose parent is neither empty nor an atom and is a Rule has children (and, for _ok, IS a Rule). Both are "
    "DECIDED on every replayed rule database, by the extracted db_wfb / only_atoms_verified_b inside run_c13 and by the "
    "harness on the real objects (compared; C13_db_wf_decidable, C13_run_reports_coverage); extra_checks "
    "`covered_by_theorem C13_construct_total: k of n` requires k/n >= 0.99 (measured 1.0) and that no covered rule "
    "database made the real ParallelInfo raise",
    "C13_label_map_meets_constructor_contract (bridge to C02_constructor_never_raises) assumes, and nobody checks for "
    "C13's runs: the find_path contract in its strong form (path from l to t inside the equivalence class of l, no "
    "label twice - C06's breadth-first path; the weak form first/last element is NOT enough, see Parallel/CtorReach.v), "
    "the iff-contract on _no_lhs_labels (order_ok), the rule-data contract ruledata_ok (a rule that is_equivalence() is "
    "handed out unary - to_equivalence_rule since 398db71 -, children beyond the key's are empty classes) and `chains` "
    "(no cycle of hidden unary equivalence rules among the emitted rules: NOT a consequence of anything the finder "
    "checks - ParallelSpecFinder does not test productivity). Not executed by run_c13: the tie of spec_init to "
    "CombinatorialSpecification.__init__ is C02's correspondence on C02's inputs",
    "the EqPath theorems quantify over every oracle that answers all questions of _eq_path_matches; the real answers "
    "come from EquivalenceRuleExtractor, outside the model; C13_matched_pair_eqpath_with_paths assumes the CONTRACT of "
    "those answers (True only if the non-equivalence rules on the two equivalence paths match pairwise) as an abstract "
    "predicate: EquivalenceRuleExtractor itself is not modelled",
    "PRECONDITION of the base variant (its class docstring: 'This version assumes that any classes that share "
    "equivalence labels are in fact equivalent'): every unary rule of the rule database that joins two classes of one "
    "equivalence class is an equivalence rule (rule.is_equivalence()); universes with a two-way unary rule whose "
    "strategy says can_be_equivalent() False (or one-way non-equivalence rules on a cycle) are OUTSIDE it - there "
    "ParallelSpecFinder is still required to be total and to return valid specifications whose label maps are a "
    "matched pair (theorem C13_matched_pair; oracle), but the two SPECIFICATIONS need not be isomorphic (replayed: "
    "findings/triage2/C13/repro.py); the generator offers such universes to the base variant in 17% of its random reg "
    "cases, tagged base_outside, the run decides the precondition (res['noneq_inside']) and the oracle gives those "
    "pairs the verdict 'outside-precondition' instead of a violation; EqPathParallelSpecFinder is judged in full on "
    "all universes. properties.jsonl says 'all packs, both finder variants' without this restriction (proposed "
    "rewording: findings/triage2/C13/verdict.md)",
    "the recursion budget of the model is computed by the model from the two universes (Parallel/Fuel.v: run_fuel, "
    "run_wfuel, at least the proved termination bounds: C13_harness_never_out_of_fuel); the number the harness sends "
    "is only a lower bound",
]


# ===================================================================== generators
WORD_PACKS = ["base", "sym", "inferral", "sym+inferral", "two_sets", "oneway", "letterwise", "letterwise_first",
              "letterwise_mid", "factory0", "verif"]


def _gen_word(rng):
    from harness.universes import words_ext as W

    n = len(W.START_SPECS)
    a = rng.randrange(n)
    x = rng.random()
    if x < 0.45:
        b = a
    elif x < 0.6:
        # a partner that is often isomorphic (letters swapped / redundant pattern)
        b = rng.choice([a, {1: 1, 2: 10, 4: 4, 16: 16, 17: 17, 0: 7, 7: 0, 14: 15}.get(a, a)])
    else:
        b = rng.randrange(n)
    pa = rng.choice(WORD_PACKS)
    pb = pa if rng.random() < 0.7 else rng.choice(WORD_PACKS)
    db = "base" if rng.random() < 0.97 else rng.choice(["forest", "forget"])
    return {
        "kind": "word",
        "variant": rng.randint(0, 1),
        "a": {"start": a, "pack": pa, "ruledb": db},
        "b": {"start": b, "pack": pb, "ruledb": "base"},
        "pre": [rng.choice([0, 0, 1, 2]), rng.choice([0, 0, 1, 2])],
    }


def _gen_reg(rng, directed=False):
    from harness.universes import reglang as R

    variant = rng.randint(0, 1)

    if directed:
        # the shape on which copies with different rule sets meet: all words over a sub-alphabet,
        # one- and two-letter expansions applying to random subsets of the copies
        m = rng.choice([1, 1, 2])
        dfa = R.random_dfa(rng, m, p_missing=rng.choice([0, 0.2]))

        def opts():
            return {
                "tags": rng.choice([2, 3, 3, 4]), "seed": rng.randrange(1 << 20),
                "expand": [[1, rng.choice([0.5, 0.7, 1.0])], [2, rng.choice([0.5, 0.7, 1.0])]]
                + ([[1, 0.5]] if rng.random() < 0.3 else []),
                "peel": [[rng.randint(0, 1), rng.randint(0, 2), 1.0]],
                "retag": [[1, 0.5, rng.choice(["sym", "inf", "ini"])]] if rng.random() < 0.3 else [],
                "atom_tags": 0, "dead": rng.randint(0, 1),
            }

        u1 = dict(dfa, **opts())
        u2 = dict(R.permuted_dfa(rng, dfa) if rng.random() < 0.3 else dfa, **opts())
        u1["start"] = ["", 0, 0]
        u2["start"] = ["", 0, 0]
    else:
        # unary rules that join two classes without being equivalence rules: half of the cases of the variant
        # that is meant for them; one case in six of the base variant, whose class docstring says "This version
        # assumes that any classes that share equivalence labels are in fact equivalent": those pairs are OUTSIDE
        # its documented precondition (findings/triage2/C13/verdict.md).  They are tagged ("base_outside") and
        # judged by the oracle on everything except isomorphism of the two specifications (see oracle()).
        ne = rng.random() < (0.5 if variant == 1 else 0.17)
        u1 = R.random_universe(rng, noneq=ne)
        if rng.random() < 0.7:
            dfa = {k: u1[k] for k in ("alphabet", "delta", "final")}
            if rng.random() < 0.5:
                dfa = R.permuted_dfa(rng, dfa)
            u2 = R.random_universe(rng, dfa, noneq=ne)
            if rng.random() < 0.6:
                u2["start"] = [u1["start"][0], u1["start"][1], rng.randrange(u2["tags"])]
                if dfa["delta"] != u1["delta"]:
                    u2["start"][0] = ""
                    u2["start"][1] = 0
        else:
            u2 = R.random_universe(rng, noneq=ne)
    case = {
        "kind": "reg",
        "variant": variant,
        "u1": u1,
        "u2": u2,
        "pre": [rng.choice([0, 0, 1, 2, 99]), rng.choice([0, 0, 1, 2, 99])],
    }
    if variant == 0 and any(len(r) > 3 and r[3] for u in (u1, u2) for r in u.get("retag", [])):
        # the generator's tag: a pack with a two-way unary strategy that says can_be_equivalent() False is
        # offered to the base variant (whether such a rule really ends up inside an equivalence class of the
        # expanded universe is decided on the run: res["noneq_inside"])
        case["base_outside"] = 1
    return case


def _abs_side(rng, n, natoms, maxr, maxar, kinds, odd):
    """random universe up to equivalence: [root, [[label, atom id]], [[label, [[children, kind]..]]..]]"""
    atoms = [[l, rng.randint(1, 2)] for l in range(natoms)]
    rules = []
    for l in range(n):
        groups = {}
        if l < natoms:
            groups[0] = [[[], -1]]
            if not (odd and rng.random() < 0.2):
                rules.append([l, [[[], -1]]])
                continue
        seen = set()
        for _ in range(rng.randint(1, maxr)):
            ar = rng.randint(1, maxar)
            ch = sorted(rng.randrange(n) for _ in range(ar))
            if tuple(ch) in seen:
                continue
            seen.add(tuple(ch))
            groups.setdefault(ar, []).append([ch, rng.randrange(kinds)])
        order = list(groups)
        rng.shuffle(order)
        rules.append([l, [r for g in order for r in groups[g]]])
    rng.shuffle(rules)
    root = rng.randrange(natoms, n) if n > natoms else 0
    return [root, atoms, rules]


def _abs_prune(side):
    root, atoms, rules = side
    d = {l: [list(r) for r in rs] for l, rs in rules}
    changed = True
    while changed:
        changed = False
        for l in list(d):
            keep = [r for r in d[l] if all(c in d for c in r[0])]
            if len(keep) != len(d[l]):
                changed = True
                if keep:
                    d[l] = keep
                else:
                    del d[l]
    return [root, [a for a in atoms if a[0] in d], [[l, d[l]] for l, _ in rules if l in d]]


def _abs_variant_of(rng, side):
    """a relabelled, slightly perturbed copy: mostly isomorphic to the original"""
    root, atoms, rules = side
    labels = sorted({l for l, _ in rules} | {c for _, rs in rules for r in rs for c in r[0]} | {root})
    perm = labels[:]
    rng.shuffle(perm)
    ren = dict(zip(labels, perm))
    new_rules = []
    for l, rs in rules:
        rs2 = [[sorted(ren[c] for c in r[0]), r[1]] for r in rs]
        if rng.random() < 0.15 and len(rs2) > 1:
            rs2.pop(rng.randrange(len(rs2)))
        # keep the grouping by number of children contiguous
        if rng.random() < 0.5:
            groups = {}
            for r in rs2:
                groups.setdefault(len(r[0]), []).append(r)
            order = list(groups)
            rng.shuffle(order)
            rs2 = [r for g in order for r in rng.sample(groups[g], len(groups[g]))]
        new_rules.append([ren[l], rs2])
    rng.shuffle(new_rules)
    return [ren[root], [[ren[l], a] for l, a in atoms], new_rules]


def _gen_abs(rng):
    n1 = rng.randint(2, 7)
    na = rng.randint(1, 2)
    mr, ma, kinds = rng.randint(1, 3), rng.randint(1, 3), rng.randint(1, 2)
    odd = rng.random() < 0.2
    s1 = _abs_side(rng, n1, min(na, n1 - 1), mr, ma, kinds, odd)
    if rng.random() < 0.7:
        s1 = _abs_prune(s1)
    if rng.random() < 0.6:
        s2 = _abs_variant_of(rng, s1)
    else:
        n2 = rng.randint(2, 7)
        s2 = _abs_side(rng, n2, min(na, n2 - 1), mr, ma, kinds, odd)
        if rng.random() < 0.7:
            s2 = _abs_prune(s2)
    return {"kind": "abs", "variant": rng.randint(0, 1), "s1": s1, "s2": s2, "seed": rng.randrange(1 << 30)}


def gen(rng, tier):
    while True:
        x = rng.random()
        if x < 0.50:
            yield _gen_abs(rng)
        elif x < 0.62:
            yield _gen_word(rng)
        elif x < 0.82:
            yield _gen_reg(rng)
        else:
            yield _gen_reg(rng, directed=True)


# ===================================================================== running the real code
def _finder_classes():
    from comb_spec_searcher.bijection import EqPathParallelSpecFinder, ParallelSpecFinder

    class RecBase(ParallelSpecFinder):
        """the real finder; only records what passes between its two searches"""

        def _search_matching_info(self, matching_info):
            self.rec_mi = matching_info
            r = super()._search_matching_info(matching_info)
            self.rec_maps = r
            return r

    class RecEq(EqPathParallelSpecFinder):
        def _search_matching_info(self, matching_info):
            self.rec_mi = matching_info
            self.rec_log = []
            r = super()._search_matching_info(matching_info)
            self.rec_maps = r
            return r

        def _eq_path_matches(self, id1, id2, pid1, pid2, idx1, idx2, sp1, sp2, cache):
            key = (sp1[id1], sp2[id2])
            miss = key not in cache[(id1, id2)][(pid1, pid2)]
            r = super()._eq_path_matches(id1, id2, pid1, pid2, idx1, idx2, sp1, sp2, cache)
            if miss:
                log = self.rec_log2 if getattr(self, "rec_walk", False) else self.rec_log
                log.append([[id1, id2, pid1, pid2, list(key[0]), list(key[1])], bool(r)])
            return r

        def _maps_are_matched(self, matching_info, sp1, sp2):
            # since the repair of F-C13e (8a96a0c) this walk asks _eq_path_matches again (fresh cache, final
            # maps): those answers are recorded apart from the ones given during the search
            self.rec_walk, self.rec_log2 = True, []
            try:
                return super()._maps_are_matched(matching_info, sp1, sp2)
            finally:
                self.rec_walk = False

    return RecBase, RecEq


class _Classes:
    """equivalence-class numbers of rule constructors (the library's Constructor.equiv, NOT the finder's
    _rule_match, which is part of what is being checked) and of atom identities ((size, terms) equality),
    shared by everything that describes one case to the model"""

    def __init__(self):
        self.reps = []
        self.atom_reps = []

    def kind(self, rule):
        from comb_spec_searcher.strategies.rule import Rule

        if not isinstance(rule, Rule):
            return -1
        for i, r in enumerate(self.reps):
            if r.constructor.equiv(rule.constructor)[0]:
                return i
        self.reps.append(rule)
        return len(self.reps) - 1

    def atom_id(self, v):
        for i, a in enumerate(self.atom_reps):
            if a[0] == v[0] and a[1] == v[1]:
                return i
        self.atom_reps.append(v)
        return len(self.atom_reps) - 1


def _side_of_pi(pi, cls, checks, which):
    rules = []
    for l, d in list(pi.eq_label_rules.items()):
        lst = []
        for _, crs in list(d.items()):
            for c, rule in crs:
                k = cls.kind(rule)
                lst.append([list(c), k])
                checks.append((which, len(c), k, rule))
        rules.append([l, lst])
    atoms = [[l, cls.atom_id(v)] for l, v in pi.atom_map.items()]
    return [pi.root_eq_label, atoms, rules]


def _kinds_bad(checks):
    # kind equality must reproduce Constructor.equiv on every pair the finder can ask about
    left = [c for c in checks if c[0] == 0 and c[2] >= 0]
    right = [c for c in checks if c[0] == 1 and c[2] >= 0]
    if len(left) * len(right) <= 4000:
        for _, n1, k1, r1 in left:
            for _, n2, k2, r2 in right:
                if n1 == n2 and bool(r1.constructor.equiv(r2.constructor)[0]) != (k1 == k2):
                    return True
    return False


def _sides_of(finder, cls=None):
    """the two universes up to equivalence, read off the ParallelInfo objects, with rule kinds and atom
    identities as equivalence-class numbers of the REAL comparison functions"""
    cls = cls or _Classes()
    checks = []
    sides = [_side_of_pi(pi, cls, checks, i) for i, pi in enumerate((finder._pi1, finder._pi2))]  # pylint: disable=protected-access
    return sides, _kinds_bad(checks)


def _db_of(css, cls):
    """what ParallelInfo._construct_eq_label_rules reads: the rule database (keys of rule_to_strategy in
    dictionary order with the kind of the rule each strategy gives), the representatives, emptiness and atom
    identity of every label, and the order in which the pruned rules up to equivalence are iterated"""
    from comb_spec_searcher import bijection as B
    from comb_spec_searcher.strategies.strategy import AtomStrategy

    ruledb, classdb = css.ruledb, css.classdb
    lis = [[k, list(c)] for k, c in B.ParallelInfo._pruned_rules_up_to_eq(SimpleNamespace(ruledb=ruledb))]  # pylint: disable=protected-access
    n = len(classdb.comb_class_list)
    reps = [ruledb.equivdb[l] for l in range(n)]
    stored, ver = [], {}
    for (par, children), strat in list(ruledb.rule_to_strategy.items()):
        rule = strat(classdb.get_class(par))
        k = cls.kind(rule)
        stored.append([par, list(children), k])
        if k < 0:
            ver[par] = rule
    info = []
    for l in range(n):
        c = classdb.get_class(l)
        empty = bool(c.is_empty())
        aid = -1
        if not empty and c.is_atom():
            sz = next(c.objects_of_size(c.minimum_size_of_object())).size()
            rule = ver.get(l) or AtomStrategy()(c)
            aid = cls.atom_id((sz, rule.get_terms(sz)))
        info.append([int(empty), aid])
    return [css.start_label, reps, info, stored], lis


def _db_wf(db, lis):
    """the harness's own decision of the two decidable hypotheses of C13_construct_total / C13_construct_ok
    (Parallel/InfoTotal.v db_wf, only_atoms_verified) on what ParallelInfo reads; returns bit 0 = db_wf,
    bit 1 = only_atoms_verified.  Written from the Python code's three failure points, not from the Coq text:
      rule_dict[(eq_par, eq_chi)]        needs a stored key that is the entry up to equivalence (KeyError)
      rule.get_terms(sz) on an atom      needs a verification rule (RuntimeError on a Rule without subrecs)
      assert len(eq_chi) > 0             needs children on a Rule of a non-empty non-atom parent
    asked of EVERY stored key that is an entry of lis up to equivalence (the code reads the last such key)."""
    _start, reps, info, stored = db

    def rep(l):
        return reps[l] if l < len(reps) else l

    first_kind, pre = {}, defaultdict(list)
    for par, ch, k in stored:
        key = (par, tuple(ch))
        first_kind.setdefault(key, k)
        pre[(rep(par), tuple(sorted(rep(c) for c in ch)))].append(key)
    wf, strict = True, True
    for e in {(p, tuple(c)) for p, c in lis}:
        if e not in pre:
            wf = False
            continue
        for key in pre[e]:
            par, ch = key
            empty, aid = info[par] if par < len(info) else (0, -1)
            if empty:
                continue
            k = first_kind[key]
            if aid >= 0:
                wf = wf and k < 0
            else:
                wf = wf and (k < 0 or len(ch) > 0)
                strict = strict and k >= 0
    return int(wf) + 2 * int(strict)


def _ver_with_children(db):
    """stored verification rules (kind < 0) that have children: the hypothesis ver_no_children of
    C13_universe_well_formed / C13_two_rule_sets says there are none"""
    return [[par, ch] for par, ch, k in db[3] if k < 0 and ch]


def _emitted_kinds(spec, css, cls):
    """eq label -> (sorted eq labels of the non-empty children, kind) of the rule the SPECIFICATION holds for the
    class of that equivalence label that carries its decomposition rule (in-class unary steps skipped, an
    EquivalenceRule wrapper - one non-empty child next to empty ones - unwrapped to the rule it was made from)"""
    from comb_spec_searcher.strategies.rule import EquivalencePathRule, EquivalenceRule

    eq = css.ruledb.equivdb
    lab = css.classdb.get_label
    held = {}
    todo = []
    for r in spec.rules_dict.values():
        todo.extend(r.rules if isinstance(r, EquivalencePathRule) else [r])
    for r in todo:
        if r.comb_class.is_empty():
            continue
        p = eq[lab(r.comb_class)]
        ch = sorted(eq[lab(c)] for c in r.children if not c.is_empty())
        if len(ch) == 1 and ch[0] == p:
            continue
        base = r
        while isinstance(base, EquivalenceRule):
            base = base.original_rule
        held.setdefault(p, []).append((ch, cls.kind(base), type(r).__name__))
    return held


def _kind_check(finder, specs, searchers, sides, cls):
    """(c)3(b): for each side and every (label, children) of the label map the finder returned, the rule the returned
    SPECIFICATION holds for the class resolved from that label has the kind (class of Constructor.equiv, -1 for a
    verification rule) of the rule the finder COMPARED for (label, children) in ParallelInfo.eq_label_rules.
    Labels of the map that the specification does not reach are skipped (the tree is cut at the root's closure);
    the root label must be there.  Returns (message or None, number of labels compared)."""
    n = 0
    for i, (spec, css, side, m) in enumerate(zip(specs, searchers, sides, finder.rec_maps)):
        compared = {(l, tuple(c)): k for l, rs in side[2] for c, k in rs}
        held = _emitted_kinds(spec, css, cls)
        root = side[0]
        if root not in held and not css.start_class.is_empty():
            return "side %d: the specification holds no decomposition rule for the root label %d" % (i + 1, root), n
        for l, c in m.items():
            if l not in held:
                continue
            if (l, tuple(c)) not in compared:
                return "side %d: the label map binds %d -> %r, which is no candidate rule of ParallelInfo" % (i + 1, l, c), n
            k = compared[(l, tuple(c))]
            for ch, k2, tname in held[l]:
                n += 1
                if ch != sorted(c):
                    return ("side %d: label %d is bound to %r but the specification's rule for it has the children %r"
                            % (i + 1, l, list(c), ch)), n
                if k2 != k:
                    return ("side %d: for label %d -> %r the finder compared a rule of kind %d, the specification "
                            "holds a %s of kind %d (same equivalence key, another rule)" % (i + 1, l, list(c), k, tname, k2)), n
    return None, n


def _canon_side(side):
    if not side:
        return []
    root, atoms, rules = side
    return [root, sorted(atoms), sorted([l, rs] for l, rs in rules if rs)]


def _labels_of(side):
    root, atoms, rules = side
    s = {root} | {l for l, _ in atoms} | {l for l, _ in rules}
    for _, rs in rules:
        for c, _ in rs:
            s.update(c)
    return s


def _fuel(sides):
    a, b = len(_labels_of(sides[0])), len(_labels_of(sides[1]))
    return (a + 1) * (b + 1) + a + b + 10


_EXC_CODE = {"KeyError": 11, "IndexError": 12, "AssertionError": 13, "RuntimeError": 14}


def _exc_code(e):
    return _EXC_CODE.get(type(e).__name__, 15)


def _make_searchers(case):
    from comb_spec_searcher.exception import NoMoreClassesToExpandError

    if case["kind"] == "word":
        from harness.universes import words_ext as W

        ss = [W.searcher(case["a"]), W.searcher(case["b"])]
    else:
        from harness.universes import reglang as R

        ss = [R.searcher(case["u1"]), R.searcher(case["u2"])]
    for css, k in zip(ss, case["pre"]):
        try:
            for _ in range(k):
                css.do_level()
        except NoMoreClassesToExpandError:
            pass
    return ss


def _keys_from_spec(spec, css):
    """the label map the specification realises: eq label of a class -> sorted eq labels of the non-empty
    children of its rule, for the rules that are not steps inside one equivalence class"""
    from comb_spec_searcher.strategies.rule import EquivalencePathRule

    eq = css.ruledb.equivdb
    lab = css.classdb.get_label
    keys, conflict = {}, None
    todo = []
    for r in spec.rules_dict.values():
        todo.extend(r.rules if isinstance(r, EquivalencePathRule) else [r])
    for r in todo:
        if r.comb_class.is_empty():
            continue  # the lazily added EmptyStrategy rules of empty children
        p = eq[lab(r.comb_class)]
        ch = sorted(eq[lab(c)] for c in r.children if not c.is_empty())
        if len(ch) == 1 and ch[0] == p:
            continue
        if p in keys and keys[p] != ch:
            conflict = "eq label %d has the rules %r and %r" % (p, keys[p], ch)
        keys[p] = ch
    return sorted([p, ch] for p, ch in keys.items()), conflict


def _noneq_inside(css):
    """the unary rules of the rule database that join two classes of ONE equivalence class without being
    equivalence rules (rule.is_equivalence() False): two-way rules whose strategy says can_be_equivalent()
    False, and one-way rules on a cycle.  ParallelSpecFinder (the base variant) documents that it assumes
    there are none ("any classes that share equivalence labels are in fact equivalent");
    EqPathParallelSpecFinder exists for universes that have some."""
    db, classdb = css.ruledb, css.classdb
    bad = []
    cands = [(k, st) for k, st in list(db.eqv_rule_to_strategy.items())]
    cands += [(k, st) for k, st in list(db.rule_to_strategy.items())
              if len(k[1]) == 1 and db.are_equivalent(k[0], k[1][0])]
    for (start, ends), strat in cands:
        try:
            rule = strat(classdb.get_class(start))
            if not rule.is_equivalence():
                bad.append([start, list(ends)])
        except Exception:  # pylint: disable=broad-except
            bad.append([start, list(ends), "?"])
    return bad


REFUSALS = ("No specifications were found", "Only atoms can be verified.", "Only searcher supported rule db")


def _parallel_info(css):
    """ParallelInfo(css) as the finder's constructor builds it; returns (pi or None, outcome code, text, trace,
    reached): outcome 0 built, 7 the documented refusal about verified non-atoms, 10+c an exception;
    reached = the exception (if any) came from _construct_eq_label_rules, i.e. the rule database was read"""
    from comb_spec_searcher import bijection as B

    try:
        return B.ParallelInfo(css), 0, None, None, True
    except Exception as e:  # pylint: disable=broad-except
        tr = traceback.format_exc()
        reached = "_construct_eq_label_rules" in tr
        text = "%s: %s" % (type(e).__name__, str(e)[:80])
        if isinstance(e, ValueError) and "Only atoms can be verified." in str(e):
            return None, 7, text, tr[-1200:], reached
        return None, _exc_code(e), text, tr[-1200:], reached


def _impl_real(case):
    RecBase, RecEq = _finder_classes()
    s1, s2 = _make_searchers(case)
    res = {"stage": "init", "sides": None, "log": [], "empty_start": [bool(s1.start_class.is_empty()),
                                                                     bool(s2.start_class.is_empty())]}
    # the two ParallelInfo objects, built one by one as the finder's constructor does (it stops at the
    # first that fails; the harness looks at both)
    infos = [_parallel_info(s1), _parallel_info(s2)]
    first_bad = next((i for i in infos if i[1] != 0), None)
    if first_bad is not None:
        res["init_exception"] = first_bad[2]
        res["refused"] = first_bad[1] == 7 or any(m in first_bad[2] for m in REFUSALS)
        res["trace"] = first_bad[3]
    if any(not i[4] for i in infos):
        # a searcher without specification / another kind of rule database: the databases are not read
        res["out"] = [9]
        return res
    cls = _Classes()
    res["dbs"] = [_db_of(s1, cls), _db_of(s2, cls)]
    checks = []
    built = [_side_of_pi(i[0], cls, checks, n) if i[0] is not None else [] for n, i in enumerate(infos)]
    res["kind_bad"] = _kinds_bad(checks)
    res["wf"] = [_db_wf(db, lis) for db, lis in res["dbs"]]
    res["ver_children"] = [_ver_with_children(db) for db, _ in res["dbs"]]
    tail = [infos[0][1], _canon_side(built[0]), infos[1][1], _canon_side(built[1])] + res["wf"]
    res["start_labels"] = [s1.start_label, s2.start_label]
    if first_bad is not None:
        res["fuel"] = 10
        res["out"] = [8, [], []] + tail
        return res
    res["stage"] = "find"
    finder = (RecEq if case["variant"] else RecBase)(s1, s2)
    res["sides"], _ = _sides_of(finder, cls)
    res["fuel"] = _fuel(res["sides"])
    res["noneq_inside"] = [_noneq_inside(s1), _noneq_inside(s2)]
    try:
        specs = finder.find()
    except Exception as e:  # pylint: disable=broad-except
        res["out"] = [_exc_code(e), [], []] + tail
        res["find_exception"] = "%s: %s" % (type(e).__name__, str(e)[:80])
        res["trace"] = traceback.format_exc()[-1800:]
        res["log"] = getattr(finder, "rec_log", [])
        res["log2"] = getattr(finder, "rec_log2", [])
        return res
    res["log"] = getattr(finder, "rec_log", [])
    res["log2"] = getattr(finder, "rec_log2", [])
    if specs is None:
        res["out"] = [0, [], []] + tail
        return res
    sp1, sp2 = specs
    k1, c1 = _keys_from_spec(sp1, s1)
    k2, c2 = _keys_from_spec(sp2, s2)
    res["out"] = [1, k1, k2] + tail
    res["key_conflict"] = c1 or c2
    res["maps"] = [sorted([k, list(v)] for k, v in m.items()) for m in finder.rec_maps]
    res["mi"] = _mi_json(finder.rec_mi)
    res["validity"] = [_validate_spec(sp1, s1), _validate_spec(sp2, s2)]
    res["iso"] = _iso_facts(sp1, sp2)
    try:
        res["kind_check"], res["kind_compared"] = _kind_check(finder, (sp1, sp2), (s1, s2), res["sides"], cls)
    except Exception as e:  # pylint: disable=broad-except
        res["kind_check"] = "harness: comparing emitted and compared kinds raised %s: %s" % (type(e).__name__, str(e)[:120])
    if case["variant"]:
        res["bad_edges"] = _unvalidated_edges(finder)
    res["nlabels"] = [len(k1), len(k2)]
    return res


def _unvalidated_edges(finder):
    """(EqPath variant) walk the two returned label maps from the roots along the recorded child orders and
    ask the finder's own _eq_path_matches (fresh cache) about every pair of children under the pair of parents
    it is reached from; returns the edges that do NOT match and that the search never asked about"""
    mi, (sp1, sp2) = finder.rec_mi, finder.rec_maps
    asked = {tuple(k[:4]) for k, _ in getattr(finder, "rec_log", [])}
    tracker = defaultdict(lambda: defaultdict(dict))
    bad, seen = [], set()
    stack = [((finder._pi1.root_eq_label, finder._pi2.root_eq_label), (-1, -1, -1, -1))]  # pylint: disable=protected-access
    log = finder.rec_log
    finder.rec_log = []
    try:
        while stack:
            pair, rel = stack.pop()
            if (pair, rel) in seen:
                continue
            seen.add((pair, rel))
            c1, c2 = sp1.get(pair[0]), sp2.get(pair[1])
            if c1 is None or c2 is None or (c1 == () == c2):
                continue
            order = mi.get(pair, {}).get((c1, c2))
            if order is None:
                continue
            if not finder._eq_path_matches(pair[0], pair[1], *rel, sp1, sp2, tracker):  # pylint: disable=protected-access
                if (pair[0], pair[1], rel[0], rel[1]) not in asked:
                    bad.append([list(pair), list(rel[:2])])
                continue
            for j2, (j1, ch2) in enumerate(zip(order, c2)):
                stack.append(((c1[j1], ch2), (pair[0], pair[1], j1, j2)))
    finally:
        finder.rec_log = log
    return bad


def _mi_json(mi):
    return [[list(k), [[list(c1), list(c2), list(o)] for (c1, c2), o in v.items()]] for k, v in mi.items()]


# --------------------------------------------------------------------- abs stream: stub ParallelInfo
def _abs_finder(case):
    from comb_spec_searcher import bijection as B
    from comb_spec_searcher.strategies.rule import Rule

    class FCons:
        def __init__(self, k):
            self.k = k

        def equiv(self, other, data=None):
            return (self.k == other.k, None)

    class FRule(Rule):
        def __init__(self, k):  # pylint: disable=super-init-not-called
            self._k = k

        @property
        def constructor(self):
            return FCons(self._k)

    class FVer:  # stands for a VerificationRule: not a Rule
        pass

    def make_pi(side, name):
        root, atoms, rules = side
        pi = SimpleNamespace()
        pi.root_eq_label = root
        pi.atom_map = {l: (1, {(): a}) for l, a in atoms}
        pi.eq_label_rules = defaultdict(lambda: defaultdict(list))
        for l, rs in rules:
            for c, k in rs:
                pi.eq_label_rules[l][len(c)].append((tuple(c), FVer() if k < 0 else FRule(k)))
        pi.ruledb = name
        pi.searcher = SimpleNamespace(start_label=root, classdb=None)
        return pi

    seed = case["seed"]

    class FakeExtractor:
        """in place of EquivalenceRuleExtractor: the non-equivalence rules on the path are a pseudo-random
        function of what the real one depends on (side, label, parent label, child index, the two rules)"""

        def __init__(self, root_eq, root_label, node, ruledb, classdb, target, parent, idx):
            keys = dict(node.rule_keys())
            s = repr((seed, ruledb, target, parent, idx, keys.get(target), keys.get(parent)))
            h = int(hashlib.sha1(s.encode()).hexdigest()[:8], 16)
            self.path = [] if h % 10 < 7 else [FRule((h >> 8) % 2) for _ in range(1 + (h >> 4) % 2)]

        def nonequivalent_rules_in_equiv_path(self):
            return self.path

    RecBase, RecEq = _finder_classes()
    cls = RecEq if case["variant"] else RecBase
    f = cls.__new__(cls)
    f._pi1 = make_pi(case["s1"], "side1")  # pylint: disable=protected-access
    f._pi2 = make_pi(case["s2"], "side2")  # pylint: disable=protected-access
    f._ancestors = set()  # pylint: disable=protected-access
    if case["variant"]:
        f._path = [(-1, -1, -1, -1)]  # pylint: disable=protected-access
        f._path_ancestors = set()  # pylint: disable=protected-access
    return f, B, FakeExtractor


def _impl_abs(case):
    f, B, FakeExtractor = _abs_finder(case)
    res = {"stage": "find", "log": []}
    res["sides"], res["kind_bad"] = _sides_of(f)
    res["fuel"] = _fuel(res["sides"])
    real = B.EquivalenceRuleExtractor
    B.EquivalenceRuleExtractor = FakeExtractor
    try:
        mi = defaultdict(dict)
        found = f._find(f._pi1.root_eq_label, f._pi2.root_eq_label, mi, set())  # pylint: disable=protected-access
        maps = f._search_matching_info(mi) if found else None  # pylint: disable=protected-access
        res["log"] = getattr(f, "rec_log", [])
        res["log2"] = getattr(f, "rec_log2", [])
        if maps is None:
            res["out"] = [0, [], []] + _ABS_TAIL
            return res
        keys = []
        for m, pi in zip(maps, (f._pi1, f._pi2)):  # pylint: disable=protected-access
            node = f._create_tree(m, pi.root_eq_label)  # pylint: disable=protected-access
            keys.append(sorted([k, list(v)] for k, v in node.rule_keys()))
        res["out"] = [1, keys[0], keys[1]] + _ABS_TAIL
        res["maps"] = [sorted([k, list(v)] for k, v in m.items()) for m in maps]
        res["mi"] = _mi_json(mi)
        res["nlabels"] = [len(keys[0]), len(keys[1])]
        return res
    except Exception as e:  # pylint: disable=broad-except
        res["out"] = [_exc_code(e), [], []] + _ABS_TAIL
        res["find_exception"] = "%s: %s" % (type(e).__name__, str(e)[:80])
        res["trace"] = traceback.format_exc()[-1800:]
        res["log"] = getattr(f, "rec_log", [])
        return res
    finally:
        B.EquivalenceRuleExtractor = real


_ABS_TAIL = [9, [], 9, [], 9, 9]


def impl(case):
    from comb_spec_searcher.bijection import EqPathParallelSpecFinder

    res = _impl_abs(case) if case["kind"] == "abs" else _impl_real(case)
    # the repair of F-C13e (findings/eqpath_unvalidated_child_paths.diff, committed as 8a96a0c) overrides this method
    # in the EqPath class; the model has both forms of that class and follows the one the repository has (today: patched)
    res["eq_patched"] = "_maps_are_matched" in EqPathParallelSpecFinder.__dict__
    return res


def encode_with(case, res):
    if res.get("out") == [9] or ("sides" not in res and "dbs" not in res):
        return [9]
    mode = case["variant"] * (3 if res.get("eq_patched") else 1)
    if case["kind"] == "abs":
        a, b = [[0, sd] for sd in res["sides"]]
    else:
        a, b = [[1, db, lis] for db, lis in res["dbs"]]
    return [mode, res["fuel"], a, b, [k + [int(x)] for k, x in res.get("log", [])],
            [k + [int(x)] for k, x in res.get("log2", [])]]


def canon_model(mo):
    if len(mo) != 10:
        return mo
    st, k1, k2, _asked, c1, side1, c2, side2, w1, w2 = mo
    # the cache misses of _eq_path_matches are internals: reported by the model, not compared
    # w1, w2: the model's verdict on the decidable hypotheses of C13_construct_total / _ok, compared with _db_wf
    return [st, sorted(k1), sorted(k2), c1, _canon_side(side1), c2, _canon_side(side2), w1, w2]


# ===================================================================== oracle: validity of one specification
def _validate_spec(spec, css):
    """C01/C02 facts about a returned specification, decided on the real objects (no model involved)"""
    from harness.props.c02 import _base_rules, _spec_keys
    from harness.props.c03 import naive_lfp

    start = css.start_class
    if spec.root != start:
        return "the specification's root is not the searcher's start class"
    rules = list(spec.rules_dict.values())
    lhs = set(spec.rules_dict)
    if start not in lhs and not start.is_empty():
        return "the start class has no rule"
    for r in rules:
        for c in r.children:
            if c not in lhs and not c.is_empty():
                return "non-empty class on a right-hand side without a rule: %s" % c
    for r in rules:
        for b in _base_rules(r):
            again = b.strategy(b.comb_class)
            if tuple(again.children) != tuple(b.children):
                return "rule is not what its strategy produces when re-applied: %s on %s" % (b.strategy, b.comb_class)
    keys, _ = _spec_keys(rules)
    f = naive_lfp([[0, p, kids] for p, kids in keys])
    for p, _ in keys:
        if not (p in f and f[p] is None):
            return "class %d of the returned specification does not pump (naive least fixed point)" % p
    if getattr(start, "uid", None) is not None:
        from harness.universes import reglang as R

        alphabet = R.UNIVERSES[start.uid]["alphabet"]
    else:
        alphabet = start.alphabet
    nmax = NMAX_COUNT if len(alphabet) <= 2 else 6
    for n in range(nmax + 1):
        truth = sum(1 for _ in start.objects_of_size(n))
        got = spec.count_objects_of_size(n)
        if truth != got:
            return "count of size %d is %d, brute force says %d" % (n, got, truth)
    return None


# ===================================================================== oracle: isomorphism of two specifications
def _structural_iso(spec1, spec2):
    """Greatest-fixed-point bisimulation of the two specifications up to the order of children and up
    to equivalence steps (rules with is_equivalence()): independent of isomorphism.py and of the model.
    Returns (isomorphic, chained) — chained: some equivalence step leads to another equivalence step."""
    from comb_spec_searcher.strategies.rule import Rule

    chained = [False]

    def resolver(spec):
        def resolve(c):
            seen, steps = set(), 0
            while True:
                r = spec.get_rule(c)
                if isinstance(r, Rule) and r.is_equivalence():
                    if c in seen:
                        raise ValueError("cycle of equivalence steps")
                    seen.add(c)
                    ch = [x for x in r.children if not x.is_empty()]
                    c = ch[0]
                    steps += 1
                    if steps > 1:
                        chained[0] = True
                else:
                    return c, r
        return resolve

    def reach(res, root):
        out, st = {}, [root]
        while st:
            c, r = res(st.pop())
            if c in out:
                continue
            kids = tuple(res(x)[0] for x in r.children if not x.is_empty())
            out[c] = (r, kids)
            st.extend(kids)
        return out

    r1, r2 = resolver(spec1), resolver(spec2)
    A, B = reach(r1, spec1.root), reach(r2, spec2.root)

    def local(a, b):
        ra, ka = A[a]
        rb, kb = B[b]
        if len(ka) != len(kb):
            return False
        if not isinstance(ra, Rule) or not isinstance(rb, Rule):
            if isinstance(ra, Rule) or isinstance(rb, Rule):
                return False
            if not (a.is_atom() and b.is_atom()):
                return False
            sa, sb = a.minimum_size_of_object(), b.minimum_size_of_object()
            return sa == sb and ra.get_terms(sa) == rb.get_terms(sb)
        return bool(ra.constructor.equiv(rb.constructor)[0])

    rel = {(a, b) for a in A for b in B if local(a, b)}
    changed = True
    while changed:
        changed = False
        for a, b in list(rel):
            ka, kb = A[a][1], B[b][1]
            if not any(all((ka[p[j]], kb[j]) in rel for j in range(len(kb)))
                       for p in itertools.permutations(range(len(ka)))):
                rel.discard((a, b))
                changed = True
    return (r1(spec1.root)[0], r2(spec2.root)[0]) in rel, chained[0]


def _oneskip_iso(spec1, spec2):
    """Greatest-fixed-point bisimulation that, like Isomorphism.check since e943cb6, steps over AT MOST ONE
    equivalence rule per side at every node, and lets the rule reached after that step match only a rule of the same
    kind (both equivalences or neither).  Independent of isomorphism.py (no memo tables, no search order).
    Used to decide whether CHAINED equivalence steps are what makes Isomorphism.check reject a pair that
    _structural_iso accepts: the open finding KF_CHAIN is exactly `_structural_iso and not _oneskip_iso`."""
    from comb_spec_searcher.strategies.rule import Rule

    def stepper(spec):
        def step(c):
            r = spec.get_rule(c)
            if isinstance(r, Rule) and r.is_equivalence():
                c = [x for x in r.children if not x.is_empty()][0]
                r = spec.get_rule(c)
            return c, r
        return step

    def reach(step, root):
        out, st = {}, [root]
        while st:
            a = st.pop()
            if a in out:
                continue
            c, r = step(a)
            kids = tuple(x for x in r.children if not x.is_empty())
            out[a] = (c, r, kids)
            st.extend(kids)
        return out

    A, B = reach(stepper(spec1), spec1.root), reach(stepper(spec2), spec2.root)

    def local(a, b):
        ca, ra, ka = A[a]
        cb, rb, kb = B[b]
        if len(ka) != len(kb):
            return False
        if not isinstance(ra, Rule) or not isinstance(rb, Rule):
            if isinstance(ra, Rule) or isinstance(rb, Rule):
                return False
            if not (ca.is_atom() and cb.is_atom()):
                return False
            sa, sb = ca.minimum_size_of_object(), cb.minimum_size_of_object()
            return sa == sb and ra.get_terms(sa) == rb.get_terms(sb)
        if bool(ra.is_equivalence()) != bool(rb.is_equivalence()):
            return False
        return bool(ra.constructor.equiv(rb.constructor)[0])

    rel = {(a, b) for a in A for b in B if local(a, b)}
    changed = True
    while changed:
        changed = False
        for a, b in list(rel):
            ka, kb = A[a][2], B[b][2]
            if not any(all((ka[p[j]], kb[j]) in rel for j in range(len(kb)))
                       for p in itertools.permutations(range(len(ka)))):
                rel.discard((a, b))
                changed = True
    return (spec1.root, spec2.root) in rel


def _iso_facts(spec1, spec2):
    from comb_spec_searcher.isomorphism import Bijection, Isomorphism

    out = {}
    out["structural"], out["chained"] = _structural_iso(spec1, spec2)
    try:
        out["oneskip"] = bool(_oneskip_iso(spec1, spec2))
    except Exception as ex:  # pylint: disable=broad-except
        out["oneskip"] = "%s: %s" % (type(ex).__name__, str(ex)[:80])
    out["lib12"] = bool(Isomorphism.check(spec1, spec2))
    out["lib21"] = bool(Isomorphism.check(spec2, spec1))
    out["bijection"] = None
    if out["lib12"]:
        bij = Bijection.construct(spec1, spec2)
        if bij is None:
            out["bijection"] = "Bijection.construct returned None although Isomorphism.check is True"
            return out
        for n in range(NMAX_BIJ + 1):
            dom = list(spec1.root.objects_of_size(n))
            cod = set(spec2.root.objects_of_size(n))
            img = []
            for x in dom:
                y = bij.map(x)
                if y not in cod:
                    out["bijection"] = "size %d: %r is mapped to %r, not an object of the other class" % (n, x, y)
                    return out
                if bij.inverse_map(y) != x:
                    out["bijection"] = "size %d: inverse_map(map(%r)) = %r" % (n, x, bij.inverse_map(y))
                    return out
                img.append(y)
            if len(set(img)) != len(dom) or len(dom) != len(cod):
                out["bijection"] = "size %d: %d objects mapped onto %d of %d" % (n, len(dom), len(set(img)), len(cod))
                return out
    else:
        # what the open finding KF_CHAIN asserts about a rejected pair, checked instead of assumed: Bijection.construct
        # answers None, without an exception (a bijection or an exception here is a defect of its own, never masked)
        try:
            if Bijection.construct(spec1, spec2) is not None:
                out["bijection"] = "Bijection.construct returned a bijection although Isomorphism.check answers False"
        except Exception as ex:  # pylint: disable=broad-except
            out["bijection"] = "Bijection.construct raised %s: %s on a pair that Isomorphism.check rejects" % (
                type(ex).__name__, str(ex)[:80])
    return out


# ===================================================================== oracle: label maps as a matched pair
def _pair_check(sides, keys1, keys2):
    """is (keys1, keys2) a matched pair of label maps of the two universes?  Closed from the roots,
    every entry a rule of its universe (atoms: ()), the two unfoldings isomorphic up to the order of
    children (greatest fixed point), rule kinds and atom identities respected."""
    info = []
    for side, keys in zip(sides, (keys1, keys2)):
        root, atoms, rules = side
        rk = {(l, tuple(c)): k for l, rs in rules for c, k in rs}
        at = dict((l, a) for l, a in atoms)
        d = {l: tuple(c) for l, c in keys}
        seen, st = set(), [root]
        while st:
            l = st.pop()
            if l in seen:
                continue
            seen.add(l)
            if l not in d:
                return "label %d is reachable from the root but has no entry" % l
            if d[l] == () and l in at:
                continue
            if (l, d[l]) not in rk:
                return "entry %d -> %r is not a rule of its universe" % (l, d[l])
            if d[l] == ():
                return "label %d has the empty children tuple but is not an atom" % l
            st.extend(d[l])
        info.append((d, rk, at, seen, root))
    (d1, rk1, at1, seen1, root1), (d2, rk2, at2, seen2, root2) = info

    def local(a, b):
        if d1[a] == () or d2[b] == ():
            return d1[a] == () == d2[b] and at1[a] == at2[b]
        k1, k2 = rk1[(a, d1[a])], rk2[(b, d2[b])]
        return len(d1[a]) == len(d2[b]) and k1 >= 0 and k1 == k2

    rel = {(a, b) for a in seen1 for b in seen2 if local(a, b)}
    changed = True
    while changed:
        changed = False
        for a, b in list(rel):
            c1, c2 = d1[a], d2[b]
            if not any(all((c1[p[j]], c2[j]) in rel for j in range(len(c2)))
                       for p in itertools.permutations(range(len(c1)))):
                rel.discard((a, b))
                changed = True
    if (root1, root2) not in rel:
        return "the two label maps are not isomorphic"
    return None


def _shortcut_diagnosis(sides, maps, mi):
    """Does the failure come from the second search accepting two labels that both already had a rule
    without matching the two rules with each other?  Walk from the root pair along the recorded child
    orders; a pair whose two assigned rules are not a recorded matching is UNJUSTIFIED (that is where
    the shortcut answered).  The finding applies when such a pair exists and every justified pair on
    the walk is locally right (same kind, same atom, a permutation): then nothing else is wrong."""
    d1 = {l: tuple(c) for l, c in maps[0]}
    d2 = {l: tuple(c) for l, c in maps[1]}
    m = {tuple(k): {(tuple(c1), tuple(c2)): o for c1, c2, o in v} for k, v in mi}
    rk = [{(l, tuple(c)): k for l, rs in side[2] for c, k in rs} for side in sides]
    at = [dict((l, a) for l, a in side[1]) for side in sides]
    unjust, other = [], []
    seen, st = set(), [(sides[0][0], sides[1][0])]
    while st:
        a, b = st.pop()
        if (a, b) in seen:
            continue
        seen.add((a, b))
        if a not in d1 or b not in d2:
            other.append("pair (%d,%d) without entries" % (a, b))
            continue
        c1, c2 = d1[a], d2[b]
        if (c1, c2) not in m.get((a, b), {}):
            unjust.append((a, b))
            continue
        if c1 == () and c2 == ():
            if at[0].get(a) is None or at[0].get(a) != at[1].get(b):
                other.append("atoms of (%d,%d) differ" % (a, b))
            continue
        o = m[(a, b)][(c1, c2)]
        k1, k2 = rk[0].get((a, c1)), rk[1].get((b, c2))
        if k1 is None or k2 is None or k1 < 0 or k1 != k2 or len(c1) != len(c2) or sorted(o) != list(range(len(c1))):
            other.append("recorded matching of (%d,%d) is wrong" % (a, b))
            continue
        for j, i in enumerate(o):
            st.append((c1[i], c2[j]))
    return unjust, other


# ===================================================================== the oracle
def oracle(case, res):
    if res.get("exception") and "stage" not in res:
        return "harness or implementation raised outside the finder: " + res["exception"]
    if res.get("kind_bad"):
        return "harness: Constructor.equiv is not an equivalence relation on the rules of this pair"
    if res.get("init_exception"):
        if res.get("refused"):
            return None
        if any(res.get("empty_start", [])) and res["init_exception"].startswith("AssertionError"):
            return "ParallelInfo raised AssertionError for an EMPTY start class: " + res["trace"].strip().split("\n")[-2].strip()
        return "the finder's constructor raised %s\n%s" % (res["init_exception"], res.get("trace", "")[-600:])
    if res.get("find_exception"):
        where = "_validate_atoms_for_existing_entries" if "_validate_atoms_for_existing_entries" in res.get("trace", "") else "?"
        return "find() raised %s [in %s]\n%s" % (res["find_exception"], where, res.get("trace", "")[-500:])
    out = res["out"]
    if out[0] != 1:
        return None
    # ---- label maps (both kinds): a matched pair?
    if case["kind"] == "abs":
        why = _pair_check(res["sides"], out[1], out[2])
    else:
        # the observable level is the two specifications; the label maps only serve the diagnosis
        if res.get("key_conflict"):
            return "returned specification: " + res["key_conflict"]
        for i, v in enumerate(res["validity"]):
            if v:
                return "specification %d is not valid for its start class: %s" % (i + 1, v)
        if res.get("kind_check"):
            return "the returned specification does not hold the rule the finder compared: " + res["kind_check"]
        why = None
        if not res["iso"]["structural"]:
            pc = _pair_check(res["sides"], out[1], out[2])
            if _base_outside(case, res) and pc is None:
                # VERDICT "outside the documented precondition of the base variant", not a violation and not a
                # finding: ParallelSpecFinder's docstring assumes that classes sharing an equivalence label are
                # equivalent; here a unary NON-equivalence rule lies inside an equivalence class, so the
                # label-level matched pair (required and established above the line: validity of both
                # specifications; here: pc is None) does not extend to the specifications.  Everything else
                # (no exception, both specifications valid, label maps a matched pair, model = code) stays
                # binding.  The same pair under the EqPath variant IS judged in full.
                res["verdict"] = "outside-precondition:base-variant-nonisomorphic"
                return None
            why = "the two specifications are not isomorphic (bisimulation of the specifications fails; label maps: %s)" % (
                pc or "matched")
    if why:
        unjust, other = _shortcut_diagnosis(res["sides"], res["maps"], res["mi"])
        tag = ""
        if unjust and not other:
            tag = " [second search accepted the assigned pair %s without matching their rules]" % (unjust[0],)
        elif (case["kind"] != "abs" and case.get("variant") == 1 and not unjust and not other
              and why.endswith("label maps: matched)") and res.get("bad_edges")):
            # the label maps ARE matched; what differs are non-equivalence rules on the way into a pair of
            # children that the search never compared under this pair of parents
            e = res["bad_edges"][0]
            tag = " [equivalence paths of the children %s under the parents %s were never compared]" % (e[0], e[1])
        return "the output is not a matched pair: %s%s" % (why, tag)
    if case["kind"] != "abs":
        iso = res["iso"]
        failures = []
        if not (iso["lib12"] and iso["lib21"]):
            # the open finding KF_CHAIN, and nothing wider: BOTH directions reject (an asymmetric verdict is another
            # defect), some class resolves through more than one equivalence step, and the chains are what explains
            # the rejection: the bisimulation that steps over at most one equivalence rule per side (what
            # Isomorphism.check implements) fails too, while the one that steps over any number succeeds
            explained = (iso["chained"] and not iso["lib12"] and not iso["lib21"] and iso.get("oneskip") is False)
            tag = " [chained equivalence steps]" if explained else ""
            if iso["chained"] and not explained:
                tag = " [chains present but they do not explain it: one-step bisimulation %r]" % (iso.get("oneskip"),)
            failures.append("Isomorphism.check rejects the returned pair (%s, %s) although it is isomorphic up to equivalence steps%s" % (
                iso["lib12"], iso["lib21"], tag))
        if iso["bijection"]:
            failures.append("bijection between the returned specifications: " + iso["bijection"])
        # the first UNMASKED failure; a masked one only when nothing else is wrong
        for w in failures:
            if finding_match(case, w) is None:
                return w
        if failures:
            return failures[0]
    return None


def _base_outside(case, res):
    """the base variant run on a universe that violates its documented precondition"""
    return case.get("variant") == 0 and any(res.get("noneq_inside") or [[], []])


def finding_match(case, why):
    if why.startswith("ParallelInfo raised AssertionError for an EMPTY start class") and "assert not parent.is_empty()" in why:
        return KF_EMPTY
    if why.startswith("the output is not a matched pair") and "[second search accepted the assigned pair" in why:
        return KF_SHORTCUT
    if (why.startswith("find() raised KeyError") and "[in _validate_atoms_for_existing_entries]" in why
            and case.get("variant") == 1):
        return KF_SHORTCUT
    if (why.startswith("Isomorphism.check rejects the returned pair (False, False)")
            and why.endswith(" [chained equivalence steps]")):
        # the tag is only written by the oracle after it has established that the chains explain the rejection
        return KF_CHAIN
    if (why.startswith("the output is not a matched pair") and case.get("variant") == 1
            and "[equivalence paths of the children" in why and "were never compared]" in why):
        return KF_EQCHILD
    return None


def nontrivial(case, res):
    if not res.get("sides"):
        return False
    big = max(len(_labels_of(s)) for s in res["sides"]) >= 3
    return big and (res["out"][0] == 1 or res["out"][0] >= 10)


def key(case):
    return json.dumps(case, sort_keys=True)


def classify(case, res):
    tags = [case["kind"], "variant=%s" % ("eqpath" if case.get("variant") else "base")]
    out = res.get("out")
    if res.get("init_exception"):
        tags.append("init:" + ("refused:" if res.get("refused") else "FAILED:") + res["init_exception"][:40])
    elif res.get("find_exception"):
        tags.append("find raised " + res["find_exception"].split(":")[0])
    elif isinstance(out, list) and out and out[0] == 1:
        tags.append("found")
        if case["kind"] != "abs":
            iso = res.get("iso", {})
            tags.append("iso structural=%s lib=%s" % (iso.get("structural"), iso.get("lib12") and iso.get("lib21")))
            if iso.get("chained"):
                tags.append("chained equivalence steps")
            s = res["sides"]
            if any(side[0] != st for side, st in zip(s, res.get("start_labels", [None, None])) if st is not None):
                tags.append("start label is not its representative")
        if (case["kind"] != "abs" and _base_outside(case, res)
                and not res.get("iso", {}).get("structural", True)):
            tags.append("VERDICT outside-precondition: base variant returned a non-isomorphic pair on a universe "
                        "violating its documented assumption (not a violation, not a finding)")
        if res.get("log"):
            tags.append("eq-path oracle consulted")
    elif isinstance(out, list) and out and out[0] == 0:
        tags.append("nothing found")
    if any(res.get("noneq_inside") or [[], []]):
        tags.append("non-equivalence unary rule inside an equivalence class (%s)" % (
            "base variant: OUTSIDE its documented precondition" if not case.get("variant") else "eqpath variant: in scope"))
    if case.get("base_outside"):
        tags.append("gen: base_outside")
    if res.get("sides"):
        m = max(len(rs) for side in res["sides"] for _, rs in side[2]) if any(side[2] for side in res["sides"]) else 0
        if m >= 2:
            tags.append("several candidate rules for a label")
    return tags


def extra_checks(ctx):
    """coverage floors (measured on the quick tier, seed 0: 1891 / 621 / 403 / 50; floors at about a quarter):
    the clauses 'start classes that are equivalent to other classes' and 'both finder variants' on universes
    with non-equivalence unary rules must really be reached, and the base variant's outside-precondition
    verdict must really be exercised (otherwise the tag would hide nothing and prove nothing)."""
    out = []
    from comb_spec_searcher.bijection import EqPathParallelSpecFinder

    patched = "_maps_are_matched" in EqPathParallelSpecFinder.__dict__
    out.append(("repair 8a96a0c in force: EqPathParallelSpecFinder validates the child paths in its own _maps_are_matched "
                "(the model runs mode variant*%d)" % (3 if patched else 1), patched,
                "ok" if patched else "failing input: findings/eqpath_unvalidated_child_paths.py (the EqPath finder returns a "
                "pair whose child paths were never compared; C13_matched_pair_refuted is the model's witness of that code); "
                "the fixed finding F-C13e returned"))
    out.extend(_construct_total_checks(ctx))
    n = len(ctx.cases)
    if n < 15000:
        return out
    tally = {"startrep": 0, "eq_noneq": 0, "base_noneq": 0, "verdict": 0}
    for case, entry in zip(ctx.cases, ctx.impl_res):
        res = entry[0] if isinstance(entry, (tuple, list)) else entry
        if not isinstance(res, dict):
            continue
        for t in classify(case, res):
            if t == "start label is not its representative":
                tally["startrep"] += 1
            elif t.startswith("non-equivalence unary rule inside") and "eqpath variant" in t:
                tally["eq_noneq"] += 1
            elif t.startswith("non-equivalence unary rule inside") and "base variant" in t:
                tally["base_noneq"] += 1
            elif t.startswith("VERDICT outside-precondition"):
                tally["verdict"] += 1
    scale = n / 18000.0
    for key, floor, what in (
        ("startrep", 450, "found pairs of real searchers whose start label is not its representative"),
        ("eq_noneq", 150, "EqPath cases on universes with a non-equivalence unary rule inside an equivalence class"),
        ("base_noneq", 100, "base-variant cases outside the documented precondition"),
        ("verdict", 10, "base-variant pairs judged 'outside-precondition' (non-isomorphic, label maps matched)"),
    ):
        need = int(floor * scale)
        out.append(("coverage floor: %s" % what, tally[key] >= need, "%d reached, floor %d of %d cases" % (tally[key], need, n)))
    return out


MIN_WF = 0.99      # measured 17896/17896, 17416/17416, 17642/17642 (every replayed rule database) on seeds 0, 1, 2
MIN_WF_STRICT = 0.97   # measured 0.9975, 0.9982, 0.9973: the rest are the 'Only atoms can be verified.' universes


_SELFTEST_CASE = {"kind": "word", "variant": 1, "a": {"start": 0, "pack": "base", "ruledb": "base"},
                  "b": {"start": 7, "pack": "inferral", "ruledb": "base"}, "pre": [0, 0]}


def _kind_check_selftest():
    """the oracle check (c)3(b) must (1) pass on an honest pair and (2) fire when the kind the finder is said to have
    compared differs from the kind of the rule the specification holds, and when the children differ.  Needed because
    in the generated universes all rules with one equivalence key have one kind (measured: 0 of 2916 rule databases
    differ), so no mutant of /repo exercises the failing branch."""
    import copy

    RecBase, RecEq = _finder_classes()
    s1, s2 = _make_searchers(_SELFTEST_CASE)
    cls = _Classes()
    finder = RecEq(s1, s2)
    sides, _ = _sides_of(finder, cls)
    specs = finder.find()
    if specs is None:
        return False, "the self-test pair was not found"
    ok, n = _kind_check(finder, specs, (s1, s2), sides, cls)
    if ok is not None or not n:
        return False, "honest pair rejected: %r (%d labels)" % (ok, n)
    root = sides[0][0]
    bad = copy.deepcopy(sides)
    for l, rs in bad[0][2]:
        if l == root:
            for r in rs:
                r[1] = r[1] + 17
    msg, _ = _kind_check(finder, specs, (s1, s2), bad, cls)
    if not msg or "compared a rule of kind" not in msg:
        return False, "a wrong compared kind at the root label was not noticed: %r" % (msg,)
    finder.rec_maps = (dict(finder.rec_maps[0]), dict(finder.rec_maps[1]))
    l0 = next(l for l, c in finder.rec_maps[0].items() if len(c) >= 1)
    finder.rec_maps[0][l0] = tuple(finder.rec_maps[0][l0]) + (root,)
    msg2, _ = _kind_check(finder, specs, (s1, s2), sides, cls)
    if not msg2:
        return False, "a label map binding that is no rule of the specification was not noticed"
    return True, "honest pair accepted on %d labels; tampered kind and tampered children both rejected" % n


def _construct_total_checks(ctx):
    """covered_by_theorem C13_construct_total / C13_construct_ok: on how many of the replayed rule databases the
    decidable hypothesis db_wf (resp. db_wf and only_atoms_verified) holds - decided by the harness on the real
    objects (_db_wf) and by the extracted db_wfb inside run_c13 (fields w1, w2 of the compared output: a
    disagreement is a correspondence mismatch) - and, wherever it holds, that the REAL ParallelInfo did what the
    theorem says of the model: no KeyError / AssertionError / RuntimeError out of _construct_eq_label_rules
    (resp. the universe was built)."""
    n = k1 = k3 = 0
    contradicted, ver, kinds_cmp, kinds_cases = [], 0, 0, 0
    for case, entry in zip(ctx.cases, ctx.impl_res):
        res = entry[0] if isinstance(entry, (tuple, list)) else entry
        if not isinstance(res, dict):
            continue
        if res.get("kind_compared"):
            kinds_cases += 1
            kinds_cmp += res["kind_compared"]
        o = res.get("out")
        if "wf" not in res or not isinstance(o, list) or len(o) != 9:
            continue
        for side, (w, c) in enumerate(zip(res["wf"], (o[3], o[5]))):
            n += 1
            ver += bool(res["ver_children"][side])
            if w & 1:
                k1 += 1
                if c not in (0, 7):
                    contradicted.append((key(case), side, w, c))
            if w == 3:
                k3 += 1
                if c != 0:
                    contradicted.append((key(case), side, w, c))
    ok1 = not contradicted and (n == 0 or k1 >= MIN_WF * n)
    ok3 = not contradicted and (n == 0 or k3 >= MIN_WF_STRICT * n)
    detail = ("rule databases replayed through the model of ParallelInfo (two per real-searcher case that reached "
              "_construct_eq_label_rules); db_wf decided on the real objects and by the extracted db_wfb (compared); "
              "minimum fraction %.2f" % MIN_WF)
    if contradicted:
        detail = ("failing input: %s side %d: hypothesis code w=%d holds but ParallelInfo ended with code %d "
                  "(11 KeyError, 13 AssertionError, 14 RuntimeError, 7 refusal): the theorem is about a model that "
                  "is not this code" % contradicted[0])
    return [
        ("covered_by_theorem C13_construct_total: %d of %d" % (k1, n), ok1, detail),
        ("covered_by_theorem C13_construct_ok: %d of %d" % (k3, n), ok3,
         "as above with only_atoms_verified in addition (universe built, no refusal); minimum fraction %.2f" % MIN_WF_STRICT
         if not contradicted else detail),
        ("hypothesis ver_no_children of C13_universe_well_formed / C13_two_rule_sets decided on the stored rules: "
         "%d of %d rule databases have a verification rule with children" % (ver, n), ver == 0,
         "ok" if ver == 0 else "a stored verification rule with children: the two theorems do not apply to that universe"),
        ("oracle (c)3(b) exercised: kind of the emitted rule = kind the finder compared, on %d labels of %d returned pairs"
         % (kinds_cmp, kinds_cases), True, "information"),
        _selftest_row(),
    ]


def _selftest_row():
    try:
        ok, detail = _kind_check_selftest()
    except Exception as ex:  # pylint: disable=broad-except
        ok, detail = False, "self-test raised %s: %s" % (type(ex).__name__, str(ex)[:200])
    return ("self-test of the oracle check (c)3(b) (emitted rule = compared rule)", ok, detail)


def shrink(case):
    if case["kind"] == "abs":
        for si in ("s1", "s2"):
            root, atoms, rules = case[si]
            for i, (l, rs) in enumerate(rules):
                for j in range(len(rs)):
                    r2 = [[l2, [r for jj, r in enumerate(rs2) if not (ii == i and jj == j)]]
                          for ii, (l2, rs2) in enumerate(rules)]
                    yield {**case, si: [root, atoms, r2]}
    elif case["kind"] == "reg":
        if case["pre"] != [0, 0]:
            yield {**case, "pre": [0, 0]}
        for ui in ("u1", "u2"):
            u = case[ui]
            if u.get("retag"):
                yield {**case, ui: {**u, "retag": u["retag"][:-1]}}
            if u["tags"] > 1:
                yield {**case, ui: {**u, "tags": u["tags"] - 1, "start": [u["start"][0], u["start"][1], 0]}}
            if len(u["expand"]) > 1:
                yield {**case, ui: {**u, "expand": u["expand"][:-1]}}
            if len(u["peel"]) > 1:
                yield {**case, ui: {**u, "peel": u["peel"][:-1]}}
    elif case["kind"] == "word":
        if case["pre"] != [0, 0]:
            yield {**case, "pre": [0, 0]}
        for s in ("a", "b"):
            if case[s]["pack"] != "base":
                yield {**case, s: {**case[s], "pack": "base"}}


TECHNIQUE = (
    "Coq proofs over an executable Gallina model of ParallelInfo's construction of the universes, of both finder "
    "variants (first search, second search, the final walk _maps_are_matched, tree construction; + the second final "
    "walk of the EqPath variant, fix 8a96a0c) and of the specification-construction stage (C02's extractor model); refutation "
    "witnesses for the pre-97589e3 code kept as history; the model is run (extracted, ExtrOcamlBasic only) against the "
    "real code on pairs of real searchers and on synthetic universes; an independent oracle decides validity (counts, "
    "closedness, genuineness, productivity) and isomorphism (own bisimulation, Isomorphism.check, Bijection.construct on "
    "objects) of what the real finder returns"
)
LEVEL_TEXT = (
    "For the code as it is (fix: commits a172a92, 97589e3, 8a96a0c), for all rule databases / universes and all fuel: "
    "C13_matched_pair, C13_matched_pair_eqpath (whatever find() returns, in either variant, is a matched pair: both label "
    "maps closed from their roots, made of rules of their universes, isomorphic through a relation respecting "
    "constructor classes, atoms and a permutation of the children at every node); C13_base_finder_never_raises + "
    "C13_base_finder_total and C13_eqpath_finder_never_raises + C13_eqpath_finder_total (both find() are total at the model "
    "level: no exception state, all searches and walks terminate; EqPath for every oracle answering all questions of "
    "_eq_path_matches); C13_eqpath_edges_checked + C13_ewalk_sound (the content of fix 8a96a0c: when the EqPath find() as it "
    "is returns a pair, EVERY parent-pair -> child-pair edge of the two maps reachable from the roots was asked of "
    "_eq_path_matches in the final walk and answered True, and its rules are a recorded matching) and "
    "C13_matched_pair_eqpath_with_paths (under the contract of those answers the pair is matched INCLUDING the "
    "non-equivalence rules inside the equivalence labels; false for pw = false, the code before the fix); "
    "C13_eqpath_finder_total_tight (walk bound linear in the number of label pairs) and C13_harness_never_out_of_fuel "
    "(the fuel run_c13 computes from the universes meets the termination bounds: status 2 is excluded on every compared "
    "run, for every oracle answering all questions; tree construction included); "
    "C13_first_search_sound, C13_failure_memo_sound, C13_maps_use_rules; "
    "C13_universe_well_formed (the universe ParallelInfo._construct_eq_label_rules builds from a rule database — incl. the "
    "skipped empty parent — consists of stored rules up to equivalence, root = representative of the start label); "
    "C13_construct_total (db_wf db lis -> construct db lis <> CErr e for every error code: under the decidable "
    "well-formedness of the rule database ParallelInfo._construct_eq_label_rules raises neither KeyError nor "
    "AssertionError nor RuntimeError - the failure class of a172a92), C13_construct_ok (with only_atoms_verified it "
    "answers COk: no refusal either), C13_db_wf_decidable (db_wfb, only_atoms_verified_b decide them, iff), "
    "C13_run_reports_coverage (run_c13 evaluates both on every replayed rule database and an odd w field implies c in "
    "{0, 5, 7}, w = 3 implies the universe was built); near-miss Examples for each clause of db_wf (CErr 1, 4, 3) and "
    "for the refusal; "
    "C13_rule_set_reachable (every class of the extractor's rule set is reachable from the start class, given find_path "
    "inside the class and simple), C13_label_map_meets_constructor_contract (the rule set built from a label map, read "
    "as rule objects through the rule-data contract, satisfies six of the seven clauses of C02's wf_input; with the "
    "seventh, `chains`, as a hypothesis: wf_input and spec_init <> XErr, i.e. C02_constructor_never_raises applies), "
    "C13_rule_set_ctor_bridge_partial (the same from rule_set_ok alone, `reachable` a hypothesis too: rule_set_ok as "
    "stated does not imply it); "
    "C13_spec_from_label_map (extractor invoked with the START label: closed rules dictionary with a rule for the start "
    "label, C02's theorem; Examples for a start label that is not its representative and for the pre-a34d719 call); "
    "C13_two_rule_sets(_eqpath): end to end from the two rule databases to two closed rule sets (hypotheses per side: "
    "construct = COk - now a consequence of db_wf + only_atoms_verified by C13_construct_ok -, ver_no_children, "
    "fpath_ok, tree_keys = Some, order_ok). History: C13_matched_pair_refuted, C13_eqpath_raises_refuted are about the code before 97589e3 "
    "(find_base_old / find_eq_old). Found by the oracle, outside what the label-level theorems speak "
    "about: FIXED (8a96a0c) - EqPathParallelSpecFinder did not compare the equivalence paths of the children of two "
    "already-assigned labels (non-isomorphic specifications); the repair (a second final walk) is the model's pw = true, "
    "which is /repo as it is and what every case runs (pw = false describes the code before the fix; the same theorems are "
    "proved for both); OPEN - returned pairs with chained equivalence steps that Isomorphism.check rejects (masked only when "
    "both directions reject and a bisimulation stepping over at most one equivalence rule per side fails too)."
)
LEVEL_NOTE = (
    "Model level: the theorems are about Parallel/Model.v + InfoModel.v, tied to bijection.py by the correspondence (0 "
    "mismatches on every run; both finder variants; real searchers over word and regular-language universes and "
    "synthetic universes on the real methods). Totality of the real Python code is exercised, not proved: every "
    "exception of the real finder is an oracle failure unless it is one of three documented refusals. 'Matched pair' is "
    "the label-map notion (up to equivalence labels, as the finder works): it does not see non-equivalence rules inside "
    "equivalence paths — that, validity of the returned specifications (C01/C02) and Isomorphism.check / "
    "Bijection.construct on them are instance verdicts of the oracle (the EqPath finding fixed by 8a96a0c lived exactly there; the open chained-equivalence-steps finding does) "
    "Totality of ParallelInfo's construction: theorem C13_construct_total under db_wf, which is evaluated on EVERY "
    "compared rule database (k of n in extra_checks; 100% on seeds 0-2) - so on those runs 'no exception out of "
    "_construct_eq_label_rules' is the theorem plus the correspondence, not only the oracle. The constructor stage: "
    "C13_label_map_meets_constructor_contract composes with C02_constructor_never_raises at the MODEL level only "
    "(spec_init; hypotheses chains, ruledata_ok, strong find_path contract, order_ok are not evaluated on C13's runs; "
    "_create_spec is not executed by run_c13). New oracle check (emitted rule = compared rule, by kind and children) is "
    "per instance on every returned pair of real searchers; in the generated universes all rules sharing an equivalence "
    "key have one kind (0 of 2916 rule databases differ), so its failing branch is reached by no mutant of /repo tried - "
    "it is exercised by a self-test in extra_checks (tampered kind, tampered children) - widening the universes with "
    "equivalent classes whose rules differ in constructor is open. "
    "Not modelled: expansion of the searchers, EquivalenceRuleExtractor (answers of _eq_path_matches replayed as a "
    "table), CombinatorialSpecification construction (C02's model, bridged as said) and Isomorphism (C12)."
    " The path contract fpath_ok that the rule-set theorems assume of the path oracle is a THEOREM for the equivalence "
    "database: C13_path_contract_from_equivalence_database (db[.] and find_path of the EquivalenceDB model after any history "
    "over natural labels satisfy it, and every path step is a recorded edge; Spec/ExtractorEquiv.v, via C06_path_function); "
    "that the finder's db_rep IS db[.] of that state is read off the real run, not proved."
)
