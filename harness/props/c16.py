"""C16 — the work queue schedules every class completely, once, in order, and terminates."""
import signal

ID = "C16"
TITLE = "work queue: every class scheduled completely, once, in order; exhaustion is stable; every next call and every drain terminate"
COQ_PROPS = "Props/C16.v"
COQ_RUN = ("Queue.Run", "run_c16")
GEN_TARGETS = ["queue_can_do_inferral", "queue_can_do_initial", "queue_change_level_order"]   # Queue/GenBridge.v
N = {"quick": 30000, "thorough": 300000}
RULE = (
    "random histories (1-90 operations, optionally followed by a drain of next() calls) of "
    "add / set_not_inferrable / set_verified / set_stop_yielding / next(queue) / queue.do_level() / next(generator) "
    "on a real DefaultQueue built from a real StrategyPack of dummy strategies; pack shape = 0-3 inferral, "
    "0-3 initial strategies, 0-3 expansion sets of 0-3 strategies (10% of packs enter a branch that replaces each slot "
    "with probability 0.3 by a random id of the pack: measured 6.0% of packs repeat a strategy object somewhere, 3.8% "
    "violate the hypothesis NoDup (initial ++ concat expansion) of C16_no_duplicate); "
    "five history profiles (uniform mix, add-bursts then drain, do_level driven, searcher-like children "
    "added after a packet, stop marks right after a hand-out while work is staged); labels from a small pool "
    "so duplicate additions and mid-level additions occur; an edge stream uses negative/huge labels, empty "
    "packs and operations on an empty queue. Non-trivial: >= 6 packets for >= 2 labels and at least one of "
    "{user stop mark, duplicate add, completed level, StopIteration}; distinct = distinct (pack, op list)."
)
TRUSTED = [
    "modelled, not verified: comb_spec_searcher/class_queue.py (CSSQueue.__init__, DefaultQueue incl. do_level) — "
    "hand-written Gallina model Queue/Model.v tied by this correspondence",
    "collections.deque / collections.Counter / sorted() / set semantics as transcribed in Queue/Model.v "
    "(FIFO, insertion-ordered counter, stable sort)",
]
ASSUMPTIONS = [
    "labels are hashable integers; the strategies of the pack are opaque objects",
    "C16_no_duplicate assumes the initial and expansion strategies of the pack are pairwise distinct objects "
    "(NoDup (initial_strategies ++ concat expansion_strats); otherwise the same (label, strategy) packet is scheduled "
    "once per occurrence, Example C16_no_duplicate_near_miss); its conclusion is about PACKETS (label, strategies, inferral): "
    "a strategy that is both an inferral strategy and an initial/expansion strategy is handed out for a label inside the "
    "inferral packet and again alone; the hypothesis is a contract on the pack that nothing checks on real packs. "
    "C16_order, C16_only_added, C16_packets_bounded, C16_drain_terminates, C16_inferral_first need no hypothesis on the pack "
    "(C16_inferral_first: inferral_strategies <> [], otherwise there is no inferral packet)",
    "DefaultQueue.set_not_initial (public helper, never called by the searcher) is not part of the histories",
    "the histories drive one do_level generator at a time (a new do_level() replaces the previous one)",
]
TECHNIQUE = "Coq proof (invariants by induction over operation histories; per-call termination by fuel proved sufficient through a measure; run termination by a counting bound) + extracted-model/implementation correspondence"
LEVEL_TEXT = (
    "Theorems C16_* (coq/theories/Props/C16.v) prove for every pack and every history of add / set_not_inferrable / "
    "set_verified / set_stop_yielding / next / do_level operations on the Gallina transcription of DefaultQueue: "
    "every single next call terminates (C16_next_terminates, C16_fuel_irrelevant: fuel = measure + 2 is proved sufficient) "
    "and no operation of a history trips an assert (C16_history_total); a packet is never handed out for a label told to "
    "stop (C16_never_ignored, C16_never_ignored_state); every packet handed out, and every label anywhere in the queue, "
    "belongs to a label that was added (C16_only_added, C16_queue_only_added); per label the packets handed out are a "
    "prefix of [inferral packet] ++ initial strategies ++ expansion sets in pack order, or of the same without the inferral "
    "packet (C16_order); the inferral packet is the label's FIRST packet unless a set_not_inferrable for that label occurs "
    "strictly before the operation that handed out the label's first packet (C16_inferral_first; a later mark excuses "
    "nothing); IF the initial and expansion strategies of the pack are pairwise distinct, no packet is handed out twice "
    "(C16_no_duplicate; without that hypothesis a repeated strategy is scheduled once per occurrence); a whole history hands "
    "out at most (distinct labels added) * (packets of one label) packets (C16_packets_bounded), and after any history "
    "repeated next calls reach StopIteration within (that bound - packets already handed out) calls and stay there "
    "(C16_drain_terminates, C16_drain_stays_stopped: the property title's 'terminates'; C16_work_size: packets of one "
    "label = [pack has inferral] + #initial + total size of the expansion sets), that drain ends with every added, "
    "never-stopped label having ALL its work (C16_every_class_eventually_complete: liveness), and likewise repeated "
    "next(generator) calls of do_level end the pass with StopIteration or NoMoreClassesToExpandError within the same bound "
    "(C16_level_pass_terminates); when next signals StopIteration "
    "every added label that the user never told to stop has received all its work, the inferral packet missing only if the "
    "label was marked not-inferrable (C16_complete_when_drained); StopIteration persists until an add "
    "(C16_stop_again, C16_exhaustion_stable); one resumption of do_level finishes at once if the level counter has moved, "
    "else yields what next yields, and raises NoMoreClassesToExpandError exactly when StopIteration arrives with the level "
    "counter unchanged (C16_do_level, C16_do_level_fresh_done) - a pass that advances the counter and runs dry in the same "
    "call finishes without yielding anything and without the error (Example C16_phantom_level, recorded behaviour). "
    "The model is tied to class_queue.py by comparing complete output streams, queue_sizes and queue lengths on generated "
    "histories; the oracle decides the same predicates on the implementation's stream, including the mark-before-first-packet "
    "condition and the drain bound (the k-th consecutive next with k > |added labels| * |work of a label| must be "
    "StopIteration, and the appended drain must end in StopIteration)."
)
LEVEL_NOTE = (
    "Trusted: Coq kernel, ExtrOcamlBasic extraction + OCaml driver, the correspondence harness. "
    "Modelled not verified: class_queue.py itself (deque/Counter/sorted/set semantics transcribed by hand). "
    "Not proved: a characterisation of the packets of one complete do_level pass (only single resumptions are); "
    "the converse of C16_inferral_first (a mark before the first packet does not always suppress the inferral packet: "
    "it is kept when already staged, and the mark is ignored for a stopped label)."
)

# op codes
ADD, NOTINF, VERIFIED, STOP, NEXT, DOLEVEL, LEVELNEXT = range(7)


# ----------------------------------------------------------------- generator
def _pack(rng, edge):
    r = rng.random()
    if edge and r < 0.3:
        n_inf, n_ini, sets = 0, 0, []
    else:
        n_inf = rng.choice([0, 0, 1, 1, 2, 3])
        n_ini = rng.choice([0, 0, 1, 1, 2, 3])
        sets = [rng.choice([0, 1, 1, 2, 2, 3]) for _ in range(rng.choice([0, 1, 1, 2, 2, 3]))]
    nxt = [1]

    def fresh(k):
        out = list(range(nxt[0], nxt[0] + k))
        nxt[0] += k
        return out

    inf, ini = fresh(n_inf), fresh(n_ini)
    exp = [fresh(k) for k in sets]
    if rng.random() < 0.10:
        # the same strategy object in several places of the pack
        allids = inf + ini + [s for e in exp for s in e]
        if allids:
            for lst in [inf, ini] + exp:
                for i in range(len(lst)):
                    if rng.random() < 0.3:
                        lst[i] = rng.choice(allids)
    return inf, ini, exp


def _bound(inf, ini, exp, ops):
    per = 1 + len(ini) + sum(len(e) for e in exp)
    nadd = sum(1 for o in ops if o[0] == ADD)
    return nadd * per + 3


def gen(rng, tier):
    while True:
        edge = rng.random() < 0.12
        inf, ini, exp = _pack(rng, edge)
        nlab = rng.choice([1, 2, 3, 3, 4, 5, 6, 8])
        if edge:
            pool = [rng.choice([-1, -2, 0, 1, 10**9, 2**60, -(2**40)]) for _ in range(nlab)]
        else:
            pool = list(range(nlab))

        def lab():
            return rng.choice(pool)

        n = rng.randint(1, 90) if not edge else rng.randint(1, 25)
        profile = rng.choice(["mix", "mix", "burst", "level", "searcher", "stopstaged"])
        ops = []
        if profile == "mix":
            w = [rng.random() for _ in range(7)]
            w[ADD] += 1.0
            w[NEXT] += 1.2
            w[LEVELNEXT] += 0.3
            for _ in range(n):
                c = rng.choices(range(7), weights=w)[0]
                ops.append([c, lab() if c < 4 else 0])
        elif profile == "burst":
            while len(ops) < n:
                for _ in range(rng.randint(1, 6)):
                    ops.append([ADD, lab()])
                    if rng.random() < 0.2:
                        ops.append([rng.choice([NOTINF, VERIFIED, STOP]), lab()])
                for _ in range(rng.randint(0, 25)):
                    ops.append([NEXT, 0])
                    if rng.random() < 0.08:
                        ops.append([rng.choice([NOTINF, VERIFIED, STOP, ADD]), lab()])
        elif profile == "level":
            for _ in range(rng.randint(1, 4)):
                ops.append([ADD, lab()])
            while len(ops) < n:
                ops.append([DOLEVEL, 0])
                for _ in range(rng.randint(1, 20)):
                    ops.append([LEVELNEXT, 0])
                    x = rng.random()
                    if x < 0.25:
                        ops.append([ADD, lab()])
                    elif x < 0.32:
                        ops.append([rng.choice([NOTINF, VERIFIED, STOP]), lab()])
                    elif x < 0.36:
                        ops.append([NEXT, 0])
        elif profile == "searcher":
            # like CSS: after a packet, children are added / marked; the parent may be stopped
            ops.append([ADD, lab()])
            while len(ops) < n:
                ops.append([NEXT if rng.random() < 0.8 else LEVELNEXT, 0])
                for _ in range(rng.choice([0, 0, 1, 1, 2])):
                    child = lab()
                    ops.append([ADD, child])
                    if rng.random() < 0.3:
                        ops.append([NOTINF, child])
                    if rng.random() < 0.15:
                        ops.append([VERIFIED, child])
                if rng.random() < 0.1:
                    ops.append([STOP, lab()])
                if rng.random() < 0.05:
                    ops.append([DOLEVEL, 0])
        else:  # stopstaged: stop marks arrive while the label's work is staged
            while len(ops) < n:
                l = lab()
                ops.append([ADD, l])
                if rng.random() < 0.3:
                    ops.append([ADD, lab()])
                for _ in range(rng.randint(1, 4)):
                    ops.append([NEXT, 0])
                ops.append([rng.choice([STOP, VERIFIED, NOTINF, ADD]), l])
                for _ in range(rng.randint(0, 6)):
                    ops.append([NEXT, 0])
                if rng.random() < 0.3:
                    ops.append([ADD, l])
        if rng.random() < 0.6:
            ops += [[NEXT, 0]] * min(_bound(inf, ini, exp, ops), 400)
            if rng.random() < 0.3:
                ops += [[ADD, lab()]] + [[NEXT, 0]] * rng.randint(1, 12)
            if rng.random() < 0.3:
                ops += [[LEVELNEXT, 0], [DOLEVEL, 0], [LEVELNEXT, 0], [LEVELNEXT, 0]]
        yield {"inf": inf, "ini": ini, "exp": exp, "ops": ops}


def encode(case):
    return [case["inf"], case["ini"], case["exp"], [[o[0], o[1]] for o in case["ops"]]]


# ----------------------------------------------------------------- implementation
class _Dummy:
    """An opaque strategy object; the queue never looks inside."""

    def __init__(self, ident):
        self.ident = ident

    def __repr__(self):
        return "S%d" % self.ident


class _Timeout(Exception):
    pass


def _alarm(signum, frame):
    raise _Timeout("the queue burnt 5 s of user CPU time on one history (non-termination?)")


def impl(case):
    from comb_spec_searcher.class_queue import DefaultQueue
    from comb_spec_searcher.exception import NoMoreClassesToExpandError
    from comb_spec_searcher.strategies.strategy_pack import StrategyPack
    from comb_spec_searcher.typing import WorkPacket

    objs = {}

    def S(i):
        if i not in objs:
            objs[i] = _Dummy(i)
        return objs[i]

    pack = StrategyPack(
        initial_strats=[S(i) for i in case["ini"]],
        inferral_strats=[S(i) for i in case["inf"]],
        expansion_strats=[[S(i) for i in e] for e in case["exp"]],
        ver_strats=[],
        name="dummy",
    )
    q = DefaultQueue(pack)
    g = q.do_level()
    events, levels, ign, bad = [], [], [], []

    def packet(wp):
        if not isinstance(wp, WorkPacket) or not isinstance(wp.strategies, tuple) or not isinstance(wp.inferral, bool):
            bad.append("not a WorkPacket: %r" % (wp,))
        ign.append(wp.label in q.ignore)
        return [1, wp.label, [s.ident for s in wp.strategies], int(wp.inferral)]

    # user-CPU-time guard (not wall-clock, not system time: robust against a loaded
    # machine and against copy-on-write page faults in forked workers); a mutant
    # that loops forever burns user time and is reported as a failure by the oracle
    old = signal.signal(signal.SIGVTALRM, _alarm)
    signal.setitimer(signal.ITIMER_VIRTUAL, 5.0)
    try:
        for o in case["ops"]:
            c, l = o[0], o[1]
            try:
                if c == ADD:
                    r = q.add(l)
                elif c == NOTINF:
                    r = q.set_not_inferrable(l)
                elif c == VERIFIED:
                    r = q.set_verified(l)
                elif c == STOP:
                    r = q.set_stop_yielding(l)
                if c < 4:
                    if r is not None:
                        bad.append("op %r returned %r" % (o, r))
                    ev = [0]
                elif c == NEXT:
                    try:
                        ev = packet(next(q))
                    except StopIteration:
                        ev = [2]
                elif c == DOLEVEL:
                    g = q.do_level()
                    ev = [0]
                else:
                    try:
                        ev = packet(next(g))
                    except StopIteration:
                        ev = [3]
                    except NoMoreClassesToExpandError:
                        ev = [4]
            except AssertionError:
                ev = [5]
            if ev[0] != 1:
                ign.append(False)
            events.append(ev)
            levels.append(q.levels_completed)
    finally:
        signal.setitimer(signal.ITIMER_VIRTUAL, 0)
        signal.signal(signal.SIGVTALRM, old)
    final = [len(q.working), [len(d) for d in q.curr_level], len(q.next_level)]
    sizes = list(q.queue_sizes)
    # ---- DRAIN (outside the compared output): after the history, call next(queue) until StopIteration, at most
    # cap = |added labels| * |all work of a label| + 2 times - every packet ever handed out belongs to an added label
    # and no label receives more than its work, so a queue that needs more calls fabricates or re-schedules work
    per = (1 if case["inf"] else 0) + len(case["ini"]) + sum(len(e) for e in case["exp"])
    cap = len({o[1] for o in case["ops"] if o[0] == ADD}) * per + 2
    drain, dlevels, dign = [], [], []
    n0 = len(ign)
    signal.signal(signal.SIGVTALRM, _alarm)
    signal.setitimer(signal.ITIMER_VIRTUAL, 5.0)
    try:
        for _ in range(cap):
            try:
                ev = packet(next(q))
            except StopIteration:
                ev = [2]
                ign.append(False)
            except AssertionError:
                ev = [5]
                ign.append(False)
            drain.append(ev)
            dlevels.append(q.levels_completed)
            if ev[0] != 1:
                break
    finally:
        signal.setitimer(signal.ITIMER_VIRTUAL, 0)
        signal.signal(signal.SIGVTALRM, old)
    dign = ign[n0:]
    del ign[n0:]
    return {"out": [events, sizes, final], "levels": levels, "ign": ign, "bad": bad,
            "drain": drain, "drain_levels": dlevels, "drain_ign": dign, "drain_sizes": list(q.queue_sizes), "drain_cap": cap}


# ----------------------------------------------------------------- oracle
def _all_work(case, l, with_inf):
    w = []
    if with_inf and case["inf"]:
        w.append((l, tuple(case["inf"]), 1))
    w += [(l, (s,), 0) for s in case["ini"]]
    for e in case["exp"]:
        w += [(l, (s,), 0) for s in e]
    return w


def oracle(case, res):
    """The five trace predicates of C16, decided on the implementation's output stream only."""
    if "exception" in res:
        return "implementation raised " + res["exception"]
    if res["bad"]:
        return res["bad"][0]
    events, sizes, _ = res["out"]
    levels, ign = res["levels"], res["ign"]
    ops = case["ops"]
    if len(events) != len(ops):
        return "wrong number of events"
    why = _trace_check(case, ops, events, levels, ign, sizes)
    if why or "drain" not in res:
        return why
    # ---- the drain: the same trace predicates on the history extended by the NEXT calls that drain the queue
    # (so "exhausted => every added, not stopped label received all its work" is decided on EVERY history), plus the bound
    d = res["drain"]
    why = _trace_check(case, ops + [[NEXT, 0]] * len(d), events + d, levels + res["drain_levels"], ign + res["drain_ign"],
                       res["drain_sizes"])
    if why:
        return "while draining the queue after the history: " + why
    if not d or d[-1] != [2]:
        return ("the queue is not drained after %d consecutive next calls = |added labels| * |work of a label| + 2 "
                "(drain bound)" % res["drain_cap"])
    return None


def _trace_check(case, ops, events, levels, ign, sizes):
    per = (1 if case["inf"] else 0) + len(case["ini"]) + sum(len(e) for e in case["exp"])
    run_next = 0
    stopped, added, notinf = set(), set(), set()
    handed = {}           # label -> list of work items handed out, in order
    notinf_before_first = {}
    drained = False       # StopIteration seen and no add since
    gstate, gc = "fresh", None
    lev = 0
    for i, (o, ev) in enumerate(zip(ops, events)):
        c, l = o[0], o[1]
        if ev[0] == 5:
            return "op %d: AssertionError" % i
        if levels[i] < lev:
            return "op %d: levels_completed decreased" % i
        lev_before, lev = lev, levels[i]
        if c == ADD:
            added.add(l)
            drained = False
        elif c == NOTINF:
            notinf.add(l)
        elif c in (VERIFIED, STOP):
            stopped.add(l)
        elif c == DOLEVEL:
            gstate = "fresh"
        if c < 4 or c == DOLEVEL:
            run_next = 0
            if lev != lev_before:
                return "op %d: levels_completed changed by a non-iteration operation" % i
            continue
        # ---- next(queue) / next(generator)
        # drain bound: the k-th of a run of consecutive next(queue) calls with k > |added| * |work of a label|
        # must be StopIteration
        run_next = run_next + 1 if c == NEXT else 0
        if c == NEXT and run_next > len(added) * per and ev != [2]:
            return ("op %d: the %d-th consecutive next(queue) answers %r, but only %d labels were added with %d work "
                    "packets each (drain bound)" % (i, run_next, ev, len(added), per))
        if c == LEVELNEXT:
            if gstate == "done":
                if ev != [3]:
                    return "op %d: finished do_level generator produced %r" % (i, ev)
                continue
            if gstate == "fresh":
                gstate, gc = "running", lev_before
            if gc != lev_before:
                gstate = "done"
                if ev != [3] or lev != lev_before:
                    return "op %d: do_level went on (%r) although the level counter had advanced" % (i, ev)
                continue
            if ev == [3]:
                gstate = "done"
                if lev == gc:
                    return "op %d: do_level ended although the level counter did not advance" % i
            elif ev == [4]:
                gstate = "done"
                if lev != gc:
                    return "op %d: NoMoreClassesToExpandError although the level counter advanced" % i
            elif ev[0] != 1:
                return "op %d: unexpected event %r from do_level" % (i, ev)
        else:
            if ev[0] not in (1, 2):
                return "op %d: unexpected event %r from next" % (i, ev)
        if ev[0] == 1:
            pl = ev[1]
            item = (pl, tuple(ev[2]), ev[3])
            if ign[i]:
                return "op %d: packet %r handed out although its label is in the ignore set" % (i, item)
            if pl in stopped:
                return "op %d: packet %r handed out after its label was told to stop" % (i, item)
            if pl not in added:
                return "op %d: packet %r for a label that was never added" % (i, item)
            if drained:
                return "op %d: packet %r handed out after StopIteration without an add in between" % (i, item)
            if pl not in handed:
                handed[pl] = []
                notinf_before_first[pl] = pl in notinf
            handed[pl].append(item)
            seq = handed[pl]
            full, noinf = _all_work(case, pl, True), _all_work(case, pl, False)
            if seq != full[: len(seq)]:
                if not (seq == noinf[: len(seq)] and notinf_before_first[pl]):
                    return "op %d: label %r received %r, not a prefix of its work %r (order/duplicate)" % (i, pl, seq, full)
            if item[2] == 0 and len(item[1]) != 1:
                return "op %d: non-inferral packet with %d strategies" % (i, len(item[1]))
        else:
            # StopIteration and NoMoreClassesToExpandError claim that the queue is dry
            # (a completed level, [3], does not)
            if ev in ([2], [4]):
                drained = True
                for a in added:
                    if a in stopped:
                        continue
                    seq = handed.get(a, [])
                    full, noinf = _all_work(case, a, True), _all_work(case, a, False)
                    if seq != full and not (seq == noinf and a in notinf):
                        return "op %d: queue exhausted but label %r only received %r of %r" % (i, a, seq, full)
    if len(sizes) != lev:
        return "queue_sizes has %d entries, levels_completed is %d" % (len(sizes), lev)
    if any(s <= 0 for s in sizes):
        return "a completed level of size %r" % (sizes,)
    return None


# ----------------------------------------------------------------- bookkeeping
def nontrivial(case, res):
    out = res.get("out")
    if not isinstance(out, list):
        return False
    pk = [e for e in out[0] if e[0] == 1]
    if len(pk) < 6 or len({e[1] for e in pk}) < 2:
        return False
    adds = [o[1] for o in case["ops"] if o[0] == ADD]
    return (
        any(o[0] in (VERIFIED, STOP) for o in case["ops"])
        or len(adds) > len(set(adds))
        or len(out[1]) >= 1
        or any(e[0] == 2 for e in out[0])
    )


def key(case):
    return str((case["inf"], case["ini"], case["exp"], case["ops"]))


def classify(case, res):
    tags = [
        "inferral=%d" % min(len(case["inf"]), 2),
        "initial=%d" % min(len(case["ini"]), 2),
        "expansion_sets=%d" % len(case["exp"]),
    ]
    if any(len(e) == 0 for e in case["exp"]):
        tags.append("has_empty_expansion_set")
    ids = case["inf"] + case["ini"] + [s for e in case["exp"] for s in e]
    if len(ids) != len(set(ids)):
        tags.append("repeated_strategy_object")
    out = res.get("out")
    if isinstance(out, list):
        evs = out[0]
        kinds = {e[0] for e in evs}
        for k, name in ((1, "packet"), (2, "StopIteration"), (3, "level_complete"), (4, "NoMoreClassesToExpand")):
            if k in kinds:
                tags.append("has_" + name)
        tags.append("levels=%d" % min(len(out[1]), 3))
        # stop mark while work of that label was staged: a packet for the label before and none after
        seen = set()
        for o, e in zip(case["ops"], evs):
            if e[0] == 1:
                seen.add(e[1])
            if o[0] in (VERIFIED, STOP) and o[1] in seen:
                tags.append("stop_after_handout")
                break
        adds = [o[1] for o in case["ops"] if o[0] == ADD]
        if len(adds) > len(set(adds)):
            tags.append("duplicate_add")
    return tags


def shrink(case):
    ops = case["ops"]
    base = {"inf": case["inf"], "ini": case["ini"], "exp": case["exp"]}
    n = len(ops)
    # drop big chunks first, then single operations
    size = n // 2
    while size >= 1:
        for i in range(0, n, size):
            if i + size <= n or size == 1:
                yield dict(base, ops=ops[:i] + ops[i + size:])
        size //= 2
    # smaller pack
    for k in ("inf", "ini"):
        for i in range(len(case[k])):
            yield dict(case, **{k: case[k][:i] + case[k][i + 1:]})
    for j in range(len(case["exp"])):
        yield dict(case, exp=case["exp"][:j] + case["exp"][j + 1:])
        for i in range(len(case["exp"][j])):
            e = case["exp"][j]
            yield dict(case, exp=case["exp"][:j] + [e[:i] + e[i + 1:]] + case["exp"][j + 1:])
    # rename labels to small ones
    labs = sorted({o[1] for o in ops if o[0] < 4})
    ren = {l: i for i, l in enumerate(labs)}
    if any(ren[l] != l for l in labs):
        yield dict(base, ops=[[o[0], ren[o[1]] if o[0] < 4 else 0] for o in ops])


_Q_HEAD = "class DefaultQueue:\n"
# source texts outside the translator's subset / with a changed shape: each must be REJECTED (fail closed)
_BAD_SNIPPETS = [
    ("queue_can_do_inferral", _Q_HEAD + "    def can_do_inferral(self, label):\n"
     "        return bool(self.inferral_strategies) and label not in self._inferral_expanded | self.ignore\n", "set union"),
    ("queue_can_do_inferral", _Q_HEAD + "    def can_do_inferral(self, label):\n"
     "        return len(self.inferral_strategies) > 0\n", "no longer reads _inferral_expanded"),
    ("queue_can_do_initial", _Q_HEAD + "    def can_do_initial(self, label, force=False):\n        return force\n", "changed signature"),
    ("queue_change_level_order", _Q_HEAD + "    def _change_level(self):\n"
     "        self.curr_level[0].extend(label for label, _ in self.next_level.most_common())\n", "unsupported method call"),
    ("queue_change_level_order", _Q_HEAD + "    def _change_level(self):\n"
     "        self.curr_level[0].extend(label for label, _ in sorted(self.next_level.items(), key=lambda x: -x[1], reverse=True))\n",
     "second keyword argument of sorted"),
    ("queue_change_level_order", _Q_HEAD + "    def _change_level(self):\n        if self.next_level:\n"
     "            self.curr_level[0].extend(label for label, _ in sorted(self.next_level.items(), key=lambda x: -x[1]))\n",
     "the extend call is wrapped in a new condition"),
]


def extra_checks(ctx):
    from harness import gen_selftest

    return [gen_selftest.rejects(_BAD_SNIPPETS)] + gen_selftest.checks(GEN_TARGETS, ctx.seed, ID)


# translator tie (DESIGN.md 10.9): what the regenerated definitions add to the level
LEVEL_NOTE += (
    ' can_do_inferral, can_do_initial and the sort expression of _change_level are RE-TRANSLATED from class_queue.py on every run and the model is proved to compute exactly those (C16_can_do_inferral_is_source, C16_can_do_initial_is_source, C16_level_order_is_source; Queue/GenBridge.v); each regenerated definition is evaluated against the source on random arguments every run (harness/gen_selftest.py).'
)

# strengthening of the oracles (CLAUSES.md G.1 item 10)
RULE += (
    ' After every history the real queue is DRAINED (next until StopIteration, outside the compared output): the trace predicates are decided again on the history extended by the drain (so exhaustion-completeness is decided on every history), the drain must end within |added labels| * |work of a label| + 2 calls, and inside a history the k-th consecutive next(queue) with k > |added| * |work of a label| must be StopIteration (drain bound).'
)
