"""C02 — returned specifications are closed, one-rule-per-class, genuine and productive."""
from harness.props.c03 import naive_lfp
from harness.universes import runs
from harness.universes import words_c02  # registers the one-way expansion packs and their start classes

ID = "C02"
TITLE = "returned specifications: closed, one rule per class, genuine, productive"
COQ_PROPS = "Props/C02.v"
COQ_RUN = ("Spec.ExtractorRun", "run_c02")
GEN_TARGETS = []
N = {"quick": 12000, "thorough": 40000}
RULE = (
    "real searches: word universes (18 start classes + 5 with a single non-empty extension x 22 packs incl. symmetries, "
    "inferral, factories with ready and foreign-parent rules, non-atom verification, iterative, one-way unary rules, and "
    "the example's expansion strategy declared one-way x 4 rule databases x expand_verified/smallest x random "
    "proof-tree seeds) and random table universes (integer classes, table-driven strategies, x 4 rule databases x "
    "expand_verified; `smallest` is never set there; 80% of them are made to honour pe_contract with c04.make_strong - "
    "the share meant to instantiate C02_search_find_rule_total, whose table hypotheses the extracted decider evaluates "
    "on every table-universe case - the rest are left as generated). Per search that "
    "announces a specification: (1) for the pruning databases the real SpecificationRuleExtractor runs with recorded "
    "set order and find_path answers and its dictionary is compared with the model; (2) its rules() - every "
    "_find_rule call, on the class database as it is then, over the real stores (dicts of RuleDB / RecomputingDict) - "
    "is compared with the model over the strategy table (word searches are tabulated): form of every rule handed out "
    "(as it is / equivalence form / reverse / equivalence form reversed), strategy, classes, is_equivalence(), the "
    "exception if any, labels allocated; (3) the real CombinatorialSpecification(root, rules) (group_equiv=True, as "
    "get_specification builds it; table universes too: their classes have what the constructor needs) is compared "
    "with the model, every rule being sent with the shifts it DECLARES (list(rule.shifts()); table universes: the "
    "derived forms EquivalenceRule / reverse of it get the original rule's shifts restricted to the surviving child, "
    "because a table strategy reads its shifts by class - see _sent_shifts): exception or rules_dict as a map class "
    "-> (plain / path / lazily added empty rule, children, members of a path with their identity), the set of "
    "labelled classes, rules_dict after _ungroup_equiv_path, whether the hypotheses of the grouping theorems hold "
    "(wf_inputb) and whether every rule has one shift per child (shifts_okb) - both decided by the model and "
    "independently in Python -, the forest keys of the finished object [(class, zip(children, rule.shifts()))] with "
    "an EquivalencePathRule's shifts as the CODE declares them against the model's R1 (sum of the members' shifts; "
    "table universes: the sum on both sides) and the keys R0 of the ungrouped rules; the same for the rules in "
    "reverse order and for the rules with one rule left out; (4) for every "
    "returned rule set and for the dictionary of the specification object the oracle re-decides closedness, "
    "one-rule-per-class, genuineness in the weak sense that re-applying the strategy of the BASE rule of every rule to "
    "its parent gives the same CHILDREN (constructor, parameters, reverse index are not compared), that a derived "
    "rule of a word universe declares the shifts of the rule(s) it stands for, productivity (naive Kleene iteration "
    "over (parent, children, shifts)) on the ungrouped rules, on the object's declared keys, on R1 and on R0 with "
    "equal verdicts (R1 vs R0 is C02_grouping_preserves_productivity), that every rule handed in is kept or a member "
    "of a path, that path "
    "rules are consistent chains, that ungrouping gives the rules back, that the order of the rules does not matter "
    "and that no empty rule is made up for a non-empty class; the model's table-method verdict on the same keys is "
    "compared with the real TableMethod. Non-trivial: a specification with >= 3 rules was returned; distinct = "
    "distinct case."
)
TRUSTED = [
    "modelled, not verified: specification_extrator.py SpecificationRuleExtractor (_populate_decompositions, "
    "_populate_equivalences, _no_lhs_labels, _check: Spec/Extractor.v; _find_rule, rules: Spec/FindRule.v over the "
    "strategy table of Searcher/Model.v and the stores of RuleDB/Model.v) and specification.py "
    "CombinatorialSpecification.__init__ (rules_dict, _group_equiv_in_path, _ungroup_equiv_path, _is_valid_spec, "
    "get_rule, _set_subrules, _enforce_labels: Spec/Grouping.v, with the asserts of EquivalencePathRule.__init__) - "
    "tied by this correspondence; equivdb.find_path and the set iteration order are replayed from the real run "
    "(theorems quantify over all of them)",
    "the tabulation of word searches as strategy tables (harness/universes/words_c14.py Tabulator) and the conversion of "
    "rule objects into (class, children, is_equivalence) records: a rule object's is_equivalence() is read off the "
    "real object, not re-derived",
    "genuineness of the rule OBJECTS is NOT proved; it is checked per instance: the Python oracle re-applies "
    "the strategy of the base rule of every rule handed out and compares the children, the declared shifts, the constructor "
    "type and its parameter maps (_same_rule), and requires every derived form to be what its arguments say (_derived_consistent: "
    "a ReverseRule is the reverse of its original rule w.r.t. its idx; an EquivalenceRule keeps the ONE non-empty child of its "
    "original rule at child_idx; the members of a path chain) - not that the strategy belongs to the pack; one-rule-per-class of the "
    "returned list is decided per instance by the oracle; C02_rules_from_table is the theorem at the level of the "
    "strategy table",
    "table universes: the declared shifts of derived rule forms (EquivalenceRule, reverse of an EquivalenceRule, "
    "EquivalencePathRule) are SUBSTITUTED by the harness (original rule's shifts restricted to the surviving child / "
    "sum over the members), because a table strategy reads shifts by class whereas the library's strategy families "
    "compute them from the children they are handed; the code's own shifts() of derived forms is therefore judged "
    "on word universes only, where every equivalence rule has shift 0",
]
ASSUMPTIONS = [
    "productivity of specifications found by the pruning databases is decided per returned specification, not proved "
    "for all universes. The deciding procedure is the PROVED one: run_spec computes with the table-method model "
    "(Forest/Model.v run with the fuel proved sufficient, then is_pumping; C02_object_root_pumps_decided: verdict = true "
    "<-> pumps) whether the root and every class with a key pump w.r.t. R1 of the finished object and w.r.t. R0 of the "
    "ungrouped rules (fields 9-11), and where a productive rule set is owed (word universes, forest databases) the "
    "comparison REQUIRES these bits to be 1 (R0: under wf and one-shift-per-child); the Python naive_lfp stays as the "
    "independent oracle on the same key lists (and is what the bits are compared with where nothing is owed); "
    "C02_productive_decided remains the meaning of the run_pumps bits on `speckeys`, which are compared with the real "
    "TableMethod only; C02_grouping_preserves_productivity / "
    "C02_object_keys_pump_iff carry the verdict between the rules handed out and the grouped specification object, a "
    "path rule being counted with the SUM of its members' shifts; that this sum is what EquivalencePathRule.shifts() "
    "declares (it asks the first member's strategy for (first class, last children)) is not a theorem: it is "
    "compared on every real specification object (word universes: 0 = 0, the library's strategy families give every "
    "equivalence rule shift 0; table universes: substituted, see the trusted base); premises wf_input and "
    "one-shift-per-child are decided per instance (the count of instances is in extra_checks)",
    "the grouping theorems assume wf_input (closed, one rule per class, equivalence rules unary with a rule for their "
    "child, chains of hidden classes end, every class reachable from the root, the root has a rule or is empty); the "
    "check decides it on every real rule set (6000+ per quick run): it holds for every word search (the finding "
    "oneway-equivalence-with-empty-sibling, on which it failed, is FIXED in /repo by 398db71), and fails in table "
    "universes only for cycles of hidden classes (unary rules with positive shifts, which the table universes' "
    "arbitrary shifts allow and no DisjointUnion strategy has)",
    "C02_find_rule_total assumes an abstract history (add_hist) and the contracts: truthful emptiness cache, strategies "
    "stored as equivalences can be equivalences, two-way entries are reversible, and - for the reversed / equivalence "
    "forms - that the class the entry ends in is not empty; C02_search_find_rule_total discharges the first three for "
    "runs of the searcher model (C04 composition) from hypotheses on the table (contracts of Searcher/Contracts.v, "
    "sym_unary, twoway_faithful, cap/reversible of two-way entries). These table hypotheses are DECIDED on every "
    "table-universe case whose rules() is compared: the extracted run_c02 evaluates find_rule_hyps_b (Searcher/Deciders.v, "
    "sound by find_rule_hyps_sound; C02_search_find_rule_total_decided restates the theorem over it) on the table of the "
    "case, the plugin computes the same bits with c04.py's predicates and the two are part of the compared output. The "
    "theorem covers a case only where the verdict is true: 93-96% of the table-universe RuleDB searches compared (quick "
    "tier, seeds 0-2; 80% of the table universes are made contract-honouring by the generator with c04.make_strong, of "
    "the untouched ones about a quarter break pe_contract and are NOT covered - they exercise robustness only; "
    "extra_checks fails below 85%); NOT covered at all: searches with RuleDBForgetStrategy (the theorem is about the "
    "dict stores) and word universes (hypotheses not evaluated: no check runs the searcher model on a tabulated word "
    "search, so the theorem reaches a word search only modulo the trusted Tabulator anyway); packets_in is not "
    "evaluated here (C02 records no packets; a theorem of the queue model, evaluated on real packets by C04/C14/C17); "
    "sym_contract, sym_unary, items_plain, cap, reversible hold by construction of harness/universes/table.py and a "
    "false verdict on one of them is an oracle failure; RuleDBForgetStrategy additionally needs a pack strategy that "
    "reproduces the rule on a class of the key (C14; refuted otherwise: C02_find_rule_forget_foreign_parent_refuted)",
    "C02_enforce_labels_partial: termination of _enforce_labels within the model's fuel is not proved",
]


HONOUR_FRACTION = 0.8
# minimum share of the table-universe RuleDB searches whose rules() is compared on which the extracted decider must
# say that the hypotheses of C02_search_find_rule_total hold (measured 93-96% on seeds 0-2; see extra_checks)
MIN_COVERED = 0.85


def gen(rng, tier):
    n_std = len(runs.W.START_SPECS) - len(words_c02.STARTS)
    while True:
        case = runs.gen_case(rng, table_fraction=0.55)
        if case["kind"] == "table" and rng.random() < HONOUR_FRACTION:
            # the share of table universes meant to instantiate C02_search_find_rule_total: entries breaking
            # pe_contract (a possibly_empty=False strategy with an empty child on an empty class, about a quarter of
            # harness/universes/table.py's universes) are removed (c04.make_strong); the rest stay as they are and
            # exercise robustness.  Whether the hypotheses hold is DECIDED per case by the extracted decider (out[6]).
            from harness.props import c04

            c04.make_strong(case["universe"])
        if case["kind"] == "word":
            # the packs and start classes registered by words_c02 are drawn by the dedicated branch below only
            while case["pack"] in words_c02.PACK_NAMES:
                case = dict(runs.W.random_cfg(rng), kind="word")
            if case["start"] >= n_std:
                case["start"] = rng.randrange(n_std)
            if rng.random() < 0.04:
                case["pack"] = rng.choice(words_c02.PACK_NAMES)
                case["smallest"] = False
                if rng.random() < 0.7:
                    case["start"] = rng.choice(words_c02.start_indices())
        yield case


def _labels(classes):
    """dense labels for the classes of a rule list, in order of first appearance"""
    lab = {}
    for c in classes:
        lab.setdefault(c, len(lab))
    return lab


def _key_rules(r):
    """the decomposition rules whose (parent, children, shifts) the productivity analysis sees:
    an equivalence rule stands for its original rule (all children, the empty ones become
    verified leaves), an equivalence path for each of its steps.
    (This SUBSTITUTES the rules a derived form stands for and so never looks at the shifts the derived form
    declares itself; those are judged separately: _sent_shifts / _object_productivity, on the keys of the
    specification object as it is.)"""
    from comb_spec_searcher.strategies.rule import EquivalencePathRule, EquivalenceRule

    if isinstance(r, EquivalencePathRule):
        for x in r.rules:
            yield from _key_rules(x)
    elif isinstance(r, EquivalenceRule) and (hasattr(r.strategy, "sid") or len(r.shifts()) != len(r.children)):
        # EquivalenceRule.shifts() asks the STRATEGY for the shifts of (parent, the one non-empty
        # child) — a pair the strategy may never have produced (equivalence form of a reverse rule).
        # The library's own strategy families answer 0 there; a table strategy (attribute `sid`)
        # reads its table by class and would answer with the shifts of ANOTHER rule of that class
        # (false alarm seen with seed 1: class 0 has its own unary rule with shift -1 and is also the
        # child of a two-way rule with shifts (0, 1)).  Judge the rule it stands for instead.
        yield from _key_rules(r.original_rule)
    else:
        yield r


def _spec_keys(rules):
    krules = [k for r in rules for k in _key_rules(r)]
    classes = []
    for r in krules:
        classes.append(r.comb_class)
        classes.extend(r.children)
    lab = _labels(classes)
    keys = []
    lhs = {r.comb_class for r in krules}
    for r in krules:
        keys.append([lab[r.comb_class], [[lab[c], s] for c, s in zip(r.children, r.shifts())]])
    # empty classes get their rule lazily (CombinatorialSpecification.get_rule adds an
    # EmptyStrategy rule): they count as verified leaves, as in RuleDBForest._add_empty_rule
    done = set()
    for r in krules:
        for c in r.children:
            if c not in lhs and c not in done and c.is_empty():
                done.add(c)
                keys.append([lab[c], []])
    return keys, lab


# ---------------------------------------------------------------- CombinatorialSpecification.__init__
XCODE = {"chain": 1, "patheqv": 2, "pathunary": 3, "empty": 4, "valid": 5, "key": 6, "index": 7}


def _ctor_error_code(e):
    """small int for an exception raised by the constructor; the three places an AssertionError can come
    from inside __init__ are told apart by the function that raised it (evidence only: the comparison with
    the model is made on the coarse class, see _coarse)"""
    import traceback

    tb = traceback.extract_tb(e.__traceback__)
    where = tb[-1].name if tb else ""
    if isinstance(e, AssertionError):
        if where == "get_rule":
            return XCODE["empty"]
        if where == "__init__":            # EquivalencePathRule.__init__
            line = (tb[-1].line or "")
            return XCODE["patheqv"] if "is_equivalence" in line else XCODE["pathunary"]
        if where == "_group_equiv_in_path":
            line = (tb[-1].line or "")
            return XCODE["valid"] if "_is_valid_spec" in line else XCODE["chain"]
        return XCODE["chain"]
    if isinstance(e, KeyError):
        return XCODE["key"]
    if isinstance(e, IndexError):
        return XCODE["index"]
    return 8


def _coarse(code):
    """observable level: fine / AssertionError / KeyError / IndexError / did not finish"""
    if code in (1, 2, 3, 4, 5):
        return 1
    return code


class _Unfinished(Exception):
    pass


def _counting_spec_class(limit):
    """the real CombinatorialSpecification; get_rule additionally counts its calls so that a constructor
    that would loop for ever (a cycle of hidden classes: _group_equiv_in_path asks get_rule in every turn)
    is stopped"""
    from comb_spec_searcher import CombinatorialSpecification

    class CountingSpec(CombinatorialSpecification):
        _calls = 0

        def get_rule(self, comb_class):
            self._calls += 1
            if self._calls > limit:
                raise _Unfinished()
            return super().get_rule(comb_class)

    return CountingSpec


def _is_table(rule):
    """rule of a table universe (harness/universes/table.py): its strategy reads shifts from a table BY CLASS"""
    return hasattr(rule.strategy, "sid")


def _sent_shifts(r):
    """(shifts of a rule as sent to the model and used for the object's forest key, how they were obtained).

    "declared": list(rule.shifts()) - what the code declares (every rule of a word universe, of whatever kind:
    Rule, VerificationRule, ReverseRule, EquivalenceRule, EquivalencePathRule; and the plain / reverse /
    verification rules of table universes).

    SUBSTITUTED, table universes only (strategy objects with attribute `sid`): the derived forms
    EquivalenceRule, ReverseRule of an EquivalenceRule and EquivalencePathRule do not override shifts(); it is
    AbstractRule.shifts = strategy.shifts(comb_class, children) for a (class, children) pair the strategy
    never produced.  The library's strategy families compute shifts from the children they are given
    (DisjointUnionStrategy: 0 per child), a table strategy reads its table by CLASS and answers with the
    shifts of the original rule of that class (all its children), of another rule of the class, or raises.
    There the original rule's shifts restricted to the surviving child are sent ("table-equivalence"), the
    ReverseRule formula applied to those ("table-reverse-of-equivalence"), and for a path the sum of its
    members' ("table-path") - an artefact of the table universes, not of the code.  ("table-reverse-of-equivalence"
    has not been observed in the quick tier: the pruning extractor reverses unary table rules directly.)

    Who reads shifts() of a derived form in the library: only forest_key() - RuleDBForest.add on the rules
    expand_comb_class seeds (EquivalenceRule, reverse of it; an EquivalencePathRule is ungrouped first) and
    ForestRuleExtractor.rules(cache).  get_terms / generation never read it (a path rule counts with its own
    DisjointUnion constructor).  A wrong declared shift could therefore change a forest productivity verdict
    during expand_verified, never a count; EquivalencePathRule.shifts() itself is read by nothing in the
    library."""
    from comb_spec_searcher.strategies.rule import EquivalencePathRule, EquivalenceRule, ReverseRule

    if _is_table(r):
        if isinstance(r, EquivalencePathRule):
            return [sum((_sent_shifts(m)[0] or [0])[0] for m in r.rules)], "table-path"
        if isinstance(r, EquivalenceRule):
            osh = _sent_shifts(r.original_rule)[0]
            return [osh[r.child_idx]], "table-equivalence"
        if isinstance(r, ReverseRule) and isinstance(r.original_rule, EquivalenceRule):
            osh = _sent_shifts(r.original_rule)[0]
            pshift = -osh[r.idx]
            return [pshift] + [s + pshift for i, s in enumerate(osh) if i != r.idx], "table-reverse-of-equivalence"
    return list(r.shifts()), "declared"


def _stands_for_shifts(r):
    """the shifts a derived rule SHOULD declare, computed from the rule(s) it stands for (None: not derived):
    EquivalenceRule: the original rule's shift of the surviving child; EquivalencePathRule: the sum of its
    members' shifts (what C02_grouping_preserves_productivity counts it with)"""
    from comb_spec_searcher.strategies.rule import EquivalencePathRule, EquivalenceRule

    if isinstance(r, EquivalencePathRule):
        tot = 0
        for m in r.rules:
            sh = _sent_shifts(m)[0]
            if len(sh) != 1:
                return None
            tot += sh[0]
        return [tot]
    if isinstance(r, EquivalenceRule):
        osh = _sent_shifts(r.original_rule)[0]
        if r.child_idx >= len(osh):
            return None
        return [osh[r.child_idx]]
    return None


def _raw_shifts(r):
    try:
        return list(r.shifts())
    except Exception as e:  # pylint: disable=broad-except
        return type(e).__name__


def _rule_entry(lab, tags, cls_, rule):
    from comb_spec_searcher.strategies.rule import EquivalencePathRule, VerificationRule
    from comb_spec_searcher.strategies.strategy import EmptyStrategy

    kids = [lab[c] for c in rule.children]
    if isinstance(rule, EquivalencePathRule):
        mem = [[lab[r.comb_class], tags.get(id(r), -2), [lab[c] for c in r.children]] for r in rule.rules]
        return [lab[cls_], 1, mem[0][1], kids, mem]
    t = tags.get(id(rule))
    if t is None:
        lazily = isinstance(rule, VerificationRule) and isinstance(rule.strategy, EmptyStrategy) and not rule.children
        return [lab[cls_], 2 if lazily else 0, -1 if lazily else -2, kids, []]
    return [lab[cls_], 0, t, kids, []]


def _spec_observation(root, rules, lab=None, owed=False):
    """(model input, what the real constructor did) for CombinatorialSpecification(root, rules);
    lab: class -> number, shared between the observations of one case (extended here)"""
    from comb_spec_searcher.strategies.rule import EquivalencePathRule

    classes = [root]
    for r in rules:
        for m in (r.rules if isinstance(r, EquivalencePathRule) else [r]):
            classes.append(m.comb_class)
            classes.extend(m.children)
    if lab is None:
        lab = {}
    for c in classes:
        lab.setdefault(c, len(lab))
    tags = {}
    enc_rules = []

    unconverted = {"oneway": 0, "twoway": 0}
    sent_how = {}
    disagree = []          # derived rules whose declared shifts are not those of the rule(s) they stand for

    def judge(r):
        """declared shifts of a derived rule against the rule(s) it stands for"""
        want = _stands_for_shifts(r)
        if want is None:
            return
        raw = _raw_shifts(r)
        if raw != want:
            disagree.append([type(r).__name__, lab.get(r.comb_class, -1), raw, want, int(_is_table(r))])

    def enc(r, tag):
        tags[id(r)] = tag
        eqv = bool(r.is_equivalence())
        if eqv and len(r.children) != 1:
            try:
                unconverted["twoway" if r.is_two_way() else "oneway"] += 1
            except Exception:  # pylint: disable=broad-except
                unconverted["twoway"] += 1
        sh, how = _sent_shifts(r)
        sent_how[how] = sent_how.get(how, 0) + 1
        judge(r)
        return [lab[r.comb_class], [lab[c] for c in r.children], int(eqv), [int(x) for x in sh], tag]

    for i, r in enumerate(rules):
        if isinstance(r, EquivalencePathRule):
            mem = [enc(m, 1000 * (i + 1) + j) for j, m in enumerate(r.rules)]
            tags[id(r)] = i
            enc_rules.append(mem[0] + [mem])
        else:
            enc_rules.append(enc(r, i) + [[]])
    empties = sorted(lab[c] for c in lab if c.is_empty())
    spec_in = [lab[root], 1, empties, enc_rules]
    # equivalence rules with several children that were handed out unconverted: the finding (fixed by 398db71)
    # concerned the ONE-WAY ones only (they come from rule_to_strategy); a two-way one is a defect of another kind
    nonunary = unconverted["oneway"] if not unconverted["twoway"] else 0
    info_unconverted = dict(unconverted)
    wf = int(_wf_input(lab[root], set(empties), enc_rules))
    d0 = _ungrouped(enc_rules)
    sok = int(all(len(r[3]) == len(r[1]) for r in d0.values()))
    nkids = sum(1 + len(x[1]) for x in enc_rules) + sum(len(x[5]) * 3 for x in enc_rules)
    limit = 40 * (nkids + 4) * (len(lab) + 4)
    cls = _counting_spec_class(limit)
    info = {"wf": wf, "shifts_ok": sok, "nonunary": nonunary, "unconverted": info_unconverted,
            "shifts_sent": sent_how, "shift_disagreements": disagree}
    try:
        spec = cls(root, rules)
    except _Unfinished:
        info["ctor"] = "unfinished"
        return spec_in, [9, [], [], [], wf, sok, [], [], 1, [], [], []], info
    except (AssertionError, KeyError, IndexError) as e:
        code = _ctor_error_code(e)
        info["ctor"] = "%s(%d)" % (type(e).__name__, code)
        return spec_in, [_coarse(code), [], [], [], wf, sok, [], [], 1, [], [], []], info
    for c in spec.rules_dict:
        lab.setdefault(c, len(lab))
    entries = sorted(_rule_entry(lab, tags, c, r) for c, r in spec.rules_dict.items())
    order = sorted(spec._class_to_label, key=spec._class_to_label.get)  # pylint: disable=protected-access
    labels = sorted(lab[c] for c in order)
    info["label_order"] = [lab[c] for c in order]
    # _ungroup_equiv_path on the specification just built (a second object: it edits rules_dict)
    spec2 = cls(root, rules)
    spec2._ungroup_equiv_path()  # pylint: disable=protected-access
    ung = sorted(_rule_entry(lab, tags, c, r) for c, r in spec2.rules_dict.items())
    info["ctor"] = "ok"
    info["problems"] = _spec_problems(lab[root], set(empties), enc_rules, entries)
    info["roundtrip"] = _roundtrip_problems(set(empties), enc_rules, ung)
    info["entries"] = entries
    # ---- forest keys of the object as it is: (class, zip(children, rule.shifts())) for every rule of rules_dict,
    #      an EquivalencePathRule with the shifts IT declares (table universes: see _sent_shifts); next to it the
    #      same keys with a path counted with the SUM of its members' shifts (the model's R1), and the keys of the
    #      ungrouped rules + lazily added empty rules (the model's R0)
    r1_code, r1_sum = [], []
    path_sums = []
    for c, r in spec.rules_dict.items():
        kids = [lab[x] for x in r.children]
        sh, how = _sent_shifts(r)
        r1_code.append([lab[c], [[k, int(x)] for k, x in zip(kids, sh)]])
        if isinstance(r, EquivalencePathRule):
            judge(r)
            tot = sum((_sent_shifts(m)[0] or [0])[0] for m in r.rules)
            path_sums.append(int(tot))
            r1_sum.append([lab[c], [[kids[0], int(tot)]] if len(kids) == 1 else []])
            if _is_table(r) and _raw_shifts(r) != [tot]:
                info["table_path_raw_differs"] = info.get("table_path_raw_differs", 0) + 1
        else:
            r1_sum.append(r1_code[-1])
    r0 = [[c, [[k, x] for k, x in zip(r[1], r[3])]] for c, r in d0.items()]
    r0 += [k for k in r1_sum if k[0] not in d0]
    info["r1_code"] = sorted(r1_code)
    info["r1_sum"] = sorted(r1_sum)
    info["r0"] = sorted(r0)
    info["path_sums"] = path_sums
    # productivity of what the object holds: an equivalence path counts with each of its steps
    try:
        keys, _ = _spec_keys(list(spec.rules_dict.values()))
        info["final_keys"] = keys
    except Exception:  # pylint: disable=broad-except
        info["final_keys"] = None     # table strategies cannot answer for derived forms (see _key_rules)
    info["npaths"] = sum(1 for e in entries if e[1] == 1)
    info["nlazy"] = sum(1 for e in entries if e[1] == 2)
    info["longest_path"] = max([len(e[4]) for e in entries] or [0])
    info["root_ok"] = spec.root == root and root in spec.rules_dict
    # ---- fields 9..11: the productivity verdicts.  The MODEL computes them with the proved table-method model
    #      (Spec/GroupingPumps.v pumpsb; C02_object_root_pumps_decided) on ITS R1 / R0 (fields 6, 7, compared above).
    #      Where a productive rule set is owed (`owed`: word universes and forest databases, not the run with a rule
    #      left out) this side states the REQUIREMENT - every bit 1 - so that a 0 of the proved procedure fails the
    #      check; elsewhere (and always in info["lfp_*"], for the oracle) the independent Python Kleene iteration.
    #      The R0 bits are required only under the premises of C02_grouping_preserves_productivity (wf, shifts_ok).
    rl = lab[root]
    p1, p0 = _pumping(sorted(r1_code)), _pumping(sorted(r0))
    lfp1 = sorted([k[0], int(k[0] in p1)] for k in r1_code)
    lfp0 = sorted([k[0], int(k[0] in p0)] for k in r0)
    lfp_root = [int(rl in p1), int(rl in p0)]
    info["lfp_R1"], info["lfp_R0"], info["lfp_root"], info["owed"] = lfp1, lfp0, lfp_root, bool(owed)
    owed0 = owed and wf and sok
    v_root = [1 if owed else lfp_root[0], 1 if owed0 else lfp_root[1]]
    v1 = [[c, 1] for c, _ in lfp1] if owed else lfp1
    v0 = [[c, 1] for c, _ in lfp0] if owed0 else lfp0
    return spec_in, [0, entries, labels, ung, wf, sok, sorted(r1_code), sorted(r0), 1, v_root, v1, v0], info


def _ungrouped(enc_rules):
    """rules_dict = {rule.comb_class: rule ...} followed by _ungroup_equiv_path, on the encoded rules"""
    d = {}
    for r in enc_rules:
        d[r[0]] = r
    new = {}
    for r in list(d.values()):
        for m in r[5]:
            new[m[0]] = m + [[]]
    d.update(new)
    return d


def _spec_problems(root, empties, enc_rules, entries):
    """the PROPERTY on the dictionary the real constructor left, decided on the canonical data only:
    the root has a rule, every child has a rule or is empty, a path rule is a consistent chain of its members
    whose class / children are those of its ends, and every rule handed in is still there - as it was, or as
    a member of a path"""
    d = {e[0]: e for e in entries}
    out = []
    if len(d) != len(entries):
        out.append("two entries for one class")
    if root not in d:
        out.append("the root has no rule")
    members = {}
    for e in entries:
        cls_, kind, _tag, kids, mem = e
        for k in kids:
            if k not in d and k not in empties:
                out.append("child %d of class %d has no rule and is not empty" % (k, cls_))
        if kind == 1:
            if not mem:
                out.append("path rule of class %d without members" % cls_)
                continue
            if mem[0][0] != cls_ or mem[-1][2] != kids:
                out.append("path rule of class %d: class/children are not those of its first/last member" % cls_)
            for a, b in zip(mem, mem[1:]):
                if a[2] != [b[0]]:
                    out.append("path rule of class %d: members do not form a chain" % cls_)
            for m in mem:
                members.setdefault(m[0], set()).add(tuple(m[2]))
        elif kind == 2 and cls_ not in empties:
            out.append("lazily added empty rule for the non-empty class %d" % cls_)
    given = {}
    for r in enc_rules:
        for m in (r[5] if r[5] else [r]):
            given[m[0]] = tuple(m[1])             # later rules win, as in the dict comprehension
    for c, kids in given.items():
        kept = c in d and d[c][1] != 1 and tuple(d[c][3]) == kids
        if not kept and kids not in members.get(c, ()):
            out.append("the rule of class %d -> %r is neither kept nor a member of a path" % (c, list(kids)))
    return out[:3]


def _roundtrip_problems(empties, enc_rules, ung):
    """grouping, then _ungroup_equiv_path: every rule handed in has to be the rule of its class again"""
    d = {e[0]: e for e in ung}
    out = []
    given = {}
    for r in enc_rules:
        for m in (r[5] if r[5] else [r]):
            given[m[0]] = (tuple(m[1]), m[4])
    for c, (kids, tag) in given.items():
        e = d.get(c)
        if e is None or e[1] == 1 and e[4][0][2] != list(kids) or e[1] != 1 and (tuple(e[3]) != kids or e[2] != tag):
            # (a path rule stays in the dictionary under the class of its first member only if that member
            #  was not written back over it: then its first member has to be the rule)
            out.append("after _ungroup_equiv_path class %d does not have its rule -> %r again" % (c, list(kids)))
    for e in ung:
        if e[0] not in given and not (e[1] == 2 and e[0] in empties):
            out.append("after _ungroup_equiv_path class %d has a rule that was never handed in" % e[0])
    return out[:3]


def _wf_input(root, empties, enc_rules):
    """the hypotheses of the C02 grouping theorems (Spec/GroupingWf.v wf_input), decided here independently
    of the model on the rule set as _ungroup_equiv_path leaves it: equivalence rules are unary and their
    child has a rule; every child has a rule or is empty; following equivalence rules from a hidden class
    ends at a class that is not hidden; every class with a rule is reachable from the root"""
    d = {}
    for r in enc_rules:                       # rules_dict = {rule.comb_class: rule ...}
        d[r[0]] = r
    new = {}
    for r in list(d.values()):                # _ungroup_equiv_path
        for m in r[5]:
            new[m[0]] = m + [[]]
    d.update(new)
    not_hidden = {root}
    for r in d.values():
        if not r[2]:
            not_hidden.add(r[0])
            not_hidden.update(r[1])
    for c, r in d.items():
        if r[0] != c:
            return False
        if r[2] and (len(r[1]) != 1 or r[1][0] not in d):
            return False
        for k in r[1]:
            if k not in d and k not in empties:
                return False
    for r in d.values():
        if r[2]:
            x, steps = r[1][0], 0
            while x not in not_hidden:
                if steps >= len(d) or x not in d or len(d[x][1]) != 1:
                    return False
                x = d[x][1][0]
                steps += 1
    if root not in d and root not in empties:
        return False
    seen, todo = {root}, [root]
    while todo:
        x = todo.pop()
        for k in (d[x][1] if x in d else []):
            if k not in seen:
                seen.add(k)
                todo.append(k)
    return all(c in seen for c in d)


# ---------------------------------------------------------------- SpecificationRuleExtractor._find_rule / rules()
def _convert_flag():
    """does rules() hand out unconverted equivalence rules in their equivalence form (the repair of
    findings/oneway_equivalence_with_empty_sibling.patch.diff, applied to /repo as 398db71)?  Read off the source, or forced by the environment."""
    import inspect
    import os

    from comb_spec_searcher.specification_extrator import SpecificationRuleExtractor

    env = os.environ.get("VERIF_C02_CONVERT")
    if env is not None:
        return int(env == "1")
    try:
        return int("to_equivalence_rule" in inspect.getsource(SpecificationRuleExtractor.rules))
    except (OSError, TypeError):
        return 0


class _TableIds:
    """classes and strategies of a table universe carry their ids"""

    def __init__(self, case):
        self.u = case["universe"]

    def cls(self, c):
        return c.n

    def sid(self, strat):
        return getattr(strat, "sid", -1)

    def table(self, labelled):
        from harness.props.c14 import _enc_strats, _pack_order

        return list(self.u["empty"]), _enc_strats(self.u["strats"], True), _pack_order(self.u["pack"])


class _WordIds:
    """a word search is tabulated (harness/universes/words_c14.py Tabulator, here with the strategies' own
    is_reversible answers)"""

    def __init__(self, css):
        from harness.universes import words_c14 as WC

        class Tab(WC.Tabulator):
            def _entry(self, strat, c):
                e = super()._entry(strat, c)
                if e is not None:
                    try:
                        e["reversible"] = int(bool(strat.is_reversible(c)))
                    except Exception:  # pylint: disable=broad-except
                        e["reversible"] = 0
                return e

        self.tab = Tab(css.strategy_pack)

    def cls(self, c):
        return self.tab.cls(c)

    def sid(self, strat):
        return self.tab.sid(strat)

    def table(self, labelled):
        from harness.props.c14 import _enc_strats

        t = self.tab.table(labelled)
        return list(t["empty"]), _enc_strats(t["strats"], False), list(t["pack_order"])


FERR = {"ValueError": 1, "RuntimeError": 2, "KeyError": 3, "IndexError": 3, "StrategyDoesNotApply": 4,
        "AssertionError": 5}


def _form_of(ids, rule):
    from comb_spec_searcher.strategies.rule import EquivalenceRule, ReverseRule

    kind, base = 0, rule
    if isinstance(rule, EquivalenceRule):
        if isinstance(rule.original_rule, ReverseRule):
            kind, base = 3, rule.original_rule.original_rule
        else:
            kind, base = 1, rule.original_rule
    elif isinstance(rule, ReverseRule):
        kind, base = 2, rule.original_rule
    try:
        eqv = int(bool(rule.is_equivalence()))
    except Exception:  # pylint: disable=broad-except
        eqv = -1
    return [kind, ids.sid(rule.strategy), ids.cls(base.comb_class), ids.cls(rule.comb_class),
            [ids.cls(c) for c in rule.children], eqv]


def _forget_scans_all():
    """does RecomputingDict.__getitem__ go on to the other labelled classes when the classes of the key do not
    give the rule back (fix 59cdf67)?  The model has both behaviours (RuleDB/Model.v rec_getitem_x)."""
    import inspect

    from comb_spec_searcher.rule_db.forget import RecomputingDict

    return "other_labels" in inspect.getsource(RecomputingDict.__getitem__)


def _findrule_observation(case, res):
    """(model input, what the real rules() did) for the pruning databases' extractor"""
    from comb_spec_searcher.strategies.strategy import Strategy

    ex = res.get("find_rule")
    if ex is None or not hasattr(ex, "cdb_before"):
        return [], [-1, [], 0], None
    css = res["css"]
    cdb = css.classdb
    ids = _TableIds(case) if case["kind"] == "table" else _WordIds(css)
    n0, cache0 = ex.cdb_before
    forget = case["ruledb"] == "forget"
    ruledb = css.ruledb
    if forget:
        rs = [[k[0], list(k[1]), -2] for k in ruledb.rule_to_strategy]
        es = [[k[0], list(k[1]), -2] for k in ruledb.eqv_rule_to_strategy]
    else:
        rs = [[k[0], list(k[1]), ids.sid(v)] for k, v in ruledb.rule_to_strategy.items()]
        es = [[k[0], list(k[1]), ids.sid(v)] for k, v in ruledb.eqv_rule_to_strategy.items()]
    forms = [_form_of(ids, r) for r in ex.yielded]
    err = 0
    if ex.rules_error is not None:
        err = FERR.get(type(ex.rules_error).__name__, 9)
    nafter = len(cdb.comb_class_list)
    labelled = [cdb.get_class(l) for l in range(nafter)]
    classes = [ids.cls(c) for c in labelled[:n0]]
    empty, strats, order = ids.table(labelled)
    nocap = []
    if case["kind"] == "word":
        for i, st in enumerate(ids.tab.strats):
            if isinstance(st, Strategy) and not st.can_be_equivalent():
                nocap.append(i)
    cache = [-1 if x is None else int(bool(x)) for x in cache0]
    entries = [[p, list(cs)] for p, cs in ex.rules_dict.items()]
    fr_in = [[(2 if _forget_scans_all() else 1) if forget else 0, _convert_flag()], empty, strats, order, classes, cache,
             rs, es, entries, nocap]
    if case["kind"] == "table":
        # 11th element: what the deciders of Searcher/Deciders.v need beyond the table rules() is modelled on
        # (verification strategies, symmetries, the strategies the queue hands out; C02 records no packets)
        from harness.props import hyps

        fr_in.append(hyps.extra_field(case["universe"]))
    info = {"err": err, "nforms": len(forms), "kinds": sorted({f[0] for f in forms}),
            "new_labels": nafter - n0}
    return fr_in, [err, forms, nafter], info


def impl(case):
    res = runs.search(case, build_spec=False)
    css = res["css"]
    out = {"found": res["rules"] is not None, "extract": None, "speckeys": [], "problems": [],
           "is_table": case["kind"] == "table",
           "extraction_error": res.get("error")}
    ext_out = [9, [], 0, 0]
    spec_out = rev_out = cut_out = [-1, [], [], [], 0, 0, [], [], 1, [], [], []]
    if res["extractor"] is not None:
        ex = res["extractor"]
        ruledb = css.ruledb
        nlab = len(css.classdb.comb_class_list)
        stored = [[k[0], list(k[1])] for k in ruledb.rule_to_strategy]
        tree = [[k[0], list(k[1])] for k in ex.eqv_rulekeys]
        reps = [ruledb.equivdb[l] for l in range(nlab)]
        out["extract"] = [css.start_label, stored, tree, ex.order, reps, ex.paths]
        d = [[p, list(cs)] for p, cs in ex.rules_dict.items()]
        # the model inserts in its own order: compare as sorted lists
        ext_out = [0, sorted(d), 1, 1]
        # edges recorded in the equivalence database, for the oracle
        out["edges"] = sorted(
            {(a, b) for a, bs in ruledb.equivdb.vertices.items() for b in bs}
        )
    pumps_out = []
    if res["rules"] is not None:
        rules = res["rules"]
        try:
            keys, lab = _spec_keys(rules)
        except Exception:  # pylint: disable=broad-except
            # table strategies read shifts from their own table and cannot answer for the
            # derived forms (equivalence of a reverse rule); no productivity verdict then
            if case["kind"] != "table":
                raise
            keys, lab = [], {}
            out["keys_error"] = True
        out["speckeys"] = keys
        from comb_spec_searcher.rule_db.forest import TableMethod
        from comb_spec_searcher.typing import ForestRuleKey, RuleBucket

        tm = TableMethod()
        for p, kids in keys:
            tm.add_rule_key(ForestRuleKey(p, tuple(c for c, _ in kids), tuple(s for _, s in kids), RuleBucket.NORMAL))
        pumps_out = [int(tm.is_pumping(p)) for p, _ in keys]
        # ---- facts for the oracle, gathered from the real objects
        lhs = [r.comb_class for r in rules]
        out["dup_lhs"] = len(set(lhs)) != len(lhs)
        missing = []
        for r in rules:
            for c in r.children:
                if c not in lhs and not c.is_empty():
                    missing.append(str(c))
        out["missing_rule_for"] = missing
        out["root_has_rule"] = css.start_class in lhs or css.start_class.is_empty()
        notgen = []
        for r in rules:
            for b in _base_rules(r):
                try:
                    again = b.strategy(b.comb_class)
                    if tuple(again.children) != tuple(b.children):
                        notgen.append("%s on %s" % (b.strategy, b.comb_class))
                    else:
                        notgen.extend(_same_rule(b, again))
                except Exception as e:  # pylint: disable=broad-except
                    notgen.append("%s on %s raised %s" % (b.strategy, b.comb_class, type(e).__name__))
            notgen.extend(_derived_consistent(r))
        out["not_genuine"] = notgen
        if res["spec"] is not None:
            spec = res["spec"]
            out["spec_root_ok"] = spec.root == css.start_class
        lab = {}
        owed = case["kind"] == "word" or case["ruledb"].startswith("forest")
        spec_in, spec_out, info = _spec_observation(css.start_class, rules, lab, owed)
        out["spec_in"] = spec_in
        out["spec_info"] = info
        # the same rules in reverse order: the result may not depend on the order
        rev_in, rev_out, rev_info = _spec_observation(css.start_class, list(reversed(rules)), lab, owed)
        out["rev_in"] = rev_in
        out["rev_info"] = rev_info
        out["rev_same"] = (rev_out[0], _untagged(rev_out[1]), rev_out[2]) == (spec_out[0], _untagged(spec_out[1]), spec_out[2])
        # one rule left out (which one: decided by the case): a rule set that is not closed
        if len(rules) >= 2:
            k = int(case.get("tree_seed", 0)) % len(rules)
            cut_in, cut_out, cut_info = _spec_observation(css.start_class, rules[:k] + rules[k + 1:], lab)
            out["cut_in"] = cut_in
            out["cut_info"] = cut_info
    fr_in, fr_out, fr_info = _findrule_observation(case, res)
    out["fr_in"] = fr_in
    out["fr_info"] = fr_info
    # the table hypotheses of C02_search_find_rule_total decided in Python (predicates of c04.py) - compared by the
    # core with what the extracted decider prints for the same table (run_c02 output field 6)
    hyp_out = []
    if fr_in and case["kind"] == "table":
        from harness.props import hyps

        hyp_out = hyps.bits(case["universe"], [], fr_in[9])
    out["hyp"] = hyp_out
    out["out"] = [ext_out, pumps_out, fr_out, spec_out, rev_out, cut_out, hyp_out]
    out["nrules"] = len(res["rules"]) if res["rules"] is not None else 0
    return out


def _ctor_facts(rule):
    """type and parameter maps of the constructor; None where the library has none (NotImplementedError)"""
    try:
        c = rule.constructor
    except NotImplementedError:
        return None
    ep = getattr(c, "extra_parameters", None)
    return [type(c).__name__, repr(ep) if ep is not None else None]


def _same_rule(b, again):
    """the rule handed out and the rule its strategy produces when re-applied agree in MORE than their children:
    declared shifts, constructor type, parameter maps (CLAUSES C02 (c)3)"""
    out = []
    try:
        if tuple(again.shifts()) != tuple(b.shifts()):
            out.append("%s on %s: declared shifts %r, re-applied %r" % (b.strategy, b.comb_class, b.shifts(), again.shifts()))
    except Exception:  # pylint: disable=broad-except
        pass        # table strategies cannot answer for every (class, children) pair
    try:
        fb, fa = _ctor_facts(b), _ctor_facts(again)
    except Exception:  # pylint: disable=broad-except
        return out
    if fb != fa:
        out.append("%s on %s: constructor %r, re-applied %r" % (b.strategy, b.comb_class, fb, fa))
    return out


def _derived_consistent(r):
    """the derived forms are what their constructor arguments say: a ReverseRule counts child idx of its original rule
    from the parent and the other children; an EquivalenceRule keeps the ONE non-empty child of its original rule, at
    child_idx; the members of an EquivalencePathRule chain from the path's class to the class its child belongs to"""
    from comb_spec_searcher.strategies.rule import EquivalencePathRule, EquivalenceRule, ReverseRule

    out = []
    if isinstance(r, EquivalencePathRule):
        rs = list(r.rules)
        if not rs or rs[0].comb_class != r.comb_class or tuple(rs[-1].children) != tuple(r.children):
            out.append("path rule on %s does not start at its class / end at its child" % (r.comb_class,))
        for a, b in zip(rs, rs[1:]):
            if len(a.children) != 1 or a.children[0] != b.comb_class:
                out.append("path rule on %s: step %s does not lead to the next step's class" % (r.comb_class, a.comb_class))
        for x in rs:
            out.extend(_derived_consistent(x))
    elif isinstance(r, ReverseRule):
        o = r.original_rule
        ok = (0 <= r.idx < len(o.children) and r.comb_class == o.children[r.idx]
              and tuple(r.children) == (o.comb_class,) + tuple(o.children[:r.idx]) + tuple(o.children[r.idx + 1:])
              and r.strategy == o.strategy)
        if not ok:
            out.append("reverse rule on %s is not the reverse of its original rule w.r.t. child %r" % (r.comb_class, r.idx))
        out.extend(_derived_consistent(o))
    elif isinstance(r, EquivalenceRule):
        o = r.original_rule
        ne = [c for c in o.children if not c.is_empty()]
        ok = (len(ne) == 1 and tuple(r.children) == (ne[0],) and r.comb_class == o.comb_class
              and 0 <= r.child_idx < len(o.children) and o.children[r.child_idx] == ne[0]
              and tuple(r.actual_children) == tuple(o.children) and r.strategy == o.strategy)
        if not ok:
            out.append("equivalence rule on %s does not keep the one non-empty child of its original rule (non-empty: %d, "
                       "child_idx %r)" % (r.comb_class, len(ne), r.child_idx))
        out.extend(_derived_consistent(o))
    return out


def _base_rules(r):
    from comb_spec_searcher.strategies.rule import EquivalencePathRule, EquivalenceRule, ReverseRule

    if isinstance(r, EquivalencePathRule):
        for x in r.rules:
            yield from _base_rules(x)
    elif isinstance(r, (EquivalenceRule, ReverseRule)):
        yield from _base_rules(r.original_rule)
    else:
        yield r


def encode_with(case, res):
    ext = res.get("extract")
    if ext is None:
        ext = []
    return [ext, res.get("speckeys", []), res.get("fr_in", []), res.get("spec_in", []), res.get("rev_in", []),
            res.get("cut_in", [])]


def _untagged(entries):
    """entries without the identity tags (the same rule has another tag when the list is reordered)"""
    return sorted([e[0], e[1], e[3], [[m[0], m[2]] for m in e[4]]] for e in entries)


def _canon_spec(sp):
    # the constructor: dictionaries are compared as maps (sorted by class), the asserts as one AssertionError
    # (which assert fired is reported in the evidence only); the label ORDER of _enforce_labels is an internal
    # choice: only the set of labelled classes is compared.  Key lists are compared as sets of keys.  The last
    # field is a model-internal sanity bit: whenever the hypotheses wf_input hold and the constructor finished,
    # the finished rules_dict must BE the dictionary _group_equiv_in_path left (_set_subrules added nothing) -
    # then the key lists are literally the R1 d1 / R0 d0 d1 of C02_grouping_preserves_productivity
    # (Spec/GroupingProdObj.v object_keys_pump_iff); the implementation side always says 1
    # Fields 9..11 (added later): the productivity verdicts of the proved table-method model on R1 / R0 - for the
    # root, and per class with a key (compared as sorted lists)
    st = _coarse(sp[0])
    same_ok = 0 if (st == 0 and sp[4] and not sp[8]) else 1
    sp = list(sp) + [[], [], []][: max(0, 12 - len(sp))]
    return [st, sorted(sp[1]), sorted(sp[2]), sorted(sp[3]), sp[4], sp[5], sorted(sp[6]), sorted(sp[7]), same_ok,
            sp[9], sorted(sp[10]), sorted(sp[11])]


def canon_model(mo):
    ext, pumps, fr, sp, rev, cut = mo[:6]
    hyp = mo[6] if len(mo) > 6 else []
    if ext[0] == 0:
        ext = [0, sorted(ext[1]), ext[2], ext[3]]
    # rules(): the three asserts as one AssertionError
    fr = [5 if fr[0] in (5, 6, 7) else fr[0], fr[1], fr[2]]
    return [ext, pumps, fr, _canon_spec(sp), _canon_spec(rev), _canon_spec(cut), hyp]


def oracle(case, res):
    if "exception" in res:
        # nonsense table universes may make the engine fail before anything is returned;
        # word universes must not
        if case["kind"] == "word":
            return "search raised " + res["exception"]
        return None
    if not res["found"]:
        return None
    if res.get("dup_lhs"):
        return "two rules for one class in the returned rule set"
    if not res.get("root_has_rule"):
        return "the start class has no rule"
    if res.get("missing_rule_for"):
        return "non-empty class on a right-hand side without a rule: %s" % res["missing_rule_for"][:2]
    if res.get("not_genuine"):
        return "rule is not what its strategy produces when re-applied: %s" % res["not_genuine"][:2]
    keys = res["speckeys"]
    # table universes carry arbitrary shifts: their strategies are not productive in the
    # documented sense, so only the forest database (which decides productivity itself)
    # owes a productive rule set there; word universes owe it under every database
    if case["kind"] == "word" or case["ruledb"].startswith("forest"):
        f = naive_lfp([[0, p, kids] for p, kids in keys])
        for p, _ in keys:
            if not (p in f and f[p] is None):
                return "class %d of the returned specification does not pump (naive least fixed point)" % p
    info = res.get("spec_info")
    if info:
        ctor = info["ctor"]
        if ctor == "unfinished" and case["kind"] == "table":
            # a cycle of hidden classes: equivalence rules with positive shifts, which only the table universes
            # (arbitrary shifts on DisjointUnion strategies) produce; reported in the evidence
            pass
        elif ctor != "ok":
            why = "CombinatorialSpecification(root, rules) raised %s on the rule set that was handed out" % ctor
            if info.get("nonunary") and case["ruledb"] in ("base", "forget"):
                why += " [" + KNOWN_NONUNARY + ": %d unconverted equivalence rule(s) with several children]" % info["nonunary"]
            return why
        else:
            if not info.get("root_ok"):
                return "the specification object has no rule for its root"
            if info.get("problems"):
                return "specification object: %s" % info["problems"][0]
            if info.get("roundtrip"):
                return "specification object: %s" % info["roundtrip"][0]
            if res.get("rev_same") is False:
                return "CombinatorialSpecification(root, rules) depends on the order of the rules"
            if not info.get("wf") and case["kind"] == "word":
                why = "a word search handed out a rule set outside the hypotheses of the grouping theorems"
                if info.get("nonunary") and case["ruledb"] in ("base", "forget"):
                    # the constructor happened to get through, the rule set is the one of the finding fixed by 398db71
                    why += " [" + KNOWN_NONUNARY + ": %d unconverted equivalence rule(s) with several children]" % info["nonunary"]
                return why
            fk = info.get("final_keys")
            if fk and (case["kind"] == "word" or case["ruledb"].startswith("forest")):
                f = naive_lfp([[0, p, kids] for p, kids in fk])
                for p, _ in fk:
                    if not (p in f and f[p] is None):
                        return "class %d of the specification object does not pump (naive least fixed point)" % p
    # the grouped object judged on the shifts its rules DECLARE (main run, reversed rules, one rule left out)
    for which in ("spec_info", "rev_info", "cut_info"):
        why = _object_productivity(case, res.get(which), which)
        if why:
            return why
    ci = res.get("cut_info")
    if ci and ci["ctor"] == "ok" and ci.get("problems"):
        # a rule set with one rule left out: the constructor may refuse it (assert) or, when nothing non-empty
        # is left without a rule, accept it; it must not make up rules
        lazy = [p for p in ci["problems"] if p.startswith("lazily added")]
        if lazy:
            return "constructor on a rule set with one rule left out: %s" % lazy[0]
    hb = res.get("hyp")
    if hb:
        # harness/universes/table.py builds every universe so that symmetries preserve emptiness and have one child,
        # factories hide plain strategies only, two-way entries are reversible, and every table strategy can be an
        # equivalence: a false verdict on one of THESE is a defect of the generator / tabulation (the theorem would
        # silently stop covering the stream), not a case the theorem merely does not cover.  pe_contract is NOT among
        # them (the generator breaks it on purpose in a share of the universes): tag only.
        from harness.props import hyps

        owed = [n for n in hyps.missing(hb, "find_rule") if n != "pe_contract"]
        if owed:
            return ("harness: table universe violates %s, which harness/universes/table.py establishes by construction "
                    "(hypothesis of C02_search_find_rule_total)" % ", ".join(owed))
    fi = res.get("fr_info")
    if fi and fi["err"] and not (fi["err"] == 2 and case["ruledb"] == "forget" and case["kind"] == "table"):
        # RuntimeError of RecomputingDict on table universes: known finding C14 forget-foreign-parent-outside-key
        if case["kind"] == "word":
            return "rules() of the extractor raised (code %d) although a specification was announced" % fi["err"]
    if res.get("extract") is not None:
        root, stored, tree, order, reps, paths = res["extract"]
        d = dict((p, cs) for p, cs in res["out"][0][1])
        if root not in d:
            return "extractor: start label has no entry"
        for p, cs in d.items():
            for c in cs:
                if c not in d:
                    return "extractor: label %d on a right-hand side has no entry" % c
        edges = set(map(tuple, res.get("edges", [])))
        skeys = {(p, tuple(cs)) for p, cs in stored}
        for p, cs in d.items():
            if (p, tuple(cs)) in skeys:
                continue
            if len(cs) == 1 and (p, cs[0]) in edges:
                continue
            return "extractor: entry %d -> %r is neither a stored rule nor a recorded edge" % (p, cs)
    return None


def _pumping(keys):
    """the parents of `keys` that pump (naive Kleene iteration, harness/props/c03.py)"""
    f = naive_lfp([[0, p, kids] for p, kids in keys])
    return {p for p, _ in keys if p in f and f[p] is None}


DERIVED_SHIFTS = "derived-rule-declared-shifts"


def _object_productivity(case, info, which):
    """the specification OBJECT judged on its own forest keys (class, zip(children, rule.shifts())):
    (1) word universes: a derived rule (EquivalenceRule, EquivalencePathRule) must declare the shifts of the
        rule(s) it stands for (table universes: their strategies read shifts by class - not judged, counted);
    (2) the verdict on the declared keys, on the keys with paths counted with the sum of their members' shifts
        (= the model's R1, compared field by field with the model) and on the ungrouped keys (R0) must be the
        same for every class with a rule in the object - the second equality is
        C02_grouping_preserves_productivity whenever its premises hold (wf_input, one shift per child);
    (3) where a productive rule set is owed (word universes, forest databases) every such class pumps."""
    if not info or info.get("ctor") != "ok" or "r1_code" not in info:
        return None
    word = case["kind"] == "word"
    if word:
        for kind, c, raw, want, _t in info.get("shift_disagreements", []):
            return ("%s of class %d declares shifts %r, the rule(s) it stands for give %r [%s] (%s)"
                    % (kind, c, raw, want, DERIVED_SHIFTS, which))
    r1c, r1s, r0 = info["r1_code"], info["r1_sum"], info["r0"]
    parents = {p for p, _ in r1c}
    pc, ps, p0 = _pumping(r1c), _pumping(r1s), _pumping(r0) & parents
    if info.get("wf") and info.get("shifts_ok") and ps != p0:
        return ("%s: wf_input and one shift per child hold, but grouped keys (paths with summed shifts) pump %r and "
                "ungrouped keys pump %r: contradicts C02_grouping_preserves_productivity (model or oracle wrong)"
                % (which, sorted(ps), sorted(p0)))
    if pc != ps:
        return ("%s: judged on the shifts the grouped object declares classes %r pump, with paths counted with the "
                "sum of their members' shifts classes %r pump" % (which, sorted(pc), sorted(ps)))
    if which != "cut_info" and (word or case["ruledb"].startswith("forest")):
        for p in sorted(parents - pc):
            return "class %d of the specification object does not pump on its declared forest keys (%s)" % (p, which)
        # the independent verdict (naive least fixed point) next to the one the proved table-method model prints
        # (fields 9..11, required to be 1 on this case): root and every class, on R1 and - under the premises of the
        # grouping theorem - on R0
        if "lfp_root" in info:
            if not info["lfp_root"][0]:
                return "the root of the specification object does not pump w.r.t. R1 (naive least fixed point, %s)" % which
            if info.get("wf") and info.get("shifts_ok"):
                if not info["lfp_root"][1]:
                    return "the root does not pump w.r.t. the ungrouped keys R0 (naive least fixed point, %s)" % which
                for c, b in info["lfp_R0"]:
                    if not b:
                        return "class %d does not pump w.r.t. the ungrouped keys R0 (naive least fixed point, %s)" % (c, which)
    return None


KNOWN_NONUNARY = "oneway-equivalence-with-empty-sibling"


def finding_match(case, why):
    if KNOWN_NONUNARY in str(why):
        return KNOWN_NONUNARY
    if DERIVED_SHIFTS in str(why) and case.get("kind") == "word":
        # no such finding is open: on every real (word) specification seen so far the derived rules declare the
        # shifts of the rules they stand for (all 0); the tag only makes a future entry of known_findings.json narrow
        return DERIVED_SHIFTS
    return None


def _instances(res):
    """the constructor runs of a case (main, reversed rules, one rule left out) on which
    C02_grouping_preserves_productivity is instantiated: wf_input and one-shift-per-child hold (decided by the
    model's wf_inputb / shifts_okb and independently here) and the constructor finished; model and
    implementation then agreed on R1 / R0 (or the case is a mismatch)"""
    for which in ("spec_info", "rev_info", "cut_info"):
        info = res.get(which)
        if info and info.get("ctor") == "ok" and info.get("wf") and info.get("shifts_ok") and "r1_code" in info:
            yield which, info


def extra_checks(ctx):
    """how often the productivity theorem was instantiated on real data (evidence; 0 on a full run = alarm)"""
    return _extra_main(ctx) + [_repair_in_force()]


def _repair_in_force():
    """the model mode is read off the code under test (_convert_flag); a regression of fix 398db71 would make the model
    FOLLOW the regressed code, so the mode itself is a verdict: rules() must hand out equivalence forms"""
    import os

    flag = _convert_flag()
    forced = os.environ.get("VERIF_C02_CONVERT") is not None
    return ("repair 398db71 in force: SpecificationRuleExtractor.rules() converts one-non-empty-child unions to their "
            "equivalence form (model mode convert = %d%s)" % (flag, ", forced by VERIF_C02_CONVERT" if forced else ""),
            flag == 1 or forced,
            "ok" if flag == 1 or forced else "failing input: any search whose specification uses a one-way union with an empty "
            "sibling between two classes the equivalence database joined (findings/oneway_equivalence_with_empty_sibling.py): "
            "rules() hands out the unconverted rule; the fixed finding returned")


def _extra_main(ctx):
    n_inst = n_cases = n_path = n_nonzero = n_word = n_word_path = 0
    n_ok = n_nosok = n_tbl_raw = n_tbl_path_raw = 0
    for res, _why, _nt in ctx.impl_res:
        hit = False
        for which in ("spec_info", "rev_info", "cut_info"):
            info = res.get(which)
            if info and info.get("ctor") == "ok":
                n_ok += 1
                n_nosok += not info.get("shifts_ok")
                n_tbl_raw += sum(1 for d in info.get("shift_disagreements", []) if d[4])
                n_tbl_path_raw += info.get("table_path_raw_differs", 0)
        for _which, info in _instances(res):
            n_inst += 1
            hit = True
            sums = info.get("path_sums", [])
            n_path += bool(sums)
            n_nonzero += any(sums)
            if not res.get("is_table"):
                n_word += 1
                n_word_path += bool(sums)
        n_cases += hit
    ok = n_inst > 0 or len(ctx.impl_res) < 500
    n_owed = n_owed_r0 = 0
    for res, _why, _nt in ctx.impl_res:
        for which in ("spec_info", "rev_info"):
            info = res.get(which)
            if info and info.get("ctor") == "ok" and info.get("owed"):
                n_owed += 1
                n_owed_r0 += bool(info.get("wf") and info.get("shifts_ok"))
    verdict_line = (
        "proved productivity verdict (C02_object_root_pumps_decided / C02_object_root_pumps) REQUIRED to be 1 - root "
        "and every class, on R1 of the finished object - on %d constructor runs of the retained cases; on R0 too on "
        "%d of them" % (n_owed, n_owed_r0), n_owed > 0 or len(ctx.impl_res) < 500,
        "the bits are computed by the extracted table-method model (Forest/Model.v run with the proved fuel) inside "
        "run_spec; the implementation side of the comparison states the requirement (all 1) where a productive rule "
        "set is owed (word universes, forest databases) and the Python naive_lfp verdict elsewhere; the oracle "
        "independently requires naive_lfp to agree")
    # coverage of the composed theorem C02_search_find_rule_total: table-universe searches with the default RuleDB
    # (the theorem is about the dict stores) whose rules() was compared with the model; covered = the decider's verdict
    from harness.props import hyps

    flags, why_not, n_forget = [], {}, 0
    for case, (res, _why, _nt) in zip(ctx.cases, ctx.impl_res):
        hb = res.get("hyp")
        if not hb:
            continue
        if case.get("ruledb") != "base":
            n_forget += 1
            continue
        flags.append(bool(hb[1]))
        for m in hyps.missing(hb, "find_rule")[:1]:
            why_not[m] = why_not.get(m, 0) + 1
    cov = hyps.coverage_check(
        "C02_search_find_rule_total", flags, MIN_COVERED,
        "table-universe RuleDB searches whose rules() is compared",
        "not covered because of: %s; %d further table-universe searches use RuleDBForgetStrategy (RecomputingDict "
        "lookups: outside this theorem, see C14); verdict = find_rule_hyps_b of the extracted run_c02, equal to the "
        "Python predicates on every case (part of the compared output); packets_in is not evaluated here (C02 records "
        "no packets; it is a theorem for the queue model, Searcher/QueuePack.v search_in_pack, and evaluated on real "
        "packets by C04/C14/C17); word universes: not evaluated" % (why_not or "-", n_forget))
    return [
        verdict_line,
        cov,
        ("C02_grouping_preserves_productivity / C02_object_keys_pump_iff instantiated on %d real constructor runs "
         "(%d cases)" % (n_inst, n_cases), ok,
         "premises wf_input and one-shift-per-child decided by the model (wf_inputb, shifts_okb) AND independently in "
         "Python, constructor finished, model's R1/R0 equal to the real object's declared forest keys; %d finished "
         "constructor runs in the %d retained cases; %d of them with len(shifts) != len(children) somewhere"
         % (n_ok, len(ctx.impl_res), n_nosok)),
        ("instances with an EquivalencePathRule: %d; with a path whose members' shifts sum to non-zero: %d; "
         "word-universe instances: %d (%d with a path rule)" % (n_path, n_nonzero, n_word, n_word_path), True,
         "non-zero sums occur in table universes only (arbitrary shifts on DisjointUnion-typed strategies: "
         "artificial); every equivalence rule of a word universe has shift 0, so there the declared shift of an "
         "EquivalencePathRule, the sum of its members' shifts and 0 coincide"),
        ("table-universe derived rules whose raw .shifts() is not that of the rule(s) they stand for: %d "
         "(EquivalencePathRule in the object: %d)" % (n_tbl_raw, n_tbl_path_raw), True,
         "not a finding: a table strategy reads its shifts by class, the library's strategy families compute them "
         "from the children they are given; substituted as documented in _sent_shifts"),
    ]


def nontrivial(case, res):
    return res.get("nrules", 0) >= 3


def key(case):
    import json

    return json.dumps(case, sort_keys=True)


def classify(case, res):
    tags = [case["kind"], "db=" + case["ruledb"]]
    if case["kind"] == "word":
        tags.append("pack=" + case["pack"])
    tags.append("found" if res.get("found") else "no_spec")
    if res.get("extraction_error"):
        tags.append("table_extraction_error:" + res["extraction_error"].split(":")[0])
    if res.get("extract") and res["extract"][5]:
        tags.append("uses_equivalence_paths")
    hb = res.get("hyp")
    if hb:
        from harness.props import hyps

        tags.append(hyps.verdict_tag("C02_search_find_rule_total", hb, "find_rule",
                                     also=[("RuleDBForgetStrategy", case["ruledb"] == "base")]))
    elif res.get("fr_in"):
        tags.append("thm:C02_search_find_rule_total:not_evaluated(word universe)")
    fi = res.get("fr_info")
    if fi:
        tags.append("find_rule:" + ("ok" if not fi["err"] else "error%d" % fi["err"]))
        for k in fi["kinds"]:
            tags.append("find_rule_form:%d" % k)
        if fi["new_labels"]:
            tags.append("find_rule_labels_new_classes")
    ci = res.get("cut_info")
    if ci:
        tags.append("ctor_one_rule_left_out:" + ci["ctor"])
    info = res.get("spec_info")
    if info:
        tags.append("ctor:" + info["ctor"])
        tags.append("ctor_wf_hypotheses:%d" % info.get("wf", 0))
        if info.get("npaths"):
            tags.append("ctor_builds_paths")
        if info.get("longest_path", 0) >= 2:
            tags.append("ctor_path_of_2_or_more")
        if info.get("nlazy"):
            tags.append("ctor_lazy_empty_rules")
        tags.append("ctor_one_shift_per_child:%d" % info.get("shifts_ok", 0))
        for how in info.get("shifts_sent", {}):
            tags.append("shifts_sent:" + how)
        if any(True for _ in _instances(res)):
            tags.append("productivity_theorem_instantiated")
        if info.get("ctor") == "ok" and info.get("wf") and info.get("shifts_ok") and any(info.get("path_sums", [])):
            tags.append("productivity_theorem_instantiated_nonzero_path_sum")
        if any(d[4] for d in info.get("shift_disagreements", [])):
            tags.append("table_derived_rule_raw_shifts_differ")
    return tags


def shrink(case):
    if case["kind"] != "table":
        return
    u = case["universe"]
    for i, st in enumerate(u["strats"]):
        for c in list(st["apply"]):
            u2 = {**u, "strats": [dict(s, apply={k: v for k, v in s["apply"].items() if not (j == i and k == c)})
                                   for j, s in enumerate(u["strats"])]}
            yield {**case, "universe": u2}


TECHNIQUE = (
    "Coq proof (extractor dictionary closed for every set order and path oracle; _find_rule/rules(): genuineness and "
    "totality over the strategy table for both kinds of stores, every failure characterised; "
    "CombinatorialSpecification.__init__: the grouping loop never asserts, terminates within an explicit bound, its "
    "result is characterised class by class, ungrouping gives the rules back, lazy empty rules are sound; the forest "
    "keys of the grouped dictionary - a path counted with the sum of its members' shifts - pump the same classes as "
    "those of the ungrouped rules, instantiated per real rule set through decided premises; meaning of the "
    "productivity verdict via C03) + replayed correspondence of extractor, rules() and constructor (with the rules' "
    "declared shifts and the object's forest keys) with the real code + per-instance oracle; the table hypotheses of "
    "the composed theorem C02_search_find_rule_total are decided per table-universe case by an extracted decider "
    "(verdict compared with the harness's predicates on every such case; covered fraction reported and enforced)"
)
LEVEL_TEXT = (
    "37 theorems (Props/C02.v, axiom-free). Extractor: C02_closed (dictionary contains the start label, is closed, "
    "consists of stored rules and steps of find_path answers, for every iteration order and every find_path whose "
    "answers are non-empty lists from the first label to the second - the head/last part of C06_path; that a step is "
    "a RECORDED edge needs C06_path's other half, which is not imported). _find_rule/rules() over a strategy table and ANY two stores: C02_rules_from_table(_all) - every rule "
    "handed out is strategy(class) of a table entry, its equivalence form (then exactly one non-empty child), the "
    "reverse of a REVERSIBLE entry, or the equivalence form of such a reverse, for the strategy a store handed back for "
    "the entry's key; C02_find_rule_total - after any abstract history add_hist of ruledb.add calls each made under "
    "add_pre (with kind_ok, twoway_faithful), every key of rule_to_strategy, every recorded equivalence edge (both ways "
    "when two-way) and every key of "
    "eqv_rule_to_strategy is turned back into a rule filed under exactly that entry (generic version for any stores "
    "whose lookups reproduce their keys, which C14 proves of RecomputingDict); C02_search_find_rule_total - the same "
    "for the RuleDB that ANY run of the C04 searcher model on a pruning database built (composition through "
    "RuleDB/SearchHist.v, C04_search_gives_add_hist: the history, the truthful emptiness cache and 'strategies in the "
    "equivalence store can be equivalences' are discharged; what remains are hypotheses on the strategy TABLE: the two "
    "strategy contracts of Searcher/Contracts.v, unary symmetry rules, no factory item naming a verification strategy, "
    "two-way entries reversible and of strategies that can be equivalences) - for table universes; a word search is "
    "such a run only modulo the trusted Tabulator; C02_search_find_rule_total_decided - the same theorem with all these "
    "table hypotheses replaced by find_rule_hyps_b T pack cap = true (Searcher/Deciders.v), the boolean the extracted "
    "run_c02 evaluates on the table of EVERY table-universe case whose rules() is compared (output field 6, compared "
    "with the plugin's Python verdict by the core's diff): the composed theorem covers exactly the cases where it is "
    "true - 93-96% of the table-universe RuleDB searches compared (seeds 0-2; tags thm:C02_search_find_rule_total:* and "
    "the extra check covered_by_theorem, which fails below 85%), none of the RuleDBForgetStrategy or word-universe "
    "searches; C02_find_rule_outcomes - every exception "
    "characterised; the foreign-parent limitation of RuleDBForgetStrategy and the finding fixed by /repo 398db71 (the "
    "code before the fix: model run with convert=false) as machine-checked counterexamples, the repair - what the code "
    "does now - as C02_repair_converts (+ Spec/FindRuleRepair.v: with it every equivalence rule handed out is "
    "unary). Constructor, for every input satisfying wf_input (decidable: C02_wf_decided): "
    "C02_grouping_never_asserts (no assert of _group_equiv_in_path, EquivalencePathRule.__init__, get_rule for ANY "
    "fuel), C02_grouping_terminates (within group_fuel turns), C02_grouping_result (only unfolds the definition of "
    "`grouped`, the conclusion of the two theorems before: _is_valid_spec holds, root kept, "
    "hidden classes dropped, every other class keeps its rule or becomes the head of a path rule whose members are the "
    "original rules along the chain - C02_path_members_form_a_chain -, every hidden class lies on a path; that it lies "
    "on exactly ONE is false in general: C02_hidden_on_two_paths), C02_group_ungroup_roundtrip, "
    "C02_constructor_never_raises, C02_lazy_empty_sound, C02_set_subrules_only_adds_empty_rules, "
    "C02_grouping_preserves_productivity (for d0 satisfying wf_input whose rules declare one shift per child: every "
    "class that is not hidden, the root in particular, pumps w.r.t. the keys R1 of the grouped dictionary - a path "
    "counted with the SUM of its members' shifts - iff w.r.t. the keys R0 of the ungrouped rules), C02_shifts_decided "
    "(that premise is decided by shifts_okb), C02_object_keys_pump_iff (wf_inputb, shifts_okb, a finished executable "
    "constructor and same_dictb imply that the key lists run_spec prints for a real rule set are such R1 / R0; the "
    "check compares R1 with the forest keys the real object declares and counts the instances in extra_checks: "
    "about 18700 constructor runs (main and reversed rule order of about 9400 searches) per quick run, about 6000 of "
    "them with a path rule and about 2100 with a path whose members' shifts sum to non-zero - the latter in table "
    "universes only, whose shifts are artificial), C02_productive_decided (meaning of the run_pumps bits). THE VERDICT ON THE "
    "OBJECT: C02_object_root_pumps_decided / C02_pumps_decided / C02_object_all_classes_pump_decided (pumpsb ks c = true "
    "<-> pumps ks c for ANY key list, by C03_total_sound_complete; all_pumpb), C02_run_spec_prints_the_verdicts (fields "
    "6, 7, 9, 10, 11 of the extracted run_spec are R1, R0 and pumpsb on them), C02_object_root_pumps (the four bits + "
    "one positive verdict => pumps (R1 object) root AND pumps (R0 ungrouped) root: the productivity hypothesis of "
    "C01_spec_correct for the keys the object declares), C02_object_verdicts_agree, C02_object_all_classes_pump. TOWARDS "
    "C01: C02_descriptors_declare_R1 / _declare_only_R1 (Spec/GroupingDesc.v descs_of : Grouping.dict -> list cdesc; the "
    "forest keys declared by the descriptors of the classes of the object are exactly R1) and C02_object_counts_partial "
    "(bits + verdict + C01's per-descriptor contracts => eval of that descriptor list gives the true counts of the root; "
    "PARTIAL: that c01.py describe() builds this list from the real object is trusted Python with another class "
    "numbering and shift 0 for a path, nothing feeds run_c01 with it here, the contracts stay hypotheses). Which model runs where: the "
    "extractor and _find_rule models run only on searches with a pruning database (base / forget) that announce a "
    "specification; forest searches exercise the table-method model (run_pumps) and the constructor model only; the "
    "constructor model runs three times on every search that hands out rules."
)
LEVEL_NOTE = (
    "Productivity of pruning-database specifications and genuineness of the rule objects of word universes are instance "
    "checks (DESIGN.md C02) - productivity now decided by the proved table-method model on the object's own keys R1 and "
    "on R0 (a model bit 0 where productivity is owed shows up as a model/implementation mismatch, the Python naive_lfp "
    "failing as an oracle failure); the forest database's guarantees are C11's theorems (C11_all_classes_pump is the "
    "statement about every class; its _find_rule is not re-modelled here). C02_enforce_labels_partial: no KeyError and distinct labels, termination within the fuel unproved. The "
    "constructor model covers group_equiv=True and False; paths of paths are not modelled. The finding "
    "oneway-equivalence-with-empty-sibling is FIXED in /repo (398db71, known_findings.json kind `fixed`): the harness "
    "detects the conversion in the source of rules() (or VERIF_C02_CONVERT=1) and compares the convert=true branch of "
    "the model only; finding_match masks nothing. No theorem says that the forest keys the code DECLARES for derived "
    "rule forms (EquivalenceRule.shifts(), EquivalencePathRule.shifts()) are those of the rules they stand for: "
    "compared per instance, on word universes (all 0); no disagreement found, no finding (shifts() of a derived "
    "form is read only through forest_key - RuleDBForest.add on the rules expand_comb_class seeds, "
    "ForestRuleExtractor.rules(cache) - never by get_terms; EquivalencePathRule.shifts() by nothing in the library). "
    "C02_search_find_rule_total does NOT cover every compared case: its table hypotheses are evaluated per case by the "
    "extracted decider (find_rule_hyps_b) and hold on 93-96% of the table-universe RuleDB searches (about a quarter of "
    "the table universes the generator leaves untouched break pe_contract); where the verdict is false, and on every "
    "RuleDBForgetStrategy and word-universe search, only the model/implementation comparison and the oracle speak. "
    "Trusted: Coq kernel, "
    "extraction, harness, recorded find_path/set-order replay."
)
