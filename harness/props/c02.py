"""C02 — returned specifications are closed, one-rule-per-class, genuine and productive."""
from harness.props.c03 import naive_lfp
from harness.universes import runs

ID = "C02"
TITLE = "returned specifications: closed, one rule per class, genuine, productive"
COQ_PROPS = "Props/C02.v"
COQ_RUN = ("Spec.ExtractorRun", "run_c02")
GEN_TARGETS = []
N = {"quick": 8000, "thorough": 40000}
RULE = (
    "real searches: word universes (16 start classes x 10 packs incl. symmetries, inferral, factories with ready and "
    "foreign-parent rules, non-atom verification, iterative x 4 rule databases x expand_verified/smallest x random "
    "proof-tree seeds) and random table universes (integer classes, table-driven strategies). For the pruning "
    "databases the real SpecificationRuleExtractor runs with recorded set order and find_path answers and its rules "
    "dictionary is compared with the model; for every returned rule set the oracle re-decides closedness, "
    "one-rule-per-class, genuineness (re-applying the rule's strategy to its parent) and productivity (naive Kleene "
    "iteration over (parent, children, shifts)); the model's table-method verdict on the same keys is compared with "
    "the real TableMethod. Non-trivial: a specification with >= 3 rules was returned; distinct = distinct case."
)
TRUSTED = [
    "modelled, not verified: specification_extrator.py SpecificationRuleExtractor (_populate_decompositions, "
    "_populate_equivalences, _no_lhs_labels, _check) — Spec/Extractor.v tied by this correspondence; equivdb.find_path "
    "and the set iteration order are replayed from the real run (theorems quantify over all of them)",
    "genuineness of rules and one-rule-per-class of the final CombinatorialSpecification are decided by the Python oracle",
]
ASSUMPTIONS = [
    "productivity of specifications found by the pruning databases is decided per returned specification (C02_productive_decided), not proved for all universes",
]


def gen(rng, tier):
    while True:
        yield runs.gen_case(rng, table_fraction=0.55)


def _labels(classes):
    """dense labels for the classes of a rule list, in order of first appearance"""
    lab = {}
    for c in classes:
        lab.setdefault(c, len(lab))
    return lab


def _key_rules(r):
    """the decomposition rules whose (parent, children, shifts) the productivity analysis sees:
    an equivalence rule stands for its original rule (all children, the empty ones become
    verified leaves), an equivalence path for each of its steps"""
    from comb_spec_searcher.strategies.rule import EquivalencePathRule, EquivalenceRule

    if isinstance(r, EquivalencePathRule):
        for x in r.rules:
            yield from _key_rules(x)
    elif isinstance(r, EquivalenceRule) and (hasattr(r.strategy, "sid") or len(r.shifts()) != len(r.children)):
        # EquivalenceRule.shifts() asks the STRATEGY for the shifts of (parent, the one non-empty
        # child) — a pair the strategy may never have produced (equivalence form of a reverse rule).
        # The library's own strategy families answer 0 there; a table strategy (attribute `sid`)
        # reads its table by class and would answer with the shifts of ANOTHER rule of that class
        # (false alarm seen with seed 1: class 0 has its own unary rule with shift -1 and is also the
        # child of a two-way rule with shifts (0, 1)).  Judge the rule it stands for instead.
        yield from _key_rules(r.original_rule)
    else:
        yield r


def _spec_keys(rules):
    krules = [k for r in rules for k in _key_rules(r)]
    classes = []
    for r in krules:
        classes.append(r.comb_class)
        classes.extend(r.children)
    lab = _labels(classes)
    keys = []
    lhs = {r.comb_class for r in krules}
    for r in krules:
        keys.append([lab[r.comb_class], [[lab[c], s] for c, s in zip(r.children, r.shifts())]])
    # empty classes get their rule lazily (CombinatorialSpecification.get_rule adds an
    # EmptyStrategy rule): they count as verified leaves, as in RuleDBForest._add_empty_rule
    done = set()
    for r in krules:
        for c in r.children:
            if c not in lhs and c not in done and c.is_empty():
                done.add(c)
                keys.append([lab[c], []])
    return keys, lab


def impl(case):
    res = runs.search(case)
    css = res["css"]
    out = {"found": res["rules"] is not None, "extract": None, "speckeys": [], "problems": [],
           "extraction_error": res.get("error")}
    ext_out = [9, [], 0, 0]
    if res["extractor"] is not None:
        ex = res["extractor"]
        ruledb = css.ruledb
        nlab = len(css.classdb.comb_class_list)
        stored = [[k[0], list(k[1])] for k in ruledb.rule_to_strategy]
        tree = [[k[0], list(k[1])] for k in ex.eqv_rulekeys]
        reps = [ruledb.equivdb[l] for l in range(nlab)]
        out["extract"] = [css.start_label, stored, tree, ex.order, reps, ex.paths]
        d = [[p, list(cs)] for p, cs in ex.rules_dict.items()]
        # the model inserts in its own order: compare as sorted lists
        ext_out = [0, sorted(d), 1, 1]
        # edges recorded in the equivalence database, for the oracle
        out["edges"] = sorted(
            {(a, b) for a, bs in ruledb.equivdb.vertices.items() for b in bs}
        )
    pumps_out = []
    if res["rules"] is not None:
        rules = res["rules"]
        try:
            keys, lab = _spec_keys(rules)
        except Exception:  # pylint: disable=broad-except
            # table strategies read shifts from their own table and cannot answer for the
            # derived forms (equivalence of a reverse rule); no productivity verdict then
            if case["kind"] != "table":
                raise
            keys, lab = [], {}
            out["keys_error"] = True
        out["speckeys"] = keys
        from comb_spec_searcher.rule_db.forest import TableMethod
        from comb_spec_searcher.typing import ForestRuleKey, RuleBucket

        tm = TableMethod()
        for p, kids in keys:
            tm.add_rule_key(ForestRuleKey(p, tuple(c for c, _ in kids), tuple(s for _, s in kids), RuleBucket.NORMAL))
        pumps_out = [int(tm.is_pumping(p)) for p, _ in keys]
        # ---- facts for the oracle, gathered from the real objects
        lhs = [r.comb_class for r in rules]
        out["dup_lhs"] = len(set(lhs)) != len(lhs)
        missing = []
        for r in rules:
            for c in r.children:
                if c not in lhs and not c.is_empty():
                    missing.append(str(c))
        out["missing_rule_for"] = missing
        out["root_has_rule"] = css.start_class in lhs or css.start_class.is_empty()
        notgen = []
        for r in rules:
            for b in _base_rules(r):
                try:
                    again = b.strategy(b.comb_class)
                    if tuple(again.children) != tuple(b.children):
                        notgen.append("%s on %s" % (b.strategy, b.comb_class))
                except Exception as e:  # pylint: disable=broad-except
                    notgen.append("%s on %s raised %s" % (b.strategy, b.comb_class, type(e).__name__))
        out["not_genuine"] = notgen
        if res["spec"] is not None:
            spec = res["spec"]
            out["spec_root_ok"] = spec.root == css.start_class
    out["out"] = [ext_out, pumps_out]
    out["nrules"] = len(res["rules"]) if res["rules"] is not None else 0
    return out


def _base_rules(r):
    from comb_spec_searcher.strategies.rule import EquivalencePathRule, EquivalenceRule, ReverseRule

    if isinstance(r, EquivalencePathRule):
        for x in r.rules:
            yield from _base_rules(x)
    elif isinstance(r, (EquivalenceRule, ReverseRule)):
        yield from _base_rules(r.original_rule)
    else:
        yield r


def encode_with(case, res):
    ext = res.get("extract")
    if ext is None:
        ext = []
    return [ext, res.get("speckeys", [])]


def canon_model(mo):
    ext, pumps = mo
    if ext[0] == 0:
        ext = [0, sorted(ext[1]), ext[2], ext[3]]
    return [ext, pumps]


def oracle(case, res):
    if "exception" in res:
        # nonsense table universes may make the engine fail before anything is returned;
        # word universes must not
        if case["kind"] == "word":
            return "search raised " + res["exception"]
        return None
    if not res["found"]:
        return None
    if res.get("dup_lhs"):
        return "two rules for one class in the returned rule set"
    if not res.get("root_has_rule"):
        return "the start class has no rule"
    if res.get("missing_rule_for"):
        return "non-empty class on a right-hand side without a rule: %s" % res["missing_rule_for"][:2]
    if res.get("not_genuine"):
        return "rule is not what its strategy produces when re-applied: %s" % res["not_genuine"][:2]
    keys = res["speckeys"]
    # table universes carry arbitrary shifts: their strategies are not productive in the
    # documented sense, so only the forest database (which decides productivity itself)
    # owes a productive rule set there; word universes owe it under every database
    if case["kind"] == "word" or case["ruledb"].startswith("forest"):
        f = naive_lfp([[0, p, kids] for p, kids in keys])
        for p, _ in keys:
            if not (p in f and f[p] is None):
                return "class %d of the returned specification does not pump (naive least fixed point)" % p
    if res.get("extract") is not None:
        root, stored, tree, order, reps, paths = res["extract"]
        d = dict((p, cs) for p, cs in res["out"][0][1])
        if root not in d:
            return "extractor: start label has no entry"
        for p, cs in d.items():
            for c in cs:
                if c not in d:
                    return "extractor: label %d on a right-hand side has no entry" % c
        edges = set(map(tuple, res.get("edges", [])))
        skeys = {(p, tuple(cs)) for p, cs in stored}
        for p, cs in d.items():
            if (p, tuple(cs)) in skeys:
                continue
            if len(cs) == 1 and (p, cs[0]) in edges:
                continue
            return "extractor: entry %d -> %r is neither a stored rule nor a recorded edge" % (p, cs)
    return None


def nontrivial(case, res):
    return res.get("nrules", 0) >= 3


def key(case):
    import json

    return json.dumps(case, sort_keys=True)


def classify(case, res):
    tags = [case["kind"], "db=" + case["ruledb"]]
    if case["kind"] == "word":
        tags.append("pack=" + case["pack"])
    tags.append("found" if res.get("found") else "no_spec")
    if res.get("extraction_error"):
        tags.append("table_extraction_error:" + res["extraction_error"].split(":")[0])
    if res.get("extract") and res["extract"][5]:
        tags.append("uses_equivalence_paths")
    return tags


def shrink(case):
    if case["kind"] != "table":
        return
    u = case["universe"]
    for i, st in enumerate(u["strats"]):
        for c in list(st["apply"]):
            u2 = {**u, "strats": [dict(s, apply={k: v for k, v in s["apply"].items() if not (j == i and k == c)})
                                   for j, s in enumerate(u["strats"])]}
            yield {**case, "universe": u2}


TECHNIQUE = "Coq proof (closedness of the extractor's rule dictionary for every set order and every valid path oracle; meaning of the productivity verdict via C03) + replayed correspondence + per-instance oracle"
LEVEL_TEXT = (
    "C02_closed proves that SpecificationRuleExtractor's dictionary contains the start label, is closed and consists of "
    "stored rules and explanation-path steps, for every iteration order and every find_path satisfying C06_path; "
    "C02_productive_decided gives the table-method verdict its least-fixed-point meaning, and that verdict is computed "
    "(by the extracted, proved-correct model and by the real TableMethod) on every returned specification; genuineness "
    "and one-rule-per-class are decided per instance by the oracle on real searches over word and table universes."
)
LEVEL_NOTE = (
    "Productivity of pruning-database specifications and genuineness are instance checks, not universal theorems "
    "(DESIGN.md C02); the forest database's guarantees are C11's theorems. Trusted: Coq kernel, extraction, harness, "
    "recorded find_path/set-order replay."
)
