"""
C11, second half: ForestRuleExtractor._find_rule / rules() on REAL RuleDBForest searches.

A case {"kind": "search", "u": table universe, "rev": 0/1, "comp": 0/1, "cache": [...], "levels": n}
is a table universe (harness/universes/table.py, the strategy table of the C04 searcher model)
searched by the real CombinatorialSpecificationSearcher with RuleDBForest(reverse=rev) until the
database reports a specification.  Then the real ForestRuleExtractor is built, every needed key is
handed to the real _find_rule, and finally rules(cache) is consumed.  What is compared with the
model (Forest/FindRule.v, run on the class database recorded at extraction time):
  - for every needed key: WHICH rule object was returned (strategy id, parent class, kind,
    reverse index) or that RuntimeError("Can't find a rule") was raised;
  - the class database _find_rule leaves behind (labels allocated, emptiness cache filled);
  - what rules(cache) yields, in order (the same descriptors + handed out as equivalence rule?),
    the key at which it gives up, the class database afterwards.
The oracle (independent of the model) recomputes the forest key of every returned rule from the
table and the class database and holds it against the requested key.
"""
import copy
import os

BUCKETS = None
KNOWN_FOREIGN = "known limitation (find-rule-foreign-parent-outside-key)"


def _buckets():
    global BUCKETS
    if BUCKETS is None:
        from comb_spec_searcher.typing import RuleBucket

        BUCKETS = [RuleBucket.REVERSE, RuleBucket.NORMAL, RuleBucket.EQUIV, RuleBucket.VERIFICATION]
    return BUCKETS


def enc_key(fk):
    return [fk.parent, list(fk.children), list(fk.shifts), _buckets().index(fk.bucket)]


def describe(rule):
    """(sid, parent class, kind 0 Rule/1 VerificationRule/2 EmptyStrategy rule, variant, as_equiv)"""
    from comb_spec_searcher.strategies.rule import EquivalenceRule, ReverseRule, VerificationRule
    from comb_spec_searcher.strategies.strategy import EmptyStrategy

    eqv = 0
    if isinstance(rule, EquivalenceRule):
        eqv = 1
        rule = rule.original_rule
    var = -1
    if isinstance(rule, ReverseRule):
        var = rule.idx
        rule = rule.original_rule
    if isinstance(rule.strategy, EmptyStrategy):
        kind = 2
    elif isinstance(rule, VerificationRule):
        kind = 1
    else:
        kind = 0
    return [getattr(rule.strategy, "sid", -1), rule.comb_class.n, kind, var], eqv


def pack_order(pack):
    """sids in StrategyPack.__iter__ order (the real iterator)"""
    return [s.sid for s in pack]


def snapshot(classdb):
    classes = [classdb.get_class(i).n for i in range(len(classdb.comb_class_list))]
    empties = [-1 if e is None else int(bool(e)) for e in classdb.empty_list]
    return classes, empties


def make_rule(uid, pack, cls_type, desc):
    """the rule object for a descriptor [sid, parent, kind, variant] (None if it cannot be built)"""
    from comb_spec_searcher.exception import StrategyDoesNotApply
    from comb_spec_searcher.strategies.strategy import EmptyStrategy
    from harness.universes import table as T

    sid, parent, kind, var = desc
    c = cls_type(uid, parent)
    try:
        if kind == 2:
            rule = EmptyStrategy()(c)
        else:
            rule = T.make_strategy(uid, sid)(c)
        if var >= 0:
            if not rule.is_reversible() or var >= len(rule.children):
                return None
            rule = rule.to_reverse_rule(var)
        return rule
    except StrategyDoesNotApply:
        return None


def run_real(case):
    """returns a dict with everything observed (see module docstring)"""
    import logging

    import logzero

    logzero.loglevel(logging.ERROR)
    from comb_spec_searcher import CombinatorialSpecificationSearcher
    from comb_spec_searcher.exception import NoMoreClassesToExpandError, StrategyDoesNotApply
    from comb_spec_searcher.rule_db import RuleDBForest
    from comb_spec_searcher.rule_db.forest import ForestRuleExtractor
    from harness.universes import table as T

    u = copy.deepcopy(case["u"])
    u.pop("uid", None)
    u["uid"] = "c11-%d-%d" % (os.getpid(), len(T.UNIVERSES))
    uid = T.register(u)
    try:
        pack = T.make_pack(uid)
        start = T.start_class(uid, bool(case.get("comp")))
        from comb_spec_searcher.class_db import ClassDB

        # every write to the emptiness cache during the search is logged: a label written with two
        # different values, or with a value that contradicts the class, is "unstable"
        classdb = ClassDB(type(start))
        writes = {}
        o_se = classdb.set_empty

        def set_empty(key, empty=True):
            if isinstance(key, int):
                writes.setdefault(key, set()).add(bool(empty))
            return o_se(key, empty)

        classdb.set_empty = set_empty
        died, found = None, False
        try:
            # a table without the strategy contracts can make the SEARCH die (C04's business)
            css = CombinatorialSpecificationSearcher(start, pack, ruledb=RuleDBForest(reverse=bool(case["rev"])),
                                                     classdb=classdb)
            found = css.ruledb.has_specification()
            for _ in range(int(case.get("levels", 30))):
                if found:
                    break
                try:
                    css.do_level()
                except NoMoreClassesToExpandError:
                    found = css.ruledb.has_specification()
                    break
                found = css.ruledb.has_specification()
        except (KeyError, IndexError, StrategyDoesNotApply) as e:
            died = type(e).__name__
            found = False
        # "extra": go on for some levels AFTER the specification was found, so that the universe the extractor
        # minimises (table_method._rules) holds more than the first productive set; a table without contracts may
        # make the searcher die there: the search simply stops, what was inserted stands
        if found:
            try:
                for _ in range(int(case.get("extra", 0))):
                    css.do_level()
            except (NoMoreClassesToExpandError, KeyError, IndexError, StrategyDoesNotApply):
                pass
        res = {"found": bool(found), "order": pack_order(pack), "died": died}
        if not found:
            return res
        classdb.set_empty = o_se
        res["unstable"] = sorted(l for l, vs in writes.items()
                                 if len(vs) > 1 or bool(u["empty"][classdb.get_class(l).n]) not in vs)
        # the LIVE key set: every forest key RuleDBForest.add handed to its table method during this search, in
        # insertion order, in the encoding of the abstract key cases (c11._enc_key), read BEFORE the extractor runs
        res["live_root"] = css.start_label
        res["live_keys"] = [[k[0], [[c, sh] for c, sh in zip(k[1], k[2])], k[3]]
                            for k in (enc_key(fk) for fk in css.ruledb.table_method._rules)]  # pylint: disable=protected-access
        ex = ForestRuleExtractor(css.start_label, css.ruledb, css.classdb, css.strategy_pack)
        try:
            ex.check()
            res["check"] = 1
        except AssertionError:
            res["check"] = 0
        needed = list(ex.needed_rules)
        res["needed"] = [enc_key(k) for k in needed]
        res["db0"] = snapshot(css.classdb)
        per, got = [], []
        for rk in needed:
            try:
                rule = ex._find_rule(rk)  # pylint: disable=protected-access
            except RuntimeError as e:
                if "Can't find a rule" not in str(e):
                    raise
                per.append([1])
                got.append(None)
                continue
            d, _ = describe(rule)
            k = enc_key(rule.forest_key(css.classdb.get_label, css.classdb.is_empty))
            per.append([0] + d + [k])
            got.append(k)
        res["per"] = per
        res["got"] = got
        res["db1"] = snapshot(css.classdb)
        # the cache handed to rules(): rule objects built here from the descriptors of the case
        cache_desc, cache = [], []
        for d in case.get("cache", []):
            if d[0] == "found":            # the rule _find_rule returned for the i-th needed key
                i = d[1] % max(1, len(per))
                if not per or per[i][0] != 0:
                    continue
                d = per[i][1:5]
            r = make_rule(uid, pack, type(start), d)
            if r is not None:
                cache_desc.append(list(d))
                cache.append(r)
        res["cache"] = cache_desc
        out, failed = [], []
        try:
            for rule in ex.rules(tuple(cache)):
                d, eqv = describe(rule)
                base = rule.original_rule if eqv else rule
                out.append(d + [eqv, enc_key(base.forest_key(css.classdb.get_label, css.classdb.is_empty))])
        except RuntimeError as e:
            if "Can't find a rule" not in str(e):
                raise
            failed = parse_failed(e)
        res["rules"] = out
        res["failed"] = failed
        res["db2"] = snapshot(css.classdb)
        return res
    finally:
        T.UNIVERSES.pop(uid, None)


_SCAN = None


def scan_mode():
    """0: _find_rule replays the classes of the key only (the code as it is); 1: it goes on with every
    other class in use (the repair proposed in findings/c11_find_rule_scan_all_classes.diff).  Decided by
    BEHAVIOUR: the real _find_rule is run on the smallest foreign-parent universe (Props/C11.v ff_T): a
    factory applied to class 0 yields the ready rule S0(1) -> (2); key (1, (2), (0), EQUIV)."""
    global _SCAN
    if _SCAN is None:
        from comb_spec_searcher.class_db import ClassDB
        from comb_spec_searcher.rule_db.forest import ForestRuleExtractor
        from comb_spec_searcher.typing import ForestRuleKey
        from harness.universes import table as T

        u = {"uid": "c11-probe-%d" % os.getpid(), "ncls": 3, "empty": [0, 0, 0], "start": 0,
             "strats": [{"kind": "S", "flags": [0, 1, 0, 1],
                         "apply": {"1": {"children": [2], "two_way": 0, "reversible": 0, "shifts": [0]}}},
                        {"kind": "F", "flags": [0, 1, 1, 1], "apply": {"0": [{"sid": 0, "on": 1, "lazy": 0}]}},
                        {"kind": "V", "flags": [0, 0, 0, 0],
                         "apply": {"2": {"children": [], "two_way": 0, "reversible": 0, "shifts": []}}}],
             "pack": {"initial": [1], "inferral": [], "expansion": [], "ver": [2], "sym": [], "iterative": 0}}
        uid = T.register(u)
        try:
            classdb = ClassDB(T.TClass)
            for c in range(3):
                classdb.get_label(T.TClass(uid, c))
            ex = ForestRuleExtractor.__new__(ForestRuleExtractor)
            ex.pack, ex.classdb, ex.root_label = T.make_pack(uid), classdb, 0
            try:
                ex._find_rule(ForestRuleKey(1, (2,), (0,), _buckets()[2]))  # pylint: disable=protected-access
                _SCAN = 1
            except RuntimeError:
                _SCAN = 0
        finally:
            T.UNIVERSES.pop(uid, None)
    return _SCAN


def parse_failed(e):
    """the key in RuntimeError("Can't find a rule for ForestRuleKey(...)")"""
    import re

    m = re.search(r"ForestRuleKey\(parent=(\d+), children=\(([^)]*)\), shifts=\(([^)]*)\), bucket=<RuleBucket\.(\w+)", str(e))
    ints = lambda t: [int(x) for x in t.replace(" ", "").split(",") if x]  # noqa: E731
    return [int(m.group(1)), ints(m.group(2)), ints(m.group(3)),
            ["REVERSE", "NORMAL", "EQUIV", "VERIFICATION"].index(m.group(4))]


def impl(case):
    r = run_real(case)
    if not r["found"]:
        r["out"] = [3, [], 0]       # no specification: what the extractor model answers on (0, no keys)
        return r
    c1, e1 = r["db1"]
    c2, e2 = r["db2"]
    # strict: rule identities and class databases (informational comparison in extra_checks);
    # out: what the property talks about - per key found / not found and the key of the returned rule,
    # the keys of the rules handed out (and which as equivalence rules), where rules() gives up
    r["strict"] = [0, r["per"], c1, e1, 0, r["rules"], r["failed"], c2, e2]
    r["out"] = observable(r["strict"])
    return r


def observable(strict):
    """from the full answer (also the model's, see canon_model) to the compared one"""
    st1, per, _c1, _e1, st2, rules, failed, _c2, _e2 = strict
    return [st1, [[p[0]] + ([p[5]] if p[0] == 0 else []) for p in per], st2, [[o[5], o[4]] for o in rules], failed]


def canon_model(mo):
    if isinstance(mo, list) and len(mo) == 9:
        return observable(mo)
    return mo


def encode_with(case, res):
    from harness.props.c04 import _enc_universe

    if not res.get("found"):
        return [0, []]      # no specification: the extractor model on the empty universe (answers 3, [], 0)
    empty, strats, ver, sym = _enc_universe(case["u"])
    c0, e0 = res["db0"]
    return [[1, scan_mode()], empty, strats, ver, sym, res["order"], c0, e0, res["cache"], res["needed"]]


# ----------------------------------------------------------------- oracle
def _entry(u, sid, parent):
    if sid < 0:
        return None
    return u["strats"][sid]["apply"].get(str(parent)) if u["strats"][sid]["kind"] != "F" else None


def expected_key(u, classes, empties, desc):
    """forest key of the rule with descriptor desc, recomputed from the table and the class database
    (labels: position in `classes`; emptiness: the cached value, else the table). None = some class has
    no label / the rule does not exist"""
    sid, parent, kind, var = desc

    def lab(c):
        return classes.index(c) if c in classes else None

    def emp(c):
        l = lab(c)
        if l is not None and empties[l] != -1:
            return bool(empties[l])
        return bool(u["empty"][c])

    if kind == 2:
        return [lab(parent), [], [], 3]
    e = _entry(u, sid, parent)
    if e is None:
        return None
    kids, sh = list(e["children"]), list(e["shifts"])
    if kind == 1:
        return [lab(parent), [lab(k) for k in kids], sh, 3]
    if var < 0:
        p, cs, shifts, normal = parent, kids, sh, True
    else:
        if var >= len(kids) or not e["reversible"]:
            return None
        ps = -sh[var]
        p, cs = kids[var], [parent] + kids[:var] + kids[var + 1:]
        shifts = [ps] + [s + ps for i, s in enumerate(sh) if i != var]
        normal = False
    n = sum(1 for c in cs if not emp(c))
    b = 2 if n == 1 else (1 if normal else 0)
    return [lab(p), [lab(c) for c in cs], shifts, b]


def candidates(u, order, classes, key):
    """descriptors of every candidate _find_rule may look at for the key (independent enumeration)"""
    from harness.props.c04 import yields

    out = []
    for l in [key[0]] + list(key[1]):
        if not 0 <= l < len(classes):
            continue
        c = classes[l]
        if u["empty"][c]:
            out.append([-1, c, 2, -1])
        for sid in order:
            for (s2, p) in yields(u, sid, c):
                kind = 1 if u["strats"][s2]["kind"] == "V" else 0
                e = _entry(u, s2, p)
                if e is None:
                    continue
                out.append([s2, p, kind, -1])
                if kind == 0 and e["reversible"]:
                    for i in range(len(e["children"])):
                        out.append([s2, p, 0, i])
    return out


def poisoned(res, labels):
    """during the search the emptiness cache of one of the labels was written with a value that contradicts
    the class, or with two different values (only a strategy that breaks its contract - possibly_empty=False
    with an empty child, a symmetry changing emptiness - makes the searcher do that: classdb.set_empty(child,
    False) in add_rule, set_empty(image, empty) in _symmetry_expand)"""
    return any(l in res.get("unstable", ()) for l in labels)


def table_honest(u):
    """does the table universe satisfy the two emptiness contracts of the strategies (possibly_empty=False strategies
    have no empty child; a symmetry's image is empty iff the class is)?  Decided by C04's predicates on the table."""
    from harness.props import c04

    return bool(c04.pe_contract(u) and c04.sym_contract(u))


def _why_not_found(u, res, classes, empties, rk):
    """_find_rule raised for the key rk: None = excused (the strategies broke their contract), else why"""
    near = False
    for d in candidates(u, res["order"], classes, rk):
        k = expected_key(u, classes, empties, d)
        if k == rk:
            return "_find_rule raised although the candidate %r has the key %r" % (d, rk)
        near = near or (k is not None and k[:3] == rk[:3])
    n0 = len(res["db0"][0])
    for l in range(n0):
        for d in candidates(u, res["order"], classes, [l, []]):
            k = expected_key(u, classes, empties, d)
            if k == rk:
                return KNOWN_FOREIGN + ": key %r is only re-created from class %d (label %d), outside the key" % (
                    rk, classes[l], l)
            near = near or (k is not None and k[:3] == rk[:3])
    if near and poisoned(res, [rk[0]] + list(rk[1])) and not table_honest(u):
        # the bucket was computed from an emptiness answer that was later overwritten (or was wrong):
        # hypothesis `grows` of C11_find_rule_total fails, through the table's fault (no contract).
        # The cache-write evidence alone is NOT an excuse: the table must really break the contract that makes the
        # searcher write such a value (pe_contract / sym_contract of Searcher/Contracts.v, decided on the table); on an
        # honest table a contradictory cache write is the searcher's own doing and the not-found stands
        return None
    return "_find_rule raised for the key %r which no class of the database re-creates" % (rk,)


def oracle(case, res):
    if "exception" in res:
        return "implementation raised " + res["exception"]
    if not res.get("found"):
        return None
    if not res.get("check"):
        return "the extractor's own check() failed (AssertionError)"
    # clauses 1-6 on the LIVE universe: subset of the inserted keys / productive / minimal / one rule per class /
    # closed / no bucket-REVERSE key when the others suffice, decided by the Kleene iteration on
    # table_method._rules of this search (the same judgement the abstract key cases get)
    if res.get("live_keys") is not None:
        from harness.props import c11

        why = c11.key_oracle(res["live_keys"], res["live_root"], live_needed(res))
        if why:
            return "live search, %d keys in table_method._rules, root label %d: %s" % (
                len(res["live_keys"]), res["live_root"], why)
    u = case["u"]
    classes, empties = res["db2"]
    needed = res["needed"]
    for rk, per, got in zip(needed, res["per"], res["got"]):
        if per[0] == 1:
            why = _why_not_found(u, res, classes, empties, rk)
            if why:
                return why
            continue
        if got != rk:
            return "_find_rule(%r) returned a rule whose forest_key is %r" % (rk, got)
        exp = expected_key(u, classes, empties, per[1:5])
        if exp != rk:
            return "_find_rule(%r) returned the rule %r whose key (from the table) is %r" % (rk, per[1:5], exp)
    # rules(): every rule handed out carries the key it was picked for, in order; the rules of
    # EmptyStrategy are dropped; it gives up exactly at the first key nobody can re-create
    cached = {}
    for d in res["cache"]:
        cached[str(expected_key(u, classes, empties, d))] = d
    exp, failed = [], []
    for rk, per in zip(needed, res["per"]):
        d = cached.get(str(rk), per[1:5] if per[0] == 0 else None)
        if d is None:
            failed = rk
            break
        if d[2] != 2:
            exp.append(rk)
    out = res["rules"]
    if res["failed"] != failed:
        return "rules() gave up at %r, expected %r" % (res["failed"], failed)
    if len(out) != len(exp):
        return "rules() yielded %d rules for the keys %r" % (len(out), exp)
    for o, rk in zip(out, exp):
        if o[5] != rk:
            return "rules() handed out for the key %r a rule whose forest_key is %r" % (rk, o[5])
        k = expected_key(u, classes, empties, o[:4])
        if k != rk:
            return "rules() handed out for the key %r the rule %r whose key (from the table) is %r" % (rk, o[:4], k)
        if o[4] != int(rk[3] == 2 and len(rk[1]) > 1):
            return "rules(): the rule for %r handed out with as_equivalence=%d" % (rk, o[4])
    return None


def live_needed(res):
    """needed_rules of the real extractor in the encoding of the abstract key cases"""
    return [[k[0], [[c, sh] for c, sh in zip(k[1], k[2])], k[3]] for k in res["needed"]]


# live key sets (main process, filled by classify): the extractor MODEL run_c11 is run on them in extra_checks
LIVE = []
LIVE_MAX = 4000
LIVE_STATS = {"sets": 0, "keys": 0, "max": 0, "min": None, "bucket": [0, 0, 0, 0], "needed": 0, "needed_bucket": [0, 0, 0, 0],
              "sizes": {"<=10": 0, "11-25": 0, "26-50": 0, "51-100": 0, ">100": 0}, "rev": 0, "dropped": 0}


def _live_tally(case, res):
    if res.get("live_keys") is None or "needed" not in res:
        return
    st = LIVE_STATS
    ks = res["live_keys"]
    st["sets"] += 1
    st["keys"] += len(ks)
    st["max"] = max(st["max"], len(ks))
    st["min"] = len(ks) if st["min"] is None else min(st["min"], len(ks))
    st["rev"] += int(bool(case.get("rev")))
    n = len(ks)
    st["sizes"]["<=10" if n <= 10 else "11-25" if n <= 25 else "26-50" if n <= 50 else "51-100" if n <= 100 else ">100"] += 1
    for k in ks:
        st["bucket"][k[2]] += 1
    nd = live_needed(res)
    st["needed"] += len(nd)
    for k in nd:
        st["needed_bucket"][k[2]] += 1
    if len(LIVE) < LIVE_MAX:
        LIVE.append((res["live_root"], ks, nd, int(bool(res.get("check")))))
    else:
        st["dropped"] += 1


def live_model_check(full):
    """ONE extra call of the extracted extractor model run_c11 per live search that found a specification, on
    (root label, table_method._rules of the search) - the input format of the abstract key cases - and its
    needed_rules compared, as a list, with ForestRuleExtractor(...).needed_rules of the real run.  Ties the model
    C11_subset / _productive / _minimal / _closed_total / _one_rule_per_class / _all_classes_pump / _reverse_last_total
    speak about to LIVE key sets.  Returns a list of (name, ok, detail)."""
    import multiprocessing as mp

    from harness import core

    st = LIVE_STATS
    binary = os.path.join(core.WORK, "C11", "ocaml", "model")
    names = ["REVERSE", "NORMAL", "EQUIV", "VERIFICATION"]
    mix = lambda b: ", ".join("%s %d" % (n, v) for n, v in zip(names, b))  # noqa: E731
    cov = ("%d live key sets = table_method._rules of real RuleDBForest searches that found a specification (reverse=True: "
           "%d): %d keys, %s-%d per set, mean %.1f, by size %s; buckets of the universes: %s; real needed_rules: %d keys, "
           "mean %.1f per set, buckets: %s"
           % (st["sets"], st["rev"], st["keys"], st["min"], st["max"], st["keys"] / max(1, st["sets"]),
              ", ".join("%s: %d" % kv for kv in st["sizes"].items()),
              mix(st["bucket"]), st["needed"], st["needed"] / max(1, st["sets"]), mix(st["needed_bucket"])))
    if not os.path.exists(binary):
        return [("extractor model run_c11 on the live key sets", not full, "model binary MISSING; " + cov)]
    if not LIVE:
        return [("extractor model run_c11 on the live key sets", not full, "no live key set; " + cov)]
    enc = [[root, ks] for root, ks, _nd, _chk in LIVE]
    with mp.get_context("fork").Pool(core.NCPU) as pool:
        mo = core.run_model(binary, enc, pool)
    bad = []
    for (root, ks, nd, chk), m in zip(LIVE, mo):
        real = [0, nd, chk]
        if isinstance(m, dict) or core.canon(m) != core.canon(real):
            bad.append((root, ks, real, m))
    out = []
    if bad:
        root, ks, real, m = min(bad, key=lambda b: len(b[1]))
        # the same (root, keys) is an abstract key case of this check: replayable with ./check C11 --replay
        path = core.write_replay("C11", "live-key-set", {"case": {"root": root, "keys": ks}, "impl_out": real, "model_out": m,
                                                         "what": "extractor model vs real needed_rules on a live key set"})
        out.append(("extractor model run_c11 vs ForestRuleExtractor.needed_rules on LIVE key sets: %d of %d differ"
                    % (len(bad), len(LIVE)), False,
                    "failing input: root=%d keys=%r (%s): the real extractor of the search gives [status, needed_rules, check] "
                    "= %r, the extracted model %r" % (root, ks, path, real, m)))
    else:
        out.append(("extractor model run_c11 vs ForestRuleExtractor.needed_rules on LIVE key sets: all %d agree (as lists)"
                    % len(LIVE), True, cov + ("; %d further sets not kept (cap %d)" % (st["dropped"], LIVE_MAX) if st["dropped"] else "")))
    # coverage floors of a full run
    ok = (not full) or (st["sets"] >= 500 and st["bucket"][0] >= 500 and st["needed_bucket"][0] >= 10 and st["max"] >= 30)
    out.append(("live key sets: coverage (>= 500 sets, >= 500 bucket-REVERSE keys, >= 10 needed REVERSE keys, a set of >= 30 keys)",
                ok, cov))
    return out


def finding_match(case, why):
    if why and why.startswith(KNOWN_FOREIGN):
        return "find-rule-foreign-parent-outside-key"
    return None


def collisions(case, res):
    """needed keys for which another candidate has the same parent and children but another key"""
    u = case["u"]
    classes, empties = res["db2"]
    n = 0
    for rk in res["needed"]:
        for d in candidates(u, res["order"], classes, rk):
            k = expected_key(u, classes, empties, d)
            if k is not None and k[0] == rk[0] and k[1] == rk[1] and k != rk:
                n += 1
                break
    return n


def nontrivial(case, res):
    return bool(res.get("found")) and len(res.get("needed") or []) >= 2


def classify(case, res):
    tags = ["search"]
    _live_tally(case, res)          # (main process)
    if not res.get("found"):
        return tags + ["search:died" if res.get("died") else "search:no_spec"]
    per = res.get("per", [])
    tags.append("search:needed=%d" % min(len(per), 8))
    if any(p[0] == 1 for p in per):
        tags.append("search:not_found")
        if any(p[0] == 1 and poisoned(res, [k[0]] + list(k[1])) for k, p in zip(res["needed"], per)):
            tags.append("search:not_found_poisoned_cache")
    if any(p[0] == 0 and p[4] >= 0 for p in per):
        tags.append("search:reverse_rule_returned")
    if any(p[0] == 0 and p[3] == 2 for p in per):
        tags.append("search:empty_rule")
    if res.get("db1") != res.get("db0"):
        tags.append("search:find_rule_changed_classdb")
    if any(o[4] for o in res.get("rules", [])):
        tags.append("search:equivalence_rule_handed_out")
    if res.get("cache"):
        tags.append("search:cache")
    if collisions(case, res):
        tags.append("search:collision")
    return tags


# ----------------------------------------------------------------- generator
def gen_case(rng):
    from harness.props.c04 import gen_universe

    u = gen_universe(rng)
    n = u["ncls"]
    plain = [i for i, st in enumerate(u["strats"]) if st["kind"] != "F"]
    # twins: the entry of one strategy copied to another strategy for the same class with other
    # shifts (same parent, same children, another key) - what a (parent, children) match confuses
    for _ in range(rng.choice([0, 0, 1, 2])):
        ss = [i for i in plain if u["strats"][i]["kind"] == "S" and u["strats"][i]["apply"]]
        if len(ss) < 2:
            break
        a, b = rng.sample(ss, 2)
        c = rng.choice(sorted(u["strats"][a]["apply"]))
        e = copy.deepcopy(u["strats"][a]["apply"][c])
        e["shifts"] = [rng.choice([0, 1, 1, 2]) for _ in e["children"]]
        if u["strats"][b]["flags"][2] or not any(u["empty"][k] for k in e["children"]):
            u["strats"][b]["apply"][c] = e
    cache = []
    for _ in range(rng.choice([0, 0, 1, 2, 3])):
        if rng.random() < 0.5:
            cache.append(["found", rng.randrange(8)])
        elif plain:
            sid = rng.choice(plain)
            kind = 1 if u["strats"][sid]["kind"] == "V" else 0
            cache.append([sid, rng.randrange(n), kind, -1 if kind or rng.random() < 0.6 else rng.randrange(3)])
    return {"kind": "search", "u": u, "rev": rng.randint(0, 1), "comp": rng.randint(0, 1), "cache": cache,
            "levels": 30, "extra": rng.choice([0, 0, 0, 0, 1, 2, 4])}


def shrink(case):
    u = case["u"]
    if case.get("cache"):
        yield dict(case, cache=[])
    for sid, st in enumerate(u["strats"]):
        for c in list(st["apply"]):
            v = copy.deepcopy(u)
            del v["strats"][sid]["apply"][c]
            yield dict(case, u=v)
            if st["kind"] == "F" and len(st["apply"][c]) > 1:
                for i in range(len(st["apply"][c])):
                    v = copy.deepcopy(u)
                    del v["strats"][sid]["apply"][c][i]
                    yield dict(case, u=v)


def strict_agreement(cases, impl_res):
    """informational: on the retained search cases, does the model also return the SAME rule object
    (strategy, parent, kind, reverse index) and leave the SAME class database (labels allocated by
    get_label, emptiness cache filled by is_empty) as the real _find_rule / rules()?  A refactoring that
    enumerates the candidates in another order may change both without touching the property, so this is
    reported, not enforced."""
    from harness import core

    binary = os.path.join(core.WORK, "C11", "ocaml", "model")
    sel = [(c, r[0]) for c, r in zip(cases, impl_res)
           if c.get("kind") == "search" and isinstance(r[0], dict) and r[0].get("strict")]
    sel = sel[:400]
    # the AGREEMENT count stays informational (see above); what can fail is the COVERAGE: a full run must have
    # compared at least 100 found searches, else the figure reported in the evidence is about nothing
    full = len(cases) >= 5000
    if not sel or not os.path.exists(binary):
        return ("strict agreement of the _find_rule model (rule identity, class database): sample of >= 100 found searches",
                not full, "no sample (%d retained cases, model binary %s)"
                % (len(cases), "present" if os.path.exists(binary) else "MISSING"))
    mo = core.run_model(binary, [encode_with(c, r) for c, r in sel])
    same = sum(1 for (c, r), m in zip(sel, mo) if core.canon(m) == core.canon(r["strict"]))
    return ("strict agreement of the _find_rule model (rule identity, class database): %d of %d search cases "
            "(agreement informational; required: a sample of >= 100 found searches)"
            % (same, len(sel)), (not full) or len(sel) >= 100, "%d/%d" % (same, len(sel)))


# ----------------------------------------------------------------- real (word) universes, tabulated
def tabulate(css):
    """The strategy table of a REAL search: classes = the labelled classes (id = label) plus the children
    of the rules the pack yields on them (fresh ids); one table strategy per strategy of the pack, in
    StrategyPack.__iter__ order; entries = what strategy(class) really returns (children, shifts,
    is_two_way, is_reversible); a factory becomes a table factory whose items are what it really yields on
    every labelled class (strategies: hidden table strategies, `on` = None; ready rules: `on` = their parent)."""
    from comb_spec_searcher.exception import StrategyDoesNotApply
    from comb_spec_searcher.strategies.strategy import StrategyFactory, SymmetryStrategy, VerificationStrategy

    classdb = css.classdb
    n = len(classdb.comb_class_list)
    labelled = [classdb.get_class(i) for i in range(n)]
    ids = {c: i for i, c in enumerate(labelled)}
    allc = list(labelled)

    def cid(c):
        if c not in ids:
            ids[c] = len(allc)
            allc.append(c)
        return ids[c]

    from comb_spec_searcher.strategies.rule import AbstractRule

    pack = list(css.strategy_pack)
    strats = [None] * len(pack)
    hidden = []            # strategies only factories yield: table strategies after those of the pack

    def kind_of(strat):
        return "V" if isinstance(strat, VerificationStrategy) else ("Y" if isinstance(strat, SymmetryStrategy) else "S")

    def entry_of(rule):
        return {"children": [cid(k) for k in rule.children], "two_way": int(bool(rule.is_two_way())),
                "reversible": int(bool(rule.is_reversible())), "shifts": list(rule.shifts())}

    def hid(strat):
        for j, h in enumerate(hidden):
            if h == strat:
                return len(pack) + j
        hidden.append(strat)
        strats.append({"kind": kind_of(strat), "flags": [0, 0, 0, 0], "apply": {}})
        return len(pack) + len(hidden) - 1

    for sid, strat in enumerate(pack):
        if isinstance(strat, StrategyFactory):
            strats[sid] = {"kind": "F", "flags": [0, 1, 1, 1], "apply": {}}
            continue
        ap = {}
        for i, c in enumerate(labelled):
            try:
                ap[str(i)] = entry_of(strat(c))
            except StrategyDoesNotApply:
                continue
        strats[sid] = {"kind": kind_of(strat), "flags": [0, 0, 0, 0], "apply": ap}
    for sid, strat in enumerate(pack):
        if not isinstance(strat, StrategyFactory):
            continue
        for i, c in enumerate(labelled):
            items = []
            for x in strat(c):
                if isinstance(x, AbstractRule):
                    h = hid(x.strategy)
                    on = cid(x.comb_class)
                    lazy = int(getattr(x, "_children", 0) is None)
                    try:
                        strats[h]["apply"][str(on)] = entry_of(x)
                    except StrategyDoesNotApply:
                        pass
                    items.append({"sid": h, "on": on, "lazy": lazy})
                else:
                    h = hid(x)
                    try:
                        strats[h]["apply"][str(i)] = entry_of(x(c))
                    except StrategyDoesNotApply:
                        pass
                    items.append({"sid": h, "on": None, "lazy": 0})
            if items:
                strats[sid]["apply"][str(i)] = items
    u = {"ncls": len(allc), "empty": [int(bool(c.is_empty())) for c in allc], "start": ids[css.start_class],
         "strats": strats,
         "pack": {"initial": list(range(len(strats))), "inferral": [], "expansion": [], "ver": [], "sym": [],
                  "iterative": 0}}
    return u


def compare_real_search(css, ex, what):
    """real _find_rule / rules(()) of a search on a shipped universe against the model run on the tabulated
    universe; returns a list of (name, ok, detail)"""
    from harness import core
    from harness.props.c04 import _enc_universe

    binary = os.path.join(core.WORK, "C11", "ocaml", "model")
    u = tabulate(css)
    if u is None or not os.path.exists(binary):
        return []
    empties = [-1 if e is None else int(bool(e)) for e in css.classdb.empty_list]
    classes = list(range(len(empties)))
    needed = list(ex.needed_rules)
    empty, strats, ver, sym = _enc_universe(u)
    enc = [[1, scan_mode()], empty, strats, ver, sym, list(range(len(list(css.strategy_pack)))),
           list(range(len(classes))), empties, [], [enc_key(k) for k in needed]]
    per = []
    for rk in needed:
        try:
            rule = ex._find_rule(rk)  # pylint: disable=protected-access
            per.append([0, enc_key(rule.forest_key(css.classdb.get_label, css.classdb.is_empty))])
        except RuntimeError:
            per.append([1])
    out, failed = [], []
    try:
        for rule in ex.rules(()):
            _d, eqv = describe_any(rule)
            base = rule.original_rule if eqv else rule
            out.append([enc_key(base.forest_key(css.classdb.get_label, css.classdb.is_empty)), eqv])
    except RuntimeError as e:
        failed = parse_failed(e)
    real = [0, per, 0, out, failed]
    mo = core.run_model(binary, [enc])[0]
    if isinstance(mo, dict):
        return [("model on the tabulated universe %s" % what, False, "failing input: model died: %r" % mo)]
    model = observable(mo)
    if core.canon(model) != core.canon(real):
        return [("real _find_rule / rules() vs model on the tabulated universe %s" % what, False,
                 "failing input: %s: implementation %r, model %r" % (what, real, model))]
    return []


def describe_any(rule):
    from comb_spec_searcher.strategies.rule import EquivalenceRule

    return None, int(isinstance(rule, EquivalenceRule))
