"""C11 — forest extraction returns a minimal, closed, productive rule set."""
from harness.props import c11_find as FR
from harness.props.c03 import naive_lfp

ID = "C11"
TITLE = "forest extraction: subset, productive, minimal, one rule per class, closed, reverse rules last"
COQ_PROPS = "Props/C11.v"
COQ_RUN = ("Forest.FindRuleRun", "run_c11_all")   # = run_c11 on (root, keys) inputs (C11_harness_dispatch)
GEN_TARGETS = ["minimize_order"]   # Forest/GenBridgeExtractor.v
N = {"quick": 10000, "thorough": 100000}
RULE = (
    "integer universes: 2-25 forest keys over 1-9 labels, shifts in [-2,3], arity 0-3, random bucket "
    "(REVERSE/NORMAL/EQUIV/VERIFICATION) per key, biased so that the root pumps (verification leaves, "
    "positive cycles), duplicates of keys in different buckets; the real ForestRuleExtractor is built on a "
    "TableMethod fed with the keys (stub rule database) and its needed_rules list is compared, as a list, "
    "with the model; the oracle re-decides subset/productive/minimal/closed/one-rule-per-class/reverse-last "
    "with a naive Kleene iteration. Non-trivial: root pumps, at least 2 needed rules and at least one "
    "candidate rule discarded; distinct = distinct (root, key list). "
    "Every fifth case is a REAL SEARCH (harness/props/c11_find.py): a table universe of the C04 generator (2-10 integer "
    "classes, plain / verification / symmetry strategies and factories with eager, lazy and foreign-parent ready rules, "
    "three emptiness regimes), sometimes with a 'twin' entry (another strategy of the pack decomposing the same class "
    "into the same children with other shifts), searched by the real CombinatorialSpecificationSearcher with "
    "RuleDBForest(reverse=True/False), classes stored compressed or not, until the database reports a specification; "
    "then the real ForestRuleExtractor is built, every needed key goes through the real _find_rule and rules(cache) is "
    "consumed with a cache of 0-3 rule objects (rules _find_rule returned, and arbitrary rules of the table, normal and "
    "reverse). Compared with the model, per needed key: found / RuntimeError and the forest key of the returned rule "
    "(rule.forest_key(classdb.get_label, classdb.is_empty)); the forest keys of the rules rules() yields, in order, and "
    "which of them as equivalence rules; the key at which it gives up. WHICH rule object comes back (strategy, parent "
    "class, kind, reverse index) and the class database afterwards (labels allocated, emptiness cache filled) are "
    "compared too but only reported (extra check 'strict agreement'): a refactoring that enumerates the candidates in "
    "another order changes them without touching the property. The oracle recomputes the forest key of every returned "
    "rule from the table and holds it against the requested key. Non-trivial search case: a specification with at "
    "least 2 needed keys. Extra checks: the same comparison on the shipped word universes (example.py pack) and on the "
    "word universe of the open finding, tabulated as strategy tables from the real objects."
)
TRUSTED = [
    "modelled, not verified: rule_db/forest.py ForestRuleExtractor._sorted_stable_rules/_minimize/_minimize_key/"
    "_is_productive/check — Forest/Extractor.v tied by this correspondence (needed_rules compared as a list, on the generated "
    "key lists and on table_method._rules of every live search case that found a specification)",
    "modelled, not verified: ForestRuleExtractor._find_rule/_rules_for_class/rules() - Forest/FindRule.v over the "
    "strategy table and class database of the C04 searcher model, tied by the search cases of this correspondence "
    "(returned rule objects, yielded rules, class database compared exactly); user strategies are table strategies "
    "(harness/universes/table.py); the cache handed to rules() holds Rule/ReverseRule/VerificationRule objects only "
    "(EquivalenceRule/EquivalencePathRule cache entries are not modelled)",
    "the needed keys, the class database at extraction time and the pack order given to the model are read off the "
    "real objects (encode_with)",
]
ASSUMPTIONS = [
    "termination/totality are proved for the MODEL (C11_never_out_of_fuel, C11_total); the real extractor is tied to it by the "
    "correspondence only (a looping change of forest.py shows up as a case timeout, never as agreement: "
    "C11_harness_never_out_of_fuel)",
    "closedness and one-rule-per-class of the minimal set are theorems about the model (C11_closed_total, "
    "C11_one_rule_per_class); on the code they are also decided per instance by the oracle (abstract key cases and live key "
    "sets), and a failing self-check (AssertionError) is reported as a violation",
    "search cases: strategies are pure functions of the class (the table); the pack order given to the model is "
    "list(StrategyPack) of the real pack; a _find_rule failure is excused only when the table broke the strategy "
    "contracts on a label of the key (the emptiness cache of that label was written with a wrong or with two different "
    "values during the search); the failure 'key only re-created from a class outside the key' is the listed open finding",
]

BUCKETS = None


def _buckets():
    global BUCKETS
    if BUCKETS is None:
        from comb_spec_searcher.typing import RuleBucket

        BUCKETS = [RuleBucket.REVERSE, RuleBucket.NORMAL, RuleBucket.EQUIV, RuleBucket.VERIFICATION]
    return BUCKETS


def gen(rng, tier):
    keys = _gen_keys(rng, tier)
    while True:
        for _ in range(4):
            yield next(keys)
        yield FR.gen_case(rng)


def _gen_keys(rng, tier):
    while True:
        nlab = rng.randint(1, 9)
        labels = list(range(nlab))
        keys = []
        nk = rng.randint(2, 25)
        # some leaves
        for _ in range(rng.randint(1, 3)):
            keys.append([rng.choice(labels), [], 3])
        while len(keys) < nk:
            ar = rng.choice([1, 1, 2, 2, 3])
            p = rng.choice(labels)
            kids = [[rng.choice(labels), rng.choice([-2, -1, 0, 0, 1, 1, 1, 2, 3])] for _ in range(ar)]
            b = rng.choice([0, 1, 1, 1, 2])
            if b == 2:
                kids = kids[:1]
                kids[0][1] = 0
            keys.append([p, kids, b])
            if rng.random() < 0.1:
                keys.append([p, [list(k) for k in kids], rng.choice([0, 1])])
        rng.shuffle(keys)
        yield {"root": rng.choice(labels), "keys": keys}


def encode(case):
    return [case["root"], case["keys"]]


def canon_model(mo):
    """search cases: the model answers with rule identities and class databases as well; compared are, per
    key, found / not found and the forest key of the returned rule, the keys rules() hands out, where it stops"""
    return FR.canon_model(mo)


def encode_with(case, res):
    if case.get("kind") == "search":
        return FR.encode_with(case, res)
    return encode(case)


def _mk(keys):
    from comb_spec_searcher.typing import ForestRuleKey

    B = _buckets()
    return [ForestRuleKey(p, tuple(c for c, _ in kids), tuple(s for _, s in kids), B[b]) for p, kids, b in keys]


def _enc_key(fk):
    B = _buckets()
    return [fk.parent, [[c, s] for c, s in zip(fk.children, fk.shifts)], B.index(fk.bucket)]


class _StubDB:
    def __init__(self, tm):
        self.table_method = tm


def impl(case):
    if case.get("kind") == "search":
        return FR.impl(case)
    from comb_spec_searcher.rule_db.forest import ForestRuleExtractor, TableMethod

    tm = TableMethod()
    for fk in _mk(case["keys"]):
        tm.add_rule_key(fk)
    if not tm.is_pumping(case["root"]):
        return {"out": [3, [], 0], "needed": None}
    try:
        ex = ForestRuleExtractor(case["root"], _StubDB(tm), None, None)
    except RuntimeError as e:
        return {"out": [2, [], 0], "needed": None, "err": str(e)}
    needed = [_enc_key(k) for k in ex.needed_rules]
    try:
        ex.check()
        chk = 1
    except AssertionError:
        chk = 0
    return {"out": [0, needed, chk], "needed": needed, "check": chk}


def _pumps(keys, root):
    f = naive_lfp([[0, p, kids] for p, kids, _ in keys])
    return root in f and f[root] is None


def oracle(case, res):
    if case.get("kind") == "search":
        return FR.oracle(case, res)
    if "exception" in res:
        return "implementation raised " + res["exception"]
    keys, root = case["keys"], case["root"]
    if res["out"][0] == 2:
        return "extractor raised RuntimeError although the start class pumps"
    if res["needed"] is None:
        if _pumps(keys, root):
            return "table method says root does not pump but the least fixed point says it does"
        return None
    S = res["needed"]
    if not res["check"]:
        return "the extractor's own check() failed (AssertionError)"
    return key_oracle(keys, root, S)


def key_oracle(keys, root, S):
    """clauses 1-6 decided on a key list `keys` (inserted keys), the start label and the extracted list S, by the
    Kleene iteration; used for the abstract key cases and for the live key sets of the search cases"""
    pool = [k for k in keys]
    for k in S:
        if k not in pool:
            return "extracted key %r is not an inserted key (or used more often than inserted)" % (k,)
        pool.remove(k)
    if not _pumps(S, root):
        return "extracted rule set is not productive for the start class"
    for i in range(len(S)):
        if _pumps(S[:i] + S[i + 1:], root):
            return "extracted rule set is not minimal: key %r can be removed" % (S[i],)
    parents = [k[0] for k in S]
    if len(set(parents)) != len(parents):
        return "two extracted rules for one class"
    mentioned = set(parents) | {c for k in S for c, _ in k[1]}
    if mentioned - set(parents):
        return "classes %r are mentioned but have no rule" % sorted(mentioned - set(parents))
    if any(k[2] == 0 for k in S) and _pumps([k for k in keys if k[2] != 0], root):
        return "a REVERSE rule is used although a choice without reverse rules exists"
    return None


def finding_match(case, why):
    return FR.finding_match(case, why)


def nontrivial(case, res):
    if case.get("kind") == "search":
        return FR.nontrivial(case, res)
    return bool(res.get("needed")) and len(res["needed"]) >= 2 and len(res["needed"]) < len(case["keys"])


def key(case):
    if case.get("kind") == "search":
        import json

        return json.dumps([case["u"], case["rev"], case["comp"], case["cache"], case.get("extra", 0)], sort_keys=True)
    return str((case["root"], case["keys"]))


def classify(case, res):
    if case.get("kind") == "search":
        return FR.classify(case, res)
    tags = []
    if res.get("needed") is None:
        tags.append("root_not_pumping")
    else:
        tags.append("needed=%d" % min(len(res["needed"]), 6))
        if any(k[2] == 0 for k in res["needed"]):
            tags.append("uses_reverse")
    return tags


def shrink(case):
    if case.get("kind") == "search":
        yield from FR.shrink(case)
        return
    ks = case["keys"]
    for i in range(len(ks)):
        yield {"root": case["root"], "keys": ks[:i] + ks[i + 1:]}


def extra_checks(ctx):
    """Real RuleDBForest searches: every extracted key is turned back into a concrete rule with that key."""
    import logging
    import logzero
    logzero.loglevel(logging.ERROR)
    from example import AvoidingWithPrefix, pack
    from comb_spec_searcher import CombinatorialSpecificationSearcher
    from comb_spec_searcher.rule_db import RuleDBForest
    from comb_spec_searcher.rule_db.forest import ForestRuleExtractor

    res = []
    pats_list = [["ab"], ["aa", "bb"], ["bb"], ["aba"], ["a", "b"], ["abb", "ba"]]
    if ctx.tier == "thorough":
        pats_list += [["ababa", "babb"], ["aab"], ["abab"], ["aaa", "bbb"], ["ab", "ba"]]
    n = 0
    n_tab = 0
    for pats in pats_list:
        for reverse in (True, False):
            css = CombinatorialSpecificationSearcher(
                AvoidingWithPrefix("", pats, ["a", "b"]), pack, ruledb=RuleDBForest(reverse=reverse)
            )
            try:
                spec = css.auto_search()
            except Exception as e:  # pylint: disable=broad-except
                res.append(("forest search %r reverse=%s" % (pats, reverse), False, "raised %r" % e))
                continue
            ex = ForestRuleExtractor(css.start_label, css.ruledb, css.classdb, css.strategy_pack)
            ex.check()
            # the same search seen as a strategy table: the model of _find_rule / rules() must agree
            ex2 = ForestRuleExtractor(css.start_label, css.ruledb, css.classdb, css.strategy_pack)
            cmp_res = FR.compare_real_search(css, ex2, "%r reverse=%s" % (pats, reverse))
            res.extend(cmp_res)
            n_tab += 0 if cmp_res else 1
            keys = list(ex.needed_rules)
            for rk in keys:
                rule = ex._find_rule(rk)
                got = rule.forest_key(css.classdb.get_label, css.classdb.is_empty)
                n += 1
                if got != rk:
                    res.append(("find_rule %r" % (pats,), False, "failing input: key %r re-created as %r" % (rk, got)))
            cnt = [spec.count_objects_of_size(i) for i in range(8)]
            from itertools import product
            true = [sum(1 for w in product("ab", repeat=i) if not any(p in "".join(w) for p in pats)) for i in range(8)]
            if cnt != true:
                res.append(("forest spec counts %r" % (pats,), False, "failing input: %r vs %r" % (cnt, true)))
    # the word universe of the open finding (a factory yielding a rule with a foreign parent): implementation
    # and model must fail on the same key
    import importlib.util
    import os

    fpath = os.path.join(os.path.dirname(os.path.dirname(os.path.dirname(os.path.abspath(__file__)))),
                         "findings", "c11_find_rule_foreign_parent.py")
    if os.path.exists(fpath):
        sp = importlib.util.spec_from_file_location("c11_foreign_parent", fpath)
        ff = importlib.util.module_from_spec(sp)
        sp.loader.exec_module(ff)
        n_foreign = 0
        for reverse in (True, False):
            css = CombinatorialSpecificationSearcher(
                AvoidingWithPrefix("", ["aa", "bb"], ["a", "b"]), ff.pack(), ruledb=RuleDBForest(reverse=reverse)
            )
            from comb_spec_searcher.exception import NoMoreClassesToExpandError

            try:
                for _ in range(50):
                    if css.ruledb.has_specification():
                        break
                    css.do_level()
            except NoMoreClassesToExpandError:
                pass
            if not css.ruledb.has_specification():
                continue
            ex2 = ForestRuleExtractor(css.start_label, css.ruledb, css.classdb, css.strategy_pack)
            nf = 0
            for rk in list(ex2.needed_rules):
                try:
                    ex2._find_rule(rk)  # pylint: disable=protected-access
                except RuntimeError:
                    nf += 1
            ex3 = ForestRuleExtractor(css.start_label, css.ruledb, css.classdb, css.strategy_pack)
            cmp_res = FR.compare_real_search(css, ex3, "foreign-parent word pack reverse=%s" % reverse)
            res.extend(cmp_res)
            # the finding is FIXED (587ab8a): every extracted key of this universe must be re-created
            res.append(("foreign-parent word universe (finding fixed by 587ab8a), reverse=%s: %d key(s) not re-created, "
                        "model agrees: %s" % (reverse, nf, not cmp_res), nf == 0,
                        "%d not found%s" % (nf, "" if nf == 0 else " - failing input: findings/c11_find_rule_foreign_parent.py "
                                            "pack on words avoiding aa, bb, reverse=%s" % reverse)))
            n_foreign += 1
        # coverage: both searches of the fixed finding's universe must reach a specification (else nothing was replayed)
        res.append(("foreign-parent word universe: both searches (reverse=True/False) find a specification",
                    n_foreign == 2, "%d of 2" % n_foreign))
    # (mismatches / keys not re-created were appended above as failures; these two are COVERAGE requirements)
    res.append(("every extracted key of real forest searches is re-created by _find_rule: >= %d keys replayed"
                % (4 * len(pats_list)), n >= 4 * len(pats_list), "%d keys" % n))
    res.append(("model of _find_rule / rules() compared with the implementation on all %d shipped word searches "
                "(tabulated as strategy tables)" % (2 * len(pats_list)), n_tab == 2 * len(pats_list),
                "%d searches agree" % n_tab))
    from harness import gen_selftest

    res.append(FR.strict_agreement(ctx.cases, ctx.impl_res))
    res.extend(FR.live_model_check(len(ctx.cases) >= 5000))
    # the mode of the _find_rule model is chosen by probing the code under test (FR.scan_mode): the mode is a verdict
    mode = FR.scan_mode()
    res.append(("repair 587ab8a in force: ForestRuleExtractor._find_rule goes on with every other class in use when the "
                "classes of the key yield no such rule (the model runs scan mode %d)" % mode, mode == 1,
                "ok" if mode == 1 else "failing input: the smallest foreign-parent universe (Props/C11.v ff_T; "
                "harness/props/c11_find.py scan_mode): a factory applied to class 0 yields the ready rule 1 -> (2); "
                "_find_rule(ForestRuleKey(1, (2,), (0,), EQUIV)) raises RuntimeError although the key was handed out "
                "(C11_find_rule_total_with_repair no longer describes the code; the fixed finding returned)"))
    return res + [gen_selftest.rejects(_BAD_SNIPPETS)] + gen_selftest.checks(GEN_TARGETS, ctx.seed, ID)


# source texts outside the translator's subset / with a changed shape: each must be REJECTED (fail closed)
_BAD_SNIPPETS = [
    ("minimize_order", "class ForestRuleExtractor:\n    MINIMIZE_ORDER = (RuleBucket.REVERSE, RuleBucket.NORMAL, RuleBucket.UNDEFINED)\n",
     "a bucket the model does not number"),
    ("minimize_order", "class ForestRuleExtractor:\n    MINIMIZE_ORDER = tuple(RuleBucket)\n", "computed constant"),
    ("minimize_order", "class ForestRuleExtractor:\n    MINIMIZE_ORDER = (RuleBucket.REVERSE,)\n"
     "    MINIMIZE_ORDER = (RuleBucket.NORMAL,)\n", "assigned twice"),
    ("minimize_order", "class ForestRuleExtractor:\n    def __init__(self):\n        self.MINIMIZE_ORDER = ()\n", "no class-level constant"),
]


TECHNIQUE = "Coq proof (loop invariants of the minimisation over a proved-correct productivity test) + extracted-model/implementation correspondence"
LEVEL_TEXT = (
    "Theorems C11_* (Props/C11.v) prove for the model of ForestRuleExtractor._minimize, instantiated with the "
    "table-method productivity test whose meaning is given by C03: the extracted keys are inserted keys of the "
    "pumping sub-universe; the start class pumps w.r.t. the extracted keys alone, and so does EVERY class mentioned "
    "by an extracted key, as parent or child (C11_all_classes_pump: a key mentioning a class that does not pump could be "
    "dropped, contradicting minimality; closedness is its corollary); removing any single extracted key "
    "makes it stop pumping (minimal); no REVERSE key is used when the other buckets suffice; and the extracted keys "
    "have pairwise distinct left-hand sides (C11_one_rule_per_class: the assertion in check() cannot fail). The last "
    "one follows from C11_minimal_one_rule_per_class, proved for ANY key list (Forest/Positional.v, memoryless "
    "determinacy of the derivability game: of two keys for one class one is redundant, C11_positional). "
    "With C03's termination theorem the classical step disappears: C11_minimal_one_rule_per_class_total and "
    "C11_one_rule_per_class_total are closed under the global context. TOTAL: every productivity test runs a fresh "
    "table-method model with the fuel proved sufficient by C03's termination theorem, so the model never runs out of fuel "
    "(C11_never_out_of_fuel), its fuel argument is irrelevant (C11_fuel_irrelevant), and whenever the start class pumps it "
    "returns a rule set - neither OutOfFuel nor 'Not pumping after adding all rules' (C11_total); C11_total_correct states "
    "subset/productive/minimal/closed with no fuel and no 'the run returned' hypothesis (C11_closed_total discharges the "
    "run that check() performs). The model is tied to forest.py by comparing needed_rules as a list. "
    "C11_reverse_last_total restates the reverse-rules-last theorem with the table method run by run_total (fuel bound "
    "of C03), so its hypothesis is satisfiable for every fuel argument. "
    "KEY -> RULE: Forest/FindRule.v models _rules_for_class, _find_rule and rules() over the strategy table and the "
    "class database of the C04 searcher model, a key being the EvKey event the model of RuleDBForest.add emits "
    "(C11_add_keys_is_forest_add). Proved (Forest/FindRuleProofs.v): whatever _find_rule returns was re-created by the "
    "pack from a class of the key and its forest key - parent, children, shifts and bucket -, evaluated again in the "
    "state _find_rule leaves, IS the requested key (C11_find_rule_sound); a key inserted for a rule r is turned back "
    "into a rule with the same key in every later state in which classdb.is_empty still answers the same, whenever the "
    "pack re-creates r from the parent or a child of the key (C11_find_rule_total) - always when it re-creates it from "
    "r's own parent, i.e. for every rule of a plain/verification/symmetry strategy, every strategy a factory yields as "
    "such and every ready rule a factory yields for the class it is applied to (C11_find_rule_total_own_parent, "
    "C11_rule_parent_plain, C11_rule_parent_item); RuntimeError('Can't find a rule') means exactly that no candidate "
    "re-created from a replayed class has the key (C11_find_rule_not_found); _find_rule raises nothing else "
    "(C11_find_rule_no_exception); rules(cache) answers every key it gets past with a rule that has that key, in order "
    "(C11_rules_served); with the repair proposed for the open finding the failing case disappears "
    "(C11_find_rule_total_with_repair)."
)
LEVEL_NOTE = (
    "C11_one_rule_per_class, C11_minimal_one_rule_per_class and C11_positional are closed under the global context "
    "(they are proved through the total variants: C03 termination decides how many terms a class has in a key "
    "list, which is what the earlier classical proof used excluded middle for); the core "
    "(Positional.split_derivable) is axiom free, and so are C11_minimal_one_rule_per_class_valued and "
    "C11_one_rule_per_class_runs, which take that comparison as a hypothesis, and - using C03 termination - the _total "
    "versions of the same statements. C11_closed takes the table-method run of check() as a hypothesis; C11_closed_total "
    "does not. C11_one_rule_per_class_partial (soundness of the code's own "
    "check()) is kept. Closedness and one-rule-per-class are also decided per instance by the oracle. The _find_rule "
    "theorems are about the model (Forest/FindRule.v); they assume a usable state (well-formed class database, no "
    "exception so far), labels of the key in use, and - for totality - the hypothesis `grows` (same is_empty answers at "
    "insertion and extraction: C11_view_grows_under_contracts gives it from truthful caches, i.e. under the strategy "
    "contracts of C04; C11_find_rule_needs_same_emptiness shows it is needed). The one failing case that honest "
    "strategies can reach - a factory's ready rule with a foreign parent produced only from classes outside the key - "
    "is the OPEN finding find-rule-foreign-parent-outside-key (reachable with a realistic word pack: "
    "findings/c11_find_rule_foreign_parent.py). The model follows the code as it is; it also carries the proposed "
    "repair (search_labels scan=true) and the harness selects it by probing the real _find_rule on the smallest "
    "foreign-parent universe, so the check stays quiet with findings/c11_find_rule_scan_all_classes.diff applied. "
    "Termination is a theorem about the model (C03 layer A table method inside the "
    "extractor model); the real code's termination follows only through the correspondence."
)


# translator tie (DESIGN.md 10.9): what the regenerated definitions add to the level
LEVEL_NOTE += (
    " The bucket order ForestRuleExtractor.MINIMIZE_ORDER is RE-TRANSLATED from forest.py on every run (buckets numbered as in the model and the harness) and the model's `minimize` is proved to be the loop `for key in MINIMIZE_ORDER: _minimize_key(key)` over that constant (C11_minimize_order_is_source; Forest/GenBridgeExtractor.v)."
)

# strengthening of the oracles (CLAUSES.md G.1 item 10)
RULE += (
    " Extra checks that can fail: every extracted key of the foreign-parent word universe (finding fixed by 587ab8a) must be re-created; the strict-agreement comparison must have a sample of >= 100 found searches; a _find_rule failure is excused as cache poisoning only if the TABLE really breaks pe_contract / sym_contract (C04's predicates), not on cache-write evidence alone."
)

# live key sets (CLAUSES.md G.1 item 3, cheap first step)
RULE += (
    " LIVE KEY SETS: for every search case that found a specification, css.ruledb.table_method._rules (every key RuleDBForest.add "
    "handed over during the search, insertion order, all buckets, duplicates kept) and the root label are (a) judged by the same "
    "Kleene-iteration oracle as the abstract key cases against the real extractor's needed_rules (subset / productive / minimal / "
    "one rule per class / closed / no bucket-REVERSE key when the others suffice) - a failure is a violation with the search case "
    "as replay - and (b) sent, in the encoding of the abstract key cases (_enc_key), through ONE extra call of the extracted "
    "extractor model run_c11 whose [status, needed_rules, check] must equal the real extractor's as a list (extra check; a "
    "difference is reported with the (root, keys) pair written as a replayable abstract case). Number of sets, sizes and bucket "
    "mix are in the evidence (floors on a full run: >= 500 sets, >= 500 bucket-REVERSE keys, a set of >= 30 keys)."
)
LEVEL_NOTE += (
    " The extractor model the theorems C11_subset / _productive / _minimal / _closed_total / _one_rule_per_class / "
    "_all_classes_pump / _reverse_last_total speak about is tied to the code on generated key lists AND on live ones: for every "
    "real RuleDBForest search of this check that found a specification the extracted run_c11 is run on "
    "table_method._rules of that search and must return the real ForestRuleExtractor's needed_rules, as a list (live universes "
    "contain what the abstract generator never produces: EQUIV keys with several children and non-zero shifts, VERIFICATION keys "
    "with children, self-loops, the same key several times, up to ~80 keys). Still not a theorem: that these keys are what "
    "add_keys of the searcher model emits (no EvKey -> bkey conversion); the (B) half (_find_rule) still receives the needed keys "
    "read off the real extractor."
)

