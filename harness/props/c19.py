"""C19 — expanding verified classes preserves the enumeration and finishes the job."""
import contextlib
import json
import os
import random

from harness.props.c02 import _spec_keys
from harness.props.c03 import naive_lfp
from harness.universes import words_c19 as U
from harness.universes import words_ext as W

ID = "C19"
TITLE = "expand_verified: same enumeration, valid, nothing left to expand, fresh rule objects, original untouched"
COQ_PROPS = "Props/C19.v"
COQ_RUN = ("Expand.Run", "run_c19")
GEN_TARGETS = []
N = {"quick": 5000, "thorough": 40000}
CASE_CPU_SECONDS = 20
MAX_CALLS = 30   # calls of expand_comb_class granted to one expand_verified (the universes need at most 8)
NMAX = 8        # counts compared for n <= NMAX
NOBJ = 5        # objects / samples compared for n <= NOBJ
FUEL = 40       # rounds of the expand_verified loop granted to the model

KNOWN_SHALLOW = "expand-copies-share-caches-with-original"
RULE = (
    "real specifications from real searches over word universes (harness/universes/words_c19.py: 23 start classes x 12 "
    "searching packs incl. symmetries, inferral on redundant pattern sets, one-way unary rules, factories, multi-letter "
    "expansion x RuleDB / RuleDBForgetStrategy / RuleDBForest with and without reverse rules) whose packs carry a TABLE of "
    "verification entries: 1-4 verified classes per specification (the root itself in ~40% of the cases), each supplying "
    "a pack (13 flavours), no pack, or a pack that itself verifies classes with a pack of a lower level (nested, up to 3 "
    "levels); directed streams: a verified class right behind an inferral step / specifications with equivalence paths "
    "(the 4.2.1 bug), and packs that give the class no rule of its own so that the reverse-free expansion fails and the "
    "class is specified by the REVERSE of a product (Quotient) or of a disjoint union (Complement) made by the retry. "
    "The inner searches' time slicing (how many work packets between two looks for a specification — it decides WHICH "
    "specification a search returns) is a case parameter: a scripted clock replaces `time` inside comb_spec_searcher.py "
    "while expand_verified runs (batch = 0, 3, 10, 30, 100 packets), so every case is deterministic. "
    "The real expand_verified runs with its public entry points wrapped (expand_comb_class: class, flags, outcome; the "
    "specification constructor: the rules the inner search handed back; RuleDBForest: the seeded copies); the recorded "
    "answers are replayed into the extracted model, which must reproduce the sequence of expanded classes with their "
    "reverse/retry flags, the final class -> (form, children, path members) map, who owns the sub-recurrences of "
    "original and result, and which rule objects / inner objects / caches of the result are objects of the original. "
    "Oracle (model-independent): same root; counts of the result = counts of the original = brute force for n <= 8, same "
    "objects for n <= 5; result closed, keyed, every class pumping under a naive least fixed point over (parent, "
    "children, shifts); no VerificationRule of the result has pack(); new reverse rules only from retry calls; no rule "
    "object (top level or path member) shared; the original afterwards == its JSON snapshot, same rules_dict (keys, "
    "order, objects), sub-recurrences still its own, same counts / objects / seeded samples as an independent twin; "
    "when expand_verified raises SpecificationNotFound an independent forest search over the same universe must not "
    "find a specification. Non-trivial: expand_verified returned after >= 1 round with >= 4 rules; distinct = distinct case."
)
TRUSTED = [
    "modelled, not verified: specification.py (expand_verified, unexpanded_verified_classes, expand_comb_class, __init__, "
    "_ungroup_equiv_path, _group_equiv_in_path, _is_valid_spec, _set_subrules, get_rule) — hand-written Gallina model "
    "Expand/Model.v tied to the code by this correspondence",
    "the inner search (CombinatorialSpecificationSearcher._auto_search_rules, try_verify, RuleDBForest with its rule cache, "
    "ForestRuleExtractor.rules/_find_rule) is NOT modelled here: its answers are replayed into the model and universally "
    "quantified in the theorems; what those answers satisfy is C03/C04/C11 (productive, minimal, rules of the strategies) "
    "and is re-decided per instance by the oracle (validity and productivity of every result, origin of reverse rules)",
    "the observation layer: wrappers around CombinatorialSpecification.expand_comb_class / __init__ and RuleDBForest.__init__, "
    "conversion of rule objects into descriptors (harness/props/c19.py), id()-based object numbering",
    "the scripted clock (harness/props/c19.py ScriptedClock) that stands for the `time` module inside "
    "comb_spec_searcher/comb_spec_searcher.py while expand_verified runs",
    "what the copies made by expand_comb_class share with the original is modelled by hand: mode deep=true = "
    "specification._detached_copy (the code since fix 58ed6bb; the mode the harness runs and compares, per case, with the "
    "`is`-identities observed on the implementation), mode deep=false = plain copy.copy (the code before 58ed6bb; kept only "
    "as the witness of C19_no_shared_state_refuted, no case runs it)",
]
ASSUMPTIONS = [
    "termination of the loop is the documented contract of VerificationStrategy.pack ('the pack is assumed to produce a "
    "finite universe' whose verification strategies are simpler): the model has fuel and the theorems speak about runs that "
    "return; the harness bounds the number of expand_comb_class calls (30) and treats more as a failure",
    "C19_same_enumeration assumes, as C01 does, that rules are genuine (C09) and local (C10) — for the rules of the original "
    "and for the rules the packs' searches make (strategy contract, C04) — and that original and result are productive at "
    "the root (C02/C11); it PROVES that the result then inherits goodness of every rule, is keyed, has the same root, and "
    "that both evaluate to the true table.  Productivity and validity of every real result are decided by the oracle",
    "C19_reverse_rules_origin assumes the reverse-free searches make no reverse rule (RuleDBForest.add with reverse=False); "
    "checked per instance by the oracle",
    "Expand/EvalSpec.v re-proves Spec/Eval.v's eval_correct under a hypothesis restricted to the rules of the "
    "specification (the unrestricted op_neg of the shared file was unsatisfiable; reported and repaired upstream)",
]
TECHNIQUE = (
    "Coq proof over an executable store-passing model with rule-object identities (invariants of the expand_verified loop "
    "for every sequence of inner-search answers; corollary of the C01 evaluation theorem) + replayed correspondence of the "
    "extracted model with the real expand_verified + independent oracle on real specifications"
)
LEVEL_TEXT = (
    "Proved for every specification, every empty-class oracle and EVERY sequence of answers of the inner searches "
    "(Props/C19.v, all closed under the global context): C19_same_enumeration (original and result both evaluate to the true "
    "table of the same root when rules are genuine+local and both are productive; the result's rules are then all good: "
    "they are copies of rules of the original, rules made by the packs' searches, or empty rules — C19_rules_preserved, for "
    "any identity-independent property); C19_no_expandable_left (on return no rule is a verification rule offering a pack); "
    "C19_fresh_objects (no rule object of the result — plain, path, path member — is an object the original mentions) with "
    "C19_inner_objects_and_caches (inner original_rule objects and caches are new or, shallow copy only, those of the "
    "original), C19_no_shared_state_refuted (a shallow copy.copy - the code BEFORE fix 58ed6bb - does share caches and inner "
    "objects: witness runs; historic, no case exercises it) and C19_detached_copy_shares_nothing (the code as it is); C19_original_untouched (for every outcome, also failures: set_subrecs never "
    "rebinds a rule of the original); C19_result_valid (same root, closed, one rule per class keyed by its class, rules "
    "bound to the result — enforced by the constructor for every answer); C19_nothing_to_expand (no round: the same "
    "specification is returned); C19_reverse_only_after_failure (reverse=True is used exactly in rounds whose reverse-free "
    "call raised SpecificationNotFound) and C19_reverse_rules_origin. The model is compared with the real expand_verified on "
    "every case; the oracle decides the property itself on the implementation."
)
LEVEL_NOTE = (
    "Not proved: termination of the loop (documented contract of pack(); fuel in the model, call bound in the harness); that "
    "the inner search's answer is productive/genuine is C11/C04/C09's business and enters C19_same_enumeration as hypotheses "
    "(re-decided per real result by the oracle); the inner search itself is replayed, not modelled. FIXED FINDING (known_findings: "
    "expand-copies-share-caches-with-original, fix 58ed6bb): expand_comb_class used copy.copy, a shallow copy, so the expanded "
    "specification's rules shared terms_cache/objects_cache and inner original_rule objects with the original and the "
    "original's observable behaviour (raising vs answering, order of generated objects) depended on whether the expanded "
    "specification was used (findings/c19_shared_caches.py, findings/c19_detached_copy.diff). /repo now seeds "
    "specification._detached_copy; the model runs in mode deep=true on every case and the oracle REQUIRES that no wrapped "
    "rule object and no cache of the result is an object of the original, so a return to shallow copies is reported "
    "(model/implementation mismatch and failing input) whether or not it is observable through counts. SECOND FIXED FINDING "
    "(retry-expands-empty-classes, fix efd250e): expand_comb_class replaced the searcher's queue AFTER seeding, losing the "
    "'stop yielding' marks of empty classes; the retry (continue_expanding_verified=True) then applied the pack's strategies "
    "to empty classes and the reverse of such a rule is false (findings/c19_retry_expands_empty_classes.py, "
    "findings/c19_queue_before_seeding.diff); /repo now creates the queue before seeding. That defect lay in the part of the "
    "run the model does not contain (the inner search: its answer violates the genuineness hypothesis of "
    "C19_same_enumeration); the oracle still looks for it (a failure of the result AND an empty class observed being expanded "
    "during a successful retry) and, the entry being `fixed`, reports it as a violation should it return. "
    "Trusted: Coq kernel, extraction, harness observation layer."
)


# ====================================================================== observation of the real run
class Registry:
    """small integers for Python object identities; keeps every object alive so that ids are
    never reused"""

    def __init__(self):
        self.num = {}
        self.keep = []

    def __call__(self, obj):
        k = id(obj)
        if k not in self.num:
            self.num[k] = len(self.keep)
            self.keep.append(obj)
        return self.num[k]

    def known(self, obj):
        return id(obj) in self.num


class Classes:
    def __init__(self):
        self.lab = {}
        self.cls = []

    def __call__(self, c):
        if c not in self.lab:
            self.lab[c] = len(self.cls)
            self.cls.append(c)
        return self.lab[c]


def _has_pack(rule):
    from comb_spec_searcher.exception import InvalidOperationError

    try:
        rule.pack()
    except InvalidOperationError:
        return False
    return True


def _inner_chain(rule):
    out = []
    r = rule
    while hasattr(r, "original_rule"):
        r = r.original_rule
        out.append(r)
    return out


def _is_rev(rule):
    from comb_spec_searcher.strategies.rule import ReverseRule

    return any(isinstance(x, ReverseRule) for x in [rule] + _inner_chain(rule))


def _kind(rule):
    from comb_spec_searcher.strategies.rule import VerificationRule

    if isinstance(rule, VerificationRule):
        return 2 if _has_pack(rule) else 3
    return 1 if rule.is_equivalence() else 0


def desc_b(rule, reg, cl):
    """[id, class, kind, children, inner ids, cache id, reverse?] of a non-path rule"""
    return [reg(rule), cl(rule.comb_class), _kind(rule), [cl(c) for c in rule.children],
            [reg(x) for x in _inner_chain(rule)], reg(rule.terms_cache), int(_is_rev(rule))]


def desc_rule(rule, reg, cl):
    """[0, brule] or [1, id, cache id, [brule ...]]"""
    from comb_spec_searcher.strategies.rule import EquivalencePathRule

    if isinstance(rule, EquivalencePathRule):
        return [1, reg(rule), reg(rule.terms_cache), [desc_b(m, reg, cl) for m in rule.rules]]
    return [0, desc_b(rule, reg, cl)]


def desc_spec(spec, reg, cl):
    return [cl(spec.root), [[cl(c), desc_rule(r, reg, cl)] for c, r in spec.rules_dict.items()]]


def all_rule_objects(spec):
    """(top-level and member rule objects, inner original_rule objects) reachable from a specification"""
    from comb_spec_searcher.strategies.rule import EquivalencePathRule

    top, inner = [], []
    for r in spec.rules_dict.values():
        top.append(r)
        if isinstance(r, EquivalencePathRule):
            for m in r.rules:
                top.append(m)
                inner.extend(_inner_chain(m))
        else:
            inner.extend(_inner_chain(r))
    return top, inner


def ungrouped(spec, skip):
    """the rules expand_comb_class hands to the rule cache, in its order (public data only)"""
    from comb_spec_searcher.strategies.rule import EquivalencePathRule

    out = []
    for cc, rule in spec.rules_dict.items():
        if cc != skip:
            if isinstance(rule, EquivalencePathRule):
                out.extend(rule.rules)
            else:
                out.append(rule)
    return out


class TooManyCalls(BaseException):
    pass


class Trace:
    """records what the public entry points are called with while expand_verified runs"""

    def __init__(self):
        self.attempts = []      # dicts: spec, cls, reverse, cont, cache (captured rule_cache or None), rules, result / error
        self.stack = []


class ScriptedClock:
    """Stands for the `time` module inside comb_spec_searcher.comb_spec_searcher while expand_verified
    runs, so that the time slicing of the inner searches (which decides how far a search expands
    before it looks for a specification, hence WHICH specification it returns) is a parameter of
    the case instead of the machine's load: every reading advances the clock by one tick, the
    reading that follows has_specification() by `batch`/100 ticks — _auto_search_rules then expands
    1 packet, looks, and from then on about `batch` packets between looks."""

    def __init__(self, batch):
        self.now = 0.0
        self.batch = batch
        self.after_look = False

    def time(self):
        if self.after_look:
            self.after_look = False
            self.now += self.batch / 100.0
        else:
            self.now += 1.0
        return self.now


@contextlib.contextmanager
def instrument(trace, batch=None):
    import comb_spec_searcher.comb_spec_searcher as cssmod
    from comb_spec_searcher import CombinatorialSpecification
    from comb_spec_searcher.exception import SpecificationNotFound
    from comb_spec_searcher.rule_db import RuleDBForest

    CSS = cssmod.CombinatorialSpecificationSearcher
    o_has = CSS.has_specification
    o_exp = CSS._expand_class_with_strategy  # pylint: disable=protected-access
    real_time = cssmod.time
    clock = ScriptedClock(batch) if batch is not None else None

    def has_spec(self):
        r = o_has(self)
        if clock is not None:
            clock.after_look = True
        return r

    def exp_with(self, comb_class, strategy_generator, label=None, initial=False):
        # information for the known finding only: a pack strategy applied to an EMPTY class
        if trace.stack and strategy_generator not in self.symmetries and comb_class.is_empty():
            trace.stack[-1].setdefault("empty_expanded", []).append(str(comb_class))
        return o_exp(self, comb_class, strategy_generator, label, initial)

    o_expand = CombinatorialSpecification.expand_comb_class
    o_init = CombinatorialSpecification.__init__
    o_dbinit = RuleDBForest.__init__

    def expand(self, comb_class, pack, reverse, continue_expanding_verified, *a, **k):
        if len(trace.attempts) >= MAX_CALLS:
            raise TooManyCalls("expand_verified called expand_comb_class more than %d times" % MAX_CALLS)
        att = {"spec": self, "cls": comb_class, "reverse": bool(reverse), "cont": bool(continue_expanding_verified),
               "cache": None, "rules": None, "result": None, "error": None}
        trace.attempts.append(att)
        trace.stack.append(att)
        try:
            res = o_expand(self, comb_class, pack, reverse, continue_expanding_verified, *a, **k)
            att["result"] = res
            return res
        except SpecificationNotFound:
            att["error"] = "SpecificationNotFound"
            raise
        except BaseException as e:  # pylint: disable=broad-except
            att["error"] = type(e).__name__
            raise
        finally:
            trace.stack.pop()

    def init(self, root, rules, *a, **k):
        rules = list(rules)
        if trace.stack and trace.stack[-1]["rules"] is None:
            trace.stack[-1]["rules"] = rules
        o_init(self, root, rules, *a, **k)

    def dbinit(self, *a, **k):
        if trace.stack and trace.stack[-1]["cache"] is None and "rule_cache" in k:
            k["rule_cache"] = tuple(k["rule_cache"])
            trace.stack[-1]["cache"] = list(k["rule_cache"])
        o_dbinit(self, *a, **k)

    CombinatorialSpecification.expand_comb_class = expand
    CombinatorialSpecification.__init__ = init
    RuleDBForest.__init__ = dbinit
    CSS.has_specification = has_spec
    CSS._expand_class_with_strategy = exp_with  # pylint: disable=protected-access
    if clock is not None:
        cssmod.time = clock
    try:
        yield
    finally:
        CombinatorialSpecification.expand_comb_class = o_expand
        CombinatorialSpecification.__init__ = o_init
        RuleDBForest.__init__ = o_dbinit
        CSS.has_specification = o_has
        CSS._expand_class_with_strategy = o_exp  # pylint: disable=protected-access
        cssmod.time = real_time


# ====================================================================== the real run
def original_spec(case):
    from comb_spec_searcher.exception import SpecificationNotFound

    css = U.searcher(case)
    random.seed(case.get("tree_seed", 0))
    while not css.has_specification():
        if not css._expand_classes_for(-1, None, 0, 0)[0]:  # pylint: disable=protected-access
            break
    if not css.has_specification():
        return None
    from comb_spec_searcher import CombinatorialSpecification

    try:
        # as auto_search does (no time spent on minimising the proof tree)
        rules = css.ruledb.get_specification_rules(smallest=False, minimization_time_limit=0)
        return CombinatorialSpecification(css.start_class, rules)
    except SpecificationNotFound:
        return None


def observe(spec, nmax=NMAX, nobj=NOBJ, seed=7):
    """counts, objects (in generation order) and seeded samples of the start class; exceptions by name"""
    out = {}
    try:
        out["counts"] = [spec.count_objects_of_size(n) for n in range(nmax + 1)]
    except Exception as e:  # pylint: disable=broad-except
        out["counts"] = "raised " + type(e).__name__
    try:
        out["objects"] = [[str(o) for o in spec.generate_objects_of_size(n)] for n in range(nobj + 1)]
    except Exception as e:  # pylint: disable=broad-except
        out["objects"] = "raised " + type(e).__name__
    try:
        st = random.getstate()
        random.seed(seed)
        smp = []
        for n in range(nobj + 1):
            cnt = out["counts"][n] if isinstance(out["counts"], list) else 0
            for _ in range(3):
                smp.append(str(spec.random_sample_object_of_size(n)) if cnt else None)
        out["samples"] = smp
        random.setstate(st)
    except Exception as e:  # pylint: disable=broad-except
        out["samples"] = "raised " + type(e).__name__
    return out


def owners_ok(spec):
    """for every top-level rule: are its sub-recurrences bound to the rules of THIS specification?"""
    bits = []
    for r in spec.rules_dict.values():
        if not r.children:       # nothing to bind (lazily added empty rules are never given sub-recurrences)
            bits.append(int(not r.subrecs))
            continue
        ok = r.subrecs is not None and len(r.subrecs) == len(r.children)
        if ok:
            for f, g, c in zip(r.subrecs, r.subterms, r.children):
                tgt = spec.rules_dict.get(c)
                if tgt is None or getattr(f, "__self__", None) is not tgt or getattr(g, "__self__", None) is not tgt:
                    ok = False
        bits.append(int(ok))
    return bits


def inner_owners_bad(spec):
    """INNER rule objects (members of equivalence paths, every object of an original_rule chain) whose
    sub-recurrences / sub-term functions / caches belong to something that is not this specification:
    * a bound sub-recurrence (subrecs/subterms/subobjects/subsamplers, where set) must be a method of the rule this
      specification holds for that child (an inner rule bound to ANOTHER specification's rules answers from that one);
    * no two distinct rule objects of one specification may share one terms_cache / objects_cache object.
    Returns a list of short descriptions (empty = fine)."""
    top, inner = all_rule_objects(spec)
    direct = {id(r) for r in spec.rules_dict.values()}
    bad = []
    for x in [t for t in top if id(t) not in direct] + inner:
        for attr in ("subrecs", "subterms", "subobjects", "subsamplers"):
            fs = getattr(x, attr, None)
            if fs is None:
                continue
            for f, c in zip(fs, x.children):
                if getattr(f, "__self__", None) is not spec.rules_dict.get(c):
                    bad.append("%s of inner %s for %s" % (attr, type(x).__name__, x.comb_class))
                    break
    seen = {}
    for x in top + inner:
        for attr in ("terms_cache", "objects_cache"):
            ch = getattr(x, attr, None)
            if ch is None:
                continue
            if seen.setdefault(id(ch), x) is not x:
                bad.append("%s shared by two rule objects (%s)" % (attr, x.comb_class))
    return bad


def reference_search_finds(att):
    """Independent of expand_verified: is there a productive specification for the start class in
    the universe made of the other rules of the specification and everything the pack (reverse
    rules allowed, verified classes expanded) derives from the class to expand?"""
    from comb_spec_searcher import CombinatorialSpecificationSearcher
    from comb_spec_searcher.class_queue import DefaultQueue
    from comb_spec_searcher.rule_db import RuleDBForest
    from comb_spec_searcher.strategies.rule import VerificationRule

    spec, x = att["spec"], att["cls"]
    rule = spec.rules_dict[x]
    assert isinstance(rule, VerificationRule)
    pack = rule.pack()
    db = RuleDBForest(reverse=False)
    css = CombinatorialSpecificationSearcher(spec.root, pack, ruledb=db, expand_verified=True)
    for r in ungrouped(spec, x):
        db.add(css.classdb.get_label(r.comb_class), tuple(map(css.classdb.get_label, r.children)), r)
    db.reverse = True
    css.classqueue = DefaultQueue(pack)
    lab = css.classdb.get_label(x)
    css.classqueue.add(lab)
    css.try_verify(x, lab)
    css._expand_classes_for(1e9, None, 0, 0)  # pylint: disable=protected-access
    return bool(css.has_specification())


def impl(case):
    from comb_spec_searcher import CombinatorialSpecification
    from comb_spec_searcher.exception import SpecificationNotFound
    from comb_spec_searcher.strategies.rule import VerificationRule

    res = {"found": False, "out": [9, [], [], [], [], []], "model_in": None}
    spec0 = original_spec(case)
    if spec0 is None:
        return res
    res["found"] = True
    reg, cl = Registry(), Classes()
    cl(spec0.root)
    d0 = desc_spec(spec0, reg, cl)
    top0, inner0 = all_rule_objects(spec0)
    ids0_top = {id(x) for x in top0}
    ids0_inner = {id(x) for x in inner0}
    for x in inner0:
        reg(x)
    reg.n0 = len(reg.keep)
    # caches of the original: of its top-level rules, path members AND of every inner original_rule object
    caches0 = {id(getattr(x, a)) for x in top0 + inner0 for a in ("terms_cache", "objects_cache")
               if getattr(x, a, None) is not None}
    res["inner_bad0_before"] = inner_owners_bad(spec0)
    values0 = list(spec0.rules_dict.values())
    keys0 = list(spec0.rules_dict.keys())
    snapshot = json.dumps(spec0.to_jsonable(), sort_keys=True)
    twin = CombinatorialSpecification.from_dict(json.loads(snapshot))   # independent equal specification
    res["nverified"] = len([1 for r in values0 if isinstance(r, VerificationRule) and _has_pack(r)])
    use_first = case.get("use_first", "new")
    if use_first == "orig":
        before = observe(spec0)
    else:
        before = observe(twin)
    res["before"] = before
    res["truth"] = W.true_counts(spec0.root, NMAX)

    trace = Trace()
    status, new = 0, None
    with instrument(trace, case.get("batch")):
        try:
            new = spec0.expand_verified()
        except SpecificationNotFound:
            status = 1
        except AssertionError as e:
            status = 2
            res["assertion"] = str(e)[:200]
        except TooManyCalls as e:
            status = 7
            res["assertion"] = str(e)
    res["status"] = status

    # ---------------- the rounds, as seen from outside
    rounds, model_rounds = [], []
    i = 0
    atts = trace.attempts
    res["reverse_needed"] = 0
    while i < len(atts):
        a1 = atts[i]
        a2 = atts[i + 1] if (a1["error"] == "SpecificationNotFound" and i + 1 < len(atts)) else None
        last = a2 or a1
        rounds.append([cl(a1["cls"]), int(last["reverse"]), int(a2 is not None)])
        res["reverse_needed"] += int(a2 is not None and a2["result"] is not None)
        model_rounds.append([_answer(a, reg, cl) for a in ([a1, a2] if a2 else [a1])])
        i += 2 if a2 else 1
    res["rounds"] = rounds
    res["flags"] = [[int(a["reverse"]), int(a["cont"]), a["error"] or "ok", cl(a["cls"])] for a in atts]
    res["nrounds"] = len(rounds)
    res["empty_expanded"] = sorted({c for a in atts if a["cont"] for c in a.get("empty_expanded", [])})

    # ---------------- oracle facts about the result
    facts = {}
    if status == 1:
        failed = atts[-1]
        try:
            facts["reference_finds"] = reference_search_finds(failed)
        except Exception as e:  # pylint: disable=broad-except
            facts["reference_finds"] = "reference search raised %s: %s" % (type(e).__name__, str(e)[:100])
    final_map, res_owner, sharing = [], [], []
    if new is not None:
        facts["root_same"] = bool(new.root == spec0.root)
        facts["same_object"] = new is spec0
        facts["left"] = [str(c) for c, r in new.rules_dict.items() if isinstance(r, VerificationRule) and _has_pack(r)]
        # the result is judged on an independent reconstruction (fresh caches): the copies made by
        # expand_comb_class may share their caches with the original and would answer from them
        try:
            new_twin = CombinatorialSpecification.from_dict(json.loads(json.dumps(new.to_jsonable())))
            facts["new"] = observe(new_twin)
        except Exception as e:  # pylint: disable=broad-except
            facts["new"] = {"counts": "reconstruction raised %s: %s" % (type(e).__name__, str(e)[:80]),
                            "objects": "raised", "samples": "raised"}
        facts["new_direct"] = observe(new)
        topn, innern = all_rule_objects(new)
        if new is not spec0:
            facts["shared_top"] = [str(x.comb_class) for x in topn if id(x) in ids0_top or id(x) in ids0_inner]
            facts["shared_inner"] = len([1 for x in innern if id(x) in ids0_top or id(x) in ids0_inner])
            facts["shared_caches"] = len([1 for x in topn if id(x.terms_cache) in caches0 or id(x.objects_cache) in caches0])
            # ... and the caches of the result's INNER rule objects (original_rule chains, also inside path members)
            facts["shared_inner_caches"] = len([1 for x in innern
                                                if id(getattr(x, "terms_cache", None)) in caches0
                                                or id(getattr(x, "objects_cache", None)) in caches0])
            facts["inner_bad_new"] = inner_owners_bad(new)
        else:
            facts["shared_top"], facts["shared_inner"], facts["shared_caches"] = [], 0, 0
        # validity of the result, from (parent, children, shifts) alone
        rules = list(new.rules_dict.values())
        lhs = list(new.rules_dict.keys())
        facts["key_mismatch"] = [str(c) for c, r in new.rules_dict.items() if r.comb_class != c]
        facts["missing"] = [str(c) for r in rules for c in r.children if c not in new.rules_dict]
        keys, lab = _spec_keys(rules)
        f = naive_lfp([[0, p, kids] for p, kids in keys])
        facts["not_pumping"] = [p for p, _ in keys if not (p in f and f[p] is None)]
        facts["root_in"] = new.root in lhs
        # reverse rules: new ones only in rounds that fell back to reverse=True
        facts["bad_reverse"] = _bad_reverse(atts)
        final_map = sorted([cl(c), _kind(r) if not _is_path(r) else 4, [cl(x) for x in r.children],
                            [cl(m.comb_class) for m in r.rules] if _is_path(r) else []]
                           for c, r in new.rules_dict.items())
        res_owner = owners_ok(new)
        sharing = _sharing(new, reg, spec0)
    # ---------------- the original afterwards
    facts["orig_eq_snapshot"] = bool(spec0 == twin) and json.dumps(spec0.to_jsonable(), sort_keys=True) == snapshot
    facts["orig_same_dict"] = (list(spec0.rules_dict.keys()) == keys0
                               and all(a is b for a, b in zip(spec0.rules_dict.values(), values0))
                               and len(spec0.rules_dict) == len(values0))
    orig_owner = owners_ok(spec0)
    facts["inner_bad0_after"] = inner_owners_bad(spec0)
    facts["after"] = observe(spec0)
    res["facts"] = facts
    res["out"] = [status, rounds, final_map, orig_owner, res_owner, sharing]
    empties = sorted(cl.lab[c] for c in cl.cls if c.is_empty())
    # the model is run in the mode of the code: detached copies (deep) since fix 58ed6bb.  It is NOT set from the sharing
    # observed on this run any more: a regression to shallow copies must show as a model/implementation mismatch AND as an
    # oracle failure.  (The model's shallow mode survives only for C19_no_shared_state_refuted.)
    deep = int(new is not None and new is not spec0)
    res["model_in"] = [d0, model_rounds, empties, deep, reg.n0, FUEL]
    res["nrules_new"] = len(final_map)
    res["has_path0"] = any(_is_path(r) for r in values0)
    res["kinds_new"] = sorted({e[1] for e in final_map})
    return res


def _is_path(r):
    from comb_spec_searcher.strategies.rule import EquivalencePathRule

    return isinstance(r, EquivalencePathRule)


def _answer(att, reg, cl):
    """what one call of expand_comb_class handed to the specification constructor, as model input:
    [] = SpecificationNotFound, else [items] with item = [0, k] (the k-th seeded copy) or
    [1, class, kind, children, inner refs, reverse?] (a rule made by the inner search; an inner ref is
    -1 for a new object or k for the k-th seeded copy)"""
    if att["rules"] is None:
        return []
    cache = att["cache"]
    if cache is None:        # the rule cache was not seen: identify seeded rules by equality
        cache = []
    pos = {id(r): k for k, r in enumerate(cache)}
    src = ungrouped(att["spec"], att["cls"])
    items = []
    for r in att["rules"]:
        if id(r) in pos:
            items.append([0, pos[id(r)]])
            continue
        if not att["cache"]:
            k = next((k for k, q in enumerate(src) if q.comb_class == r.comb_class and type(q) is type(r) and q == r), None)
            if k is not None:
                items.append([0, k])
                continue
        inner = [pos.get(id(x), -1) for x in _inner_chain(r)]
        # the chain below a seeded copy belongs to that copy
        cut = next((j for j, v in enumerate(inner) if v >= 0), None)
        if cut is not None:
            inner = inner[:cut + 1]
        items.append([1, cl(r.comb_class), _kind(r), [cl(c) for c in r.children], inner, int(_is_rev(r))])
        reg(r)
    return [items]


def _bad_reverse(atts):
    """reverse rules of a result that were neither in the specification it was made from nor made
    in an attempt that allowed reverse rules"""
    bad = []
    for a in atts:
        if a["result"] is None or a["reverse"]:
            continue
        before = [r for r in ungrouped(a["spec"], a["cls"])]
        for r in ungrouped(a["result"], None):
            if _is_rev(r) and not any(q.comb_class == r.comb_class and q == r for q in before):
                bad.append(str(r.comb_class))
    return bad


def _sharing(new, reg, spec0):
    """per rule object of the result (top level and path members, dictionary order): [its id if it
    is an object of the original else -1, inner objects shared with the original, cache id if shared
    with the original else -1]"""
    if new is spec0:
        return []
    out = []
    from comb_spec_searcher.strategies.rule import EquivalencePathRule

    def one(r):
        return [reg.num.get(id(r), -1) if _orig_id(reg, r) else -1,
                sorted(reg.num[id(x)] for x in _inner_chain(r) if _orig_id(reg, x)),
                reg.num[id(r.terms_cache)] if _orig_id(reg, r.terms_cache) else -1]

    for r in new.rules_dict.values():
        out.append(one(r))
        if isinstance(r, EquivalencePathRule):
            for m in r.rules:
                out.append(one(m))
    return sorted(out)


def _orig_id(reg, obj):
    n = reg.num.get(id(obj))
    return n is not None and n < reg.n0


def encode_with(case, res):
    return res.get("model_in") or []


def canon_model(mo):
    status, tr, final, own0, own1, sharing = mo
    sharing = sorted([a, sorted(b), c] for a, b, c in sharing)
    return [status, tr, sorted(final), own0, own1, sharing]


# ====================================================================== the oracle
def _same_as_multisets(a, b):
    if isinstance(a, str) or isinstance(b, str):
        return a == b
    return [sorted(x) for x in a] == [sorted(x) for x in b]


KNOWN_EMPTY = "retry-expands-empty-classes"


def oracle(case, res):
    why = _oracle(case, res)
    if (why and not why.startswith("SHARED-CACHES") and res.get("empty_expanded") and res.get("reverse_needed")
            and res.get("status") in (0, 2)):
        why = ("RETRY-EXPANDS-EMPTY-CLASSES: %s — during a retry (continue_expanding_verified=True) the pack's "
               "strategies were applied to the empty class(es) %s" % (why, res["empty_expanded"][:3]))
    if why and not why.startswith("SHARED-CACHES") and os.environ.get("C19_DEBUG"):
        with open(os.environ["C19_DEBUG"], "a") as f:
            f.write(json.dumps({"why": why, "case": case, "exc": res.get("exception"), "trace": res.get("trace")}) + "\n")
    return why


def _oracle(case, res):
    if "exception" in res:
        return "search or expansion raised " + res["exception"]
    if not res["found"]:
        return None
    f, st = res["facts"], res["status"]
    before, after = res["before"], f["after"]
    if st == 2:
        return "expand_verified raised AssertionError: %s" % res.get("assertion")
    if st == 7:
        return "expand_verified does not finish: %s (last class: %s)" % (res.get("assertion"), res["rounds"][-1][0])
    if st == 1:
        rf = f.get("reference_finds")
        if rf is True:
            return ("expand_verified raised SpecificationNotFound although the rules of the specification together "
                    "with what the supplied pack derives (reverse rules allowed) specify the start class")
        if isinstance(rf, str):
            return rf
    # reverse rules (and expansion of verified classes) are switched on only for the retry of a call
    # that raised SpecificationNotFound
    fl = res.get("flags", [])
    for i, (rev, cont, _err, c) in enumerate(fl):
        if rev != cont:
            return "expand_comb_class called with reverse=%d, continue_expanding_verified=%d" % (rev, cont)
        if rev and not (i > 0 and fl[i - 1][0] == 0 and fl[i - 1][2] == "SpecificationNotFound" and fl[i - 1][3] == c):
            return "reverse rules were allowed for class %d without a failed reverse-free attempt" % c
    if st == 0:
        if not f["root_same"]:
            return "the expanded specification has another root"
        if f["left"]:
            return "verified classes offering a pack remain after expand_verified: %s" % f["left"][:2]
        if f["key_mismatch"] or f["missing"] or not f["root_in"]:
            return "the expanded specification is not closed / keyed by its rules: %r %r" % (
                f["key_mismatch"][:2], f["missing"][:2])
        if f["not_pumping"]:
            return "class %d of the expanded specification does not pump (naive least fixed point over parent, children, shifts)" % f["not_pumping"][0]
        if f["new"]["counts"] != res["truth"]:
            return "the expanded specification counts %r, brute force gives %r" % (f["new"]["counts"], res["truth"])
        if f["new_direct"]["counts"] != res["truth"]:
            return "the expanded specification itself counts %r, brute force gives %r" % (
                f["new_direct"]["counts"], res["truth"])
        if isinstance(before["counts"], list) and f["new"]["counts"] != before["counts"]:
            return "the expanded specification counts %r, the original %r" % (f["new"]["counts"], before["counts"])
        # (object generation is not implemented for the reverse rules of products: nothing to compare then)
        if (isinstance(before["objects"], list) and f["new"]["objects"] != "raised NotImplementedError"
                and not _same_as_multisets(f["new"]["objects"], before["objects"])):
            return "the expanded specification generates other objects than the original"
        if f["bad_reverse"]:
            return "a reverse rule was made by an expansion that did not allow reverse rules: %s" % f["bad_reverse"][:2]
        if res["nrounds"] and f["shared_top"]:
            return "the expanded specification shares rule objects with the original: %s" % f["shared_top"][:2]
        # REQUIRED since fix 58ed6bb (_detached_copy): no wrapped rule object (EquivalenceRule/ReverseRule.original_rule,
        # path member) and no terms_cache/objects_cache of the result is an object of the original.  Judged on the
        # `is`-identities alone, whether or not the sharing happens to be observable through counts/objects on this case
        if res["nrounds"] and (f["shared_inner"] or f["shared_caches"]):
            return ("the expanded specification shares state with the original (shallow copies): %d wrapped rule object(s) "
                    "and the caches of %d rule(s) of the result are objects of the original" % (
                        f["shared_inner"], f["shared_caches"]))
        if res["nrounds"] and f.get("shared_inner_caches"):
            return ("the expanded specification shares state with the original (shallow copies of INNER rules): the caches "
                    "of %d inner rule object(s) (original_rule chains / path members) of the result are cache objects of "
                    "the original" % f["shared_inner_caches"])
        if 0 in res["out"][4]:
            return "a rule of the expanded specification is not bound to the expanded specification's rules"
        if f.get("inner_bad_new"):
            return ("an INNER rule object of the expanded specification is bound to state outside the expanded "
                    "specification: %s" % f["inner_bad_new"][:2])
        if res["nrounds"] == 0 and not f["same_object"] and res["nverified"] == 0:
            pass
    # ---- the original afterwards
    if not f["orig_eq_snapshot"]:
        return "the original specification is no longer equal to its snapshot taken before expand_verified"
    if not f["orig_same_dict"]:
        return "the original specification's rules_dict changed (keys, order or rule objects)"
    if 0 in res["out"][3]:
        return "a rule of the original specification no longer takes its sub-recurrences from the original specification"
    # (only what expand_verified CHANGED is held against it: an original that came with such an inner binding keeps it)
    worse = [w for w in f.get("inner_bad0_after", []) if w not in res.get("inner_bad0_before", [])]
    if worse:
        return ("after expand_verified an INNER rule object of the original specification is bound to state outside the "
                "original: %s" % worse[:2])
    if isinstance(before["counts"], list) and after["counts"] != before["counts"]:
        return "the original specification counts %r after expand_verified, %r before" % (after["counts"], before["counts"])
    if isinstance(before["objects"], list) and not _same_as_multisets(after["objects"], before["objects"]):
        return "the original specification generates other objects after expand_verified"
    if isinstance(before["samples"], list) and isinstance(after["samples"], list) and before["samples"] != after["samples"]:
        if before["objects"] == after["objects"]:
            return "the original specification samples differently after expand_verified (same random seed)"
    # (the aliasing through shared caches - fixed finding 58ed6bb - is reported above as shared state; what remains
    # here is any other difference)
    if after != before:
        what = [k for k in ("counts", "objects", "samples") if after[k] != before[k]]
        return "the original specification behaves differently after expand_verified (%s)" % ", ".join(what)
    return None


def finding_match(case, why):
    # both C19 findings are `fixed` in known_findings.json (58ed6bb, efd250e): core masks only `open` entries, so nothing
    # is masked; the string below only names the historic finding a returning failure would belong to.  Shared state
    # (KNOWN_SHALLOW) is an ordinary oracle failure now and matches nothing.
    if why and why.startswith("RETRY-EXPANDS-EMPTY-CLASSES:"):
        return KNOWN_EMPTY
    return None


def nontrivial(case, res):
    return bool(res.get("found")) and res.get("status") == 0 and res.get("nrounds", 0) >= 1 and res.get("nrules_new", 0) >= 4


def key(case):
    return json.dumps(case, sort_keys=True)


def classify(case, res):
    tags = ["db=" + case["ruledb"], "search_pack=" + case["opack"]]
    if not res.get("found"):
        return tags + ["no_spec"]
    tags.append("status=%s" % res.get("status"))
    tags.append("rounds=%d" % min(res.get("nrounds", 0), 4))
    if res.get("reverse_needed"):
        tags.append("reverse_retry_succeeded")
    if any(fl[0] for fl in res.get("flags", [])):
        tags.append("reverse_retry_tried")
    if res.get("has_path0"):
        tags.append("path_in_original")
    if 4 in res.get("kinds_new", []):
        tags.append("path_in_result")
    if res.get("nverified", 0) >= 2:
        tags.append("several_verified")
    tags.append("batch=%s" % case.get("batch"))
    if res.get("empty_expanded"):
        tags.append("empty_class_expanded_in_retry")
    if case.get("verif") and any(e[0] == case["start"][0] for e in case["verif"]):
        tags.append("root_entry")
    f = res.get("facts", {})
    if f.get("shared_inner"):
        tags.append("inner_objects_shared")
    if f.get("shared_caches"):
        tags.append("caches_shared")
    tags.append("use_first=" + case.get("use_first", "new"))
    mi = res.get("model_in") or []
    if mi:
        items = [it for rd in mi[1] for ans in rd for its in ans for it in its]
        if any(it[0] == 1 and any(k >= 0 for k in it[4]) for it in items):
            tags.append("made_rule_wraps_seeded_copy")
        if any(it[0] == 1 and it[5] for it in items):
            tags.append("made_reverse_rule")
        if any(it[0] == 1 and it[2] == 1 for it in items):
            tags.append("made_equivalence_rule")
        if any(it[0] == 1 and it[2] == 2 for it in items):
            tags.append("made_verified_with_pack(nested)")
        if mi[2]:
            tags.append("has_empty_classes")
        if mi[3]:
            tags.append("nothing_shared_observed")
    return tags


def gen(rng, tier):
    while True:
        r = rng.random()
        if r < 0.25:
            c = U.directed_reverse_case(rng)
        elif r < 0.45:
            c = U.directed_path_case(rng)
        else:
            c = U.random_case(rng)
        c["use_first"] = rng.choice(["orig", "new", "new"])
        # packets an inner search expands between two looks for a specification (scripted clock)
        c["batch"] = rng.choice([0, 0, 3, 10, 30, 100])
        yield c


def shrink(case):
    for i in range(len(case["verif"])):
        if len(case["verif"]) > 1:
            yield {**case, "verif": case["verif"][:i] + case["verif"][i + 1:]}
    for i, p in enumerate(case["packs"]):
        for j in range(len(p["verif"])):
            p2 = {**p, "verif": p["verif"][:j] + p["verif"][j + 1:]}
            yield {**case, "packs": case["packs"][:i] + [p2] + case["packs"][i + 1:]}
        if p["flavour"] != "base":
            yield {**case, "packs": case["packs"][:i] + [{**p, "flavour": "base"}] + case["packs"][i + 1:]}
    if case["opack"] != "base":
        yield {**case, "opack": "base"}
    if case["ruledb"] != "base":
        yield {**case, "ruledb": "base"}
    if case.get("batch") not in (None, 100):
        yield {**case, "batch": 100}

# strengthening of the oracles (CLAUSES.md G.1 item 10)
RULE += (
    " The no-sharing oracle also covers INNER rule objects (members of equivalence paths, every object of an original_rule chain): none of their terms_cache/objects_cache objects may be a cache object of the original (the original's inner caches are recorded too), no two rule objects of one specification may share a cache, and a bound sub-recurrence of an inner rule must belong to the rule its own specification holds for that child (for the original: nothing worse after expand_verified than before)."
)
