"""Shared by c02 / c14 / c17 (not a check): the TABLE hypotheses of the composed theorems
C02_search_find_rule_total, C14_search_stored_rules_handed_back, C17_resumed_search_gives_add_hist /
_find_rule_total / _emptiness_truthful, evaluated in Python on the table universe of a case.

The Coq side is Searcher/Deciders.v (table_hyps_b, search_hyps_b, find_rule_hyps_b; soundness lemmas
table_hyps_sound / search_hyps_sound / find_rule_hyps_sound) evaluated by the extracted run function of each check on
the table it receives (Searcher/DecidersRun.v run_hyps; Searcher/SlicingRun.v hyps_c17).  The bits below are put
into res["out"] by the plugins, so that the core's model/implementation diff compares the extracted Coq verdict with
this Python verdict on EVERY case.  The predicates themselves are those of harness/props/c04.py (imported, not
copied); only cap / reversible are new here.

bits(u, packets, nocap) = [ search, find_rule, pe_contract, sym_contract, sym_unary, items_plain, packets_in, cap,
                            reversible ]      (Deciders.hyp_bits)
   search    = pe && sym && unary && plain && packets_in                  (Deciders.search_hyps_b)
   find_rule = pe && sym && unary && plain && cap && reversible && packets_in
"""
from harness.props import c04

NAMES = ["pe_contract", "sym_contract", "sym_unary", "items_plain", "packets_in", "cap", "reversible"]


def cap_ok(u, nocap=()):
    """a strategy with a two-way entry can be an equivalence (Deciders.cap_okb with cap = not in nocap)"""
    no = set(nocap)
    for sid, st in enumerate(u["strats"]):
        if st["kind"] == "F" or sid not in no:
            continue
        if any(e["two_way"] for e in st["apply"].values()):
            return False
    return True


def rev_ok(u):
    """two-way entries are reversible (Deciders.rev_okb)"""
    for st in u["strats"]:
        if st["kind"] == "F":
            continue
        if any(e["two_way"] and not e["reversible"] for e in st["apply"].values()):
            return False
    return True


def bits(u, packets=(), nocap=()):
    pe, sy, un, pk, pl = c04._contract_bits(u, list(packets))  # pylint: disable=protected-access
    cap, rev = int(cap_ok(u, nocap)), int(rev_ok(u))
    search = int(bool(pe and sy and un and pl and pk))
    return [search, int(bool(search and cap and rev)), pe, sy, un, pl, pk, cap, rev]


def extra_field(u, packets=()):
    """the extra input field of Searcher/DecidersRun.v run_hyps: ( ver-sids sym-sids queue-pack packets )"""
    return [list(u["pack"]["ver"]), list(u["pack"]["sym"]), c04.queue_pack(u), [list(p) for p in packets]]


def missing(b, which="search"):
    """names of the conjuncts of the decider `which` ("search" / "find_rule" / "contracts") that are false"""
    idx = {"search": [0, 1, 2, 3, 4], "find_rule": [0, 1, 2, 3, 4, 5, 6], "contracts": [0, 1]}[which]
    return [NAMES[i] for i in idx if not b[2 + i]]


def verdict_tag(theorem, b, which="search", also=()):
    """classify tag: thm:<theorem>:covered  or  thm:<theorem>:not_covered(<first failing hypothesis>)
    `also`: further (name, holds) hypotheses outside the table (e.g. mode 0), tested first"""
    for name, ok in also:
        if not ok:
            return "thm:%s:not_covered(%s)" % (theorem, name)
    m = missing(b, which)
    return "thm:%s:%s" % (theorem, "covered" if not m else "not_covered(%s)" % m[0])


def coverage_check(theorem, flags, minimum, what="table-universe search cases", detail=""):
    """extra_checks entry: `flags` = one bool per case the theorem is meant for (covered or not); fails when the
    covered fraction falls below `minimum` (the generator drifted away from the theorem's hypotheses)"""
    n, k = len(flags), sum(1 for f in flags if f)
    ok = n < 30 or k >= minimum * n
    return ("covered_by_theorem %s: the extracted decider (Searcher/Deciders.v) says its table hypotheses hold"
            % theorem, ok,
            "%d of %d %s (%.1f%%; minimum %.0f%%)%s" % (k, n, what, 100.0 * k / n if n else 0.0, 100 * minimum,
                                                       ("; " + detail) if detail else ""))
