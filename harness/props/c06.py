"""C06 — equivalence classes are exactly the strongly connected components."""
import copy

ID = "C06"
TITLE = "equivalence database: classes = strongly connected components after cycle detection (kept by set_verified / queries / repeated detection), verified flags, explanation paths"
COQ_PROPS = "Props/C06.v"
COQ_RUN = ("Equiv.Run", "run_c06")
GEN_TARGETS = ["equiv_heaviest"]   # Equiv/GenBridge.v
N = {"quick": 4000, "thorough": 60000}
RULE = (
    "histories of 1-60 operations (add_two_way_edge, add_one_way_edge, set_verified, connect_cycles, "
    "equivalent, is_verified, db[x], find_path) over 2-14 labels. Shapes: uniformly random edges; planted "
    "one-way cycles/chains with cross edges into already merged components, shuffled; dense graphs; a "
    "malformed/edge stream with self loops, repeated edges, queries on unknown labels and find_path on "
    "non-equivalent labels. After every connect_cycles (and after a random subset of the later steps) a full "
    "query batch runs: equivalent on all ordered pairs, is_verified and db[x] on all labels, find_path on "
    "all (or a stride of) ordered pairs. Half of the cases use labels 0..7 only ('exact': roots, paths, "
    "weights, parent pointers and the one-way table are compared literally with the model); the others use "
    "sparse / negative / large labels and compare what does not depend on CPython's set iteration order. "
    "Non-trivial: >=3 labels, a connect_cycles merges two labels that are not connected by two-way edges, "
    "and some label is verified only through a merge; distinct = distinct (labels, op list)."
)
TRUSTED = [
    "modelled, not verified: comb_spec_searcher/equiv_db.py (EquivalenceDB) — hand-written Gallina model "
    "Equiv/Model.v tied by this correspondence",
    "CPython iterates a set of ints in 0..7 in ascending order (probed on every run by extra_checks); the model's "
    "runnable instance iterates sets in ascending order ONLY (isort); the theorems hold for every iteration order, but "
    "for labels outside 0..7 the path / representative CPython actually returns is never compared with a model path "
    "(db[x] is blanked, paths are compared by length; their validity is judged by the oracle)",
]
ASSUMPTIONS = [
    "the conditional theorems are stated for runs of the model that do not exhaust the explicit loop fuel "
    "(exec ... = Some ...); the TOTAL theorems (C06_exec_total, C06_*_total) prove that this never happens for a "
    "set-iteration order that yields every element once (order_len: length (order l) <= length l; necessary: "
    "C06_total_needs_order_len); the harness treats a `None` of the model as an error and never observed it",
    "labels are Python ints (any sign/size)",
]
TECHNIQUE = ("Coq proof (invariants by induction over operation histories; depth-first-search invariant over the live "
             "union-find for the completeness of connect_cycles) + extracted-model/implementation correspondence + "
             "proved reference SCC")
LEVEL_TEXT = (
    "Theorems C06_* (coq/theories/Props/C06.v) prove, for every history of add_two_way_edge / add_one_way_edge / "
    "set_verified / connect_cycles / queries on a fresh database, every label set and every set-iteration order "
    "(each conditional on `exec ... = Some`, i.e. the model's loop fuel not exhausted; the *_total theorems below "
    "discharge that hypothesis for every order that yields each element once): "
    "soundness (labels reported equivalent are mutually reachable along recorded edges, at any time), the edge "
    "table is exactly the recorded graph, union-find canonicity (db[x] is a fixed representative, equivalent "
    "compares representatives, the classes form a partition, queries change nothing, a two-way edge changes the "
    "partition exactly by the requested merge, connect_cycles only merges), is_verified(a) <=> some label of a's "
    "class was passed to set_verified (before or after the merges), find_path answers exactly when the labels are "
    "equivalent and its answer starts at the first, ends at the second label and follows recorded edges only. "
    "Completeness IS proved (C06_complete, C06_complete_connect_step, C06_complete_equivalent): in the state "
    "immediately after connect_cycles, labels that are mutually reachable along recorded edges are in the same "
    "class and `equivalent` answers True; together with soundness, C06_classes_are_sccs: right after "
    "connect_cycles `equivalent(a,b)` <=> a and b are mutually reachable, i.e. the classes are exactly the "
    "strongly connected components of the recorded graph, and C06_classes_are_sccs_after_queries: the same after "
    "any number of queries (equivalent / is_verified / db[x] / find_path) following connect_cycles; "
    "C06_classes_are_sccs_after_neutral (+ _total): the same after any number of set_verified calls, queries AND further "
    "connect_cycles calls following connect_cycles - the state in which RuleDBBase reads representatives (pruned_dict "
    "calls set_verified for every surviving label right after connect_cycles; a cached pruned dictionary is read after "
    "arbitrarily many such operations); C06_set_verified_keeps_partition (set_verified moves no root and no edge), "
    "C06_neutral_records_nothing; C06_connect_cycles_idempotent: a connect_cycles on such a state changes no root, no "
    "verified root, no edge (every merge it issues is inside a class); C06_representative_function: on every reachable "
    "state the pure function repf s (the label db[x] returns) is total, is what every later lookup returns, is "
    "idempotent and repf a = repf b <=> same class - the function the consumers C05/C14/C02/C13 take as `rep` "
    "(C05 now instantiates it: Props/C05.v section 8). The proof "
    "(Equiv/CompleteUF.v, CompleteDFS.v, Complete.v) is a depth-first-search invariant of the explicit stack of "
    "paths over the union-find that is merged during the traversal, for every set-iteration order (even one that "
    "repeats elements). The earlier partial statements C06_complete_partial (labels joined by two-way edges are "
    "always equivalent) and C06_complete_partial_edges_kept (every recorded edge stays inside a class or "
    "represented in the one-way table; used by the completeness proof) are kept. The correspondence still checks "
    "`equivalent` after every connect_cycles against a reference transitive closure proved correct in Coq "
    "(C06_reference_scc_correct) and against an independent Floyd-Warshall oracle: this now tests the MODEL'S "
    "faithfulness to equiv_db.py, not an unproved property of the model. "
    "TOTALITY (Equiv/Total.v): on every history over a fresh database the model never returns None - C06_exec_total; "
    "the parent table of every reachable state is closed and acyclic, so the path-compression loop of db[x] ends "
    "within `len(parents)` iterations without a KeyError (C06_find_total, C06_find_fuel_sufficient); the stack loop "
    "of connect_cycles pops every entry once and pushes at most one entry per element of a not yet visited key, so "
    "the fuel 1 + #keys + #entries of the re-keyed one-way table suffices (C06_connect_cycles_total, "
    "C06_connect_cycles_fuel_sufficient); the BFS of find_path needs at most 1 + #recorded edges pops "
    "(C06_find_path_total: it always answers, KeyError exactly on non-equivalent labels, else a path of recorded "
    "edges from the first to the second label; C06_find_path_fuel_sufficient). The main theorems are restated without "
    "`= Some` hypotheses: C06_sound_total, C06_classes_are_sccs_total, C06_classes_are_sccs_after_queries_total, "
    "C06_verified_total, C06_path_total (the old conditional statements are kept). "
    "The hand-written model is tied to equiv_db.py by running both on generated histories and comparing every "
    "Boolean answer; for the half of the cases with labels 0..7 also roots, weights, parent pointers, verified roots, "
    "both edge tables and the returned paths literally; for the other half db[x] answers are blanked and paths are "
    "compared by their length only (they depend on CPython's set order)."
)
LEVEL_NOTE = (
    "Trusted: Coq kernel, ExtrOcamlBasic extraction + OCaml driver, the correspondence harness. Modelled not "
    "verified: equiv_db.py itself. The conditional theorems assume the model's explicit loop fuel is not exhausted; "
    "the _total theorems discharge that for every iteration order that does not repeat elements (the theorems that do "
    "not mention totality still hold for orders that repeat elements; totality does not: with every element yielded "
    "three times the BFS of find_path runs out of the model's fuel, C06_total_needs_order_len). Termination is a "
    "theorem about the model; the real code's termination follows through the correspondence only. "
    "Completeness of connect_cycles is a theorem about the state right after connect_cycles and after any number of "
    "queries, set_verified calls and further connect_cycles calls that follow it (so the property statement's 'after any "
    "sequence ... exactly when' is proved in the <= direction only for such states); after further add_one_way_edge / "
    "add_two_way_edge calls and before the next connect_cycles "
    "the classes may be finer than the SCCs (that is the documented behaviour of equiv_db.py: `you should use the connect_cycle method first`). "
    "What the classes ARE in such a stale state is now a theorem for EVERY reachable state (Equiv/Stale.v): after pre ++ Connect :: "
    "post with no Connect in post, `equivalent` answers True exactly on the closure of 'mutually reachable along the edges recorded "
    "by pre' under the two-way edges requested by post (C06_exact_partition, _total); before the first connect_cycles exactly on the "
    "closure of the two-way edges (C06_exact_partition_before_connect); one-way edges, set_verified and queries change no class "
    "(C06_step_exact). The right-hand sides do not mention the set-iteration order, so every Boolean `equivalent` returns - in stale "
    "states too - is the same for any two iteration orders (C06_equivalent_order_independent): the comparison of Booleans on the "
    "non-exact (sparse-label) half of the cases rests on a theorem, no longer on an empirical 0-mismatch. Consumer forms: "
    "C06_verified_exact (the verified flag in every reachable state, over the exactly characterised class), C06_same_is_scc / C06_repf_is_scc (the pure representative function decides 'same strongly connected component of the "
    "recorded graph' after a detection followed by neutral operations) and C06_verified_scc."
)

SPARSE_POOL = [0, 1, 2, 3, 5, 8, 9, 16, 17, 24, 33, 64, 65, 100, 1000, 10**6, 2**40 + 3, -1, -2, -7]


# ----------------------------------------------------------------- generator
def _labels(rng, exact):
    if exact:
        n = rng.randint(2, 8)
        return sorted(rng.sample(range(8), n))
    n = rng.randint(2, 14)
    if rng.random() < 0.5:
        return list(range(n))
    return rng.sample(SPARSE_POOL, n)


def _planted(rng, labels):
    """edges of a few one-way cycles / chains plus cross edges, in random order"""
    labs = labels[:]
    rng.shuffle(labs)
    edges = []
    i = 0
    comps = []
    while i < len(labs):
        k = rng.randint(1, min(5, len(labs) - i))
        comp = labs[i:i + k]
        comps.append(comp)
        i += k
        if k >= 2:
            closed = rng.random() < 0.75
            for j in range(k - 1):
                edges.append((1 if rng.random() < 0.8 else 0, comp[j], comp[j + 1]))
            if closed:
                edges.append((1, comp[-1], comp[0]))
    for _ in range(rng.randint(0, len(labs) + 2)):  # cross edges
        a, b = rng.choice(labs), rng.choice(labs)
        edges.append((1 if rng.random() < 0.85 else 0, a, b))
    rng.shuffle(edges)
    return edges


def gen(rng, tier):
    while True:
        exact = int(rng.random() < 0.5)
        labels = _labels(rng, exact)
        shape = rng.choice(["random", "planted", "planted", "dense", "edge"])
        nops = rng.randint(1, 60)
        ops = []
        stride = 1 if len(labels) <= 7 else rng.choice([1, 3, 7])
        lab = lambda: rng.choice(labels)
        pending = _planted(rng, labels) if shape == "planted" else []
        since_connect = None
        while len(ops) < nops:
            r = rng.random()
            if pending and r < 0.55:
                e = pending.pop()
                ops.append([e[0], e[1], e[2]])
            elif shape == "edge" and r < 0.25:
                x = rng.random()
                a = lab()
                unknown = rng.choice([7, 6, 5]) if exact else rng.choice([12345, -99, 77])
                if x < 0.25:
                    ops.append([rng.choice([0, 1]), a, a])            # self loop
                elif x < 0.45 and ops:
                    ops.append(list(rng.choice(ops)))                 # repeat an earlier op
                elif x < 0.6:
                    ops.append([rng.choice([4, 7]), a, unknown])      # unknown label
                elif x < 0.75:
                    ops.append([rng.choice([5, 6, 2]), unknown, 0])
                else:
                    ops.append([7, a, lab()])                         # find_path, often not equivalent
            elif r < (0.62 if shape != "dense" else 0.8):
                two = rng.random() < (0.25 if shape != "dense" else 0.1)
                ops.append([0 if two else 1, lab(), lab()])
            elif r < 0.70:
                ops.append([2, lab(), 0])
            elif r < 0.80:
                ops.append([3, 0, 0])
                ops.append([9, stride, 0])
                since_connect = 0
                continue
            elif r < 0.85:
                ops.append([4, lab(), lab()])
            elif r < 0.89:
                ops.append([5, lab(), 0])
            elif r < 0.93:
                ops.append([6, lab(), 0])
            else:
                ops.append([7, lab(), lab()])
            if since_connect is not None and rng.random() < 0.35:
                ops.append([9, stride, 0])
        if rng.random() < 0.8:
            ops.append([3, 0, 0])
            ops.append([9, stride, 0])
        yield {"exact": exact, "labels": labels, "ops": ops}


# ----------------------------------------------------------------- expansion
MUTATORS = (0, 1)


def expand(case):
    """[9, stride, _] -> the full query batch; code 8 (reference answer) is added after each
    `equivalent` of a batch that directly follows connect_cycles (no edge added since)."""
    labels = case["labels"]
    out = []
    fresh = False
    for o in case["ops"]:
        c = o[0]
        if c == 9:
            stride = max(1, o[1])
            for a in labels:
                for b in labels:
                    out.append([4, a, b])
                    if fresh:
                        out.append([8, a, b])
            for a in labels:
                out.append([5, a, 0])
            for a in labels:
                out.append([6, a, 0])
            k = 0
            for a in labels:
                for b in labels:
                    if k % stride == 0:
                        out.append([7, a, b])
                    k += 1
        else:
            out.append([c, o[1], o[2]])
            if c == 3:
                fresh = True
            elif c in MUTATORS and o[1] != o[2]:
                fresh = False
    return out


def encode(case):
    return [int(case["exact"]), expand(case)]


# ----------------------------------------------------------------- implementation
def _snapshot_class(db, a, universe):
    d = copy.deepcopy(db)
    return sorted(b for b in universe if d.equivalent(a, b))


def impl(case):
    from comb_spec_searcher.equiv_db import EquivalenceDB

    exact = bool(case["exact"])
    db = EquivalenceDB()
    outs, raw = [], []
    universe = sorted(set(case["labels"]) | {x for o in case["ops"] if o[0] != 9 for x in o[1:3]})
    last_eq = None
    for o in expand(case):
        c, a, b = o
        info = None
        if c == 0:
            db.add_two_way_edge(a, b); r = []
        elif c == 1:
            db.add_one_way_edge(a, b); r = []
        elif c == 2:
            db.set_verified(a); r = []
        elif c == 3:
            db.connect_cycles(); r = []
        elif c == 4:
            last_eq = int(db.equivalent(a, b)); r = last_eq
        elif c == 5:
            info = _snapshot_class(db, a, universe)
            r = int(db.is_verified(a))
        elif c == 6:
            root = db[a]
            info = [root, _snapshot_class(db, a, universe), copy.deepcopy(db)[root]]
            r = root if exact else 0
        elif c == 7:
            try:
                p = list(db.find_path(a, b))
                info = p
                r = p if exact else len(p)
            except KeyError:
                info = None
                r = -1
        elif c == 8:
            r = last_eq
        else:
            raise ValueError("bad op %r" % (o,))
        outs.append(r)
        raw.append(info)
    if exact:
        final = [
            [[k, v] for k, v in db.parents.items()],
            [[k, v] for k, v in db.weights.items()],
            sorted(db.verified_roots),
            [[k, sorted(v)] for k, v in sorted(db.vertices.items())],
            [[k, sorted(v)] for k, v in db._one_way_vertices.items()],
        ]
    else:
        final = []
    return {"out": [outs, final], "raw": raw, "universe": universe}


# ----------------------------------------------------------------- oracle (Floyd–Warshall)
def _closure(nodes, edges):
    idx = {x: i for i, x in enumerate(nodes)}
    n = len(nodes)
    R = [[i == j for j in range(n)] for i in range(n)]
    for a, b in edges:
        R[idx[a]][idx[b]] = True
    for k in range(n):
        Rk = R[k]
        for i in range(n):
            Ri = R[i]
            if Ri[k]:
                for j in range(n):
                    if Rk[j]:
                        Ri[j] = True
    return idx, R


def oracle(case, res):
    if "exception" in res:
        return "implementation raised " + res["exception"]
    outs, _ = res["out"]
    raw = res["raw"]
    nodes = res["universe"]
    edges, two = [], []          # all recorded directed edges ; two-way ones
    marked = set()
    fresh = False                # connect_cycles ran and no edge was recorded since
    any_one_way = False
    cache = {}

    def clos():
        k = (len(edges), len(two))
        if cache.get("k") != k:
            cache["k"] = k
            cache["all"] = _closure(nodes, edges)
            cache["two"] = _closure(nodes, two)
        return cache["all"], cache["two"]

    def mutual(which, a, b):
        idx, R = which
        return R[idx[a]][idx[b]] and R[idx[b]][idx[a]]

    for n_op, (o, r, info) in enumerate(zip(expand(case), outs, raw)):
        c, a, b = o
        if c == 0:
            if a != b:
                edges += [(a, b), (b, a)]; two += [(a, b), (b, a)]; fresh = False
        elif c == 1:
            if a != b:
                edges.append((a, b)); fresh = False; any_one_way = True
        elif c == 2:
            marked.add(a)
        elif c == 3:
            fresh = True
        elif c == 4:
            A, T = clos()
            scc = mutual(A, a, b)
            if r and not scc:
                return "op %d: equivalent(%d,%d) is True but they are not mutually reachable along recorded edges" % (n_op, a, b)
            if not r and mutual(T, a, b):
                return "op %d: equivalent(%d,%d) is False but they are joined by two-way edges" % (n_op, a, b)
            if (fresh or not any_one_way) and scc and not r:
                return "op %d: equivalent(%d,%d) is False right after connect_cycles although they are mutually reachable" % (n_op, a, b)
        elif c == 5:
            A, T = clos()
            cls = info
            if a not in cls:
                return "op %d: %d is not equivalent to itself" % (n_op, a)
            exp = any(x in marked for x in cls)
            if bool(r) != exp:
                return "op %d: is_verified(%d)=%s but marked members of its class %r: %r" % (
                    n_op, a, bool(r), cls, sorted(marked & set(cls)))
            for x in cls:
                if not mutual(A, a, x):
                    return "op %d: class of %d contains %d, not mutually reachable" % (n_op, a, x)
            if fresh or not any_one_way:
                exp2 = any(mutual(A, a, x) for x in marked)
                if bool(r) != exp2:
                    return "op %d: is_verified(%d)=%s, marked labels in its strongly connected component: %s" % (n_op, a, bool(r), exp2)
        elif c == 6:
            root, cls, again = info
            A, _ = clos()
            if root not in cls:
                return "op %d: db[%d]=%d is not in the class %r of %d" % (n_op, a, root, cls, a)
            if again != root:
                return "op %d: db[db[%d]] = %d != db[%d] = %d" % (n_op, a, again, a, root)
            if not mutual(A, a, root):
                return "op %d: db[%d]=%d is not mutually reachable with it" % (n_op, a, root)
        elif c == 7:
            A, T = clos()
            p = info
            if p is None:
                if mutual(T, a, b) or ((fresh or not any_one_way) and mutual(A, a, b)):
                    return "op %d: find_path(%d,%d) raised KeyError although the labels must be equivalent" % (n_op, a, b)
                continue
            if not mutual(A, a, b):
                return "op %d: find_path(%d,%d) answered %r for labels that are not mutually reachable" % (n_op, a, b, p)
            if not p or p[0] != a or p[-1] != b:
                return "op %d: find_path(%d,%d) = %r does not start at the first and end at the second label" % (n_op, a, b, p)
            es = set(edges)
            for x, y in zip(p, p[1:]):
                if (x, y) not in es:
                    return "op %d: find_path(%d,%d) = %r uses %d->%d which is not a recorded edge" % (n_op, a, b, p, x, y)
    return None


# ----------------------------------------------------------------- bookkeeping
def nontrivial(case, res):
    if len(case["labels"]) < 3 or "exception" in res:
        return False
    outs = res["out"][0]
    nodes = res["universe"]
    edges, two = [], []
    marked = set()
    merged = ver = False
    for o, r in zip(expand(case), outs):
        c, a, b = o
        if c == 0 and a != b:
            edges += [(a, b), (b, a)]; two += [(a, b), (b, a)]
        elif c == 1 and a != b:
            edges.append((a, b))
        elif c == 2:
            marked.add(a)
        elif c == 4 and r and a != b and not merged:
            idx, T = _closure(nodes, two)
            if not T[idx[a]][idx[b]]:
                merged = True
        elif c == 5 and r and a not in marked:
            ver = True
    return merged and ver


def key(case):
    return (case["exact"], str(case["labels"]), str(case["ops"]))


def classify(case, res):
    tags = ["exact" if case["exact"] else "order-independent"]
    tags.append("labels=%d" % len(case["labels"]))
    ops = case["ops"]
    tags.append("connects=%d" % min(3, sum(1 for o in ops if o[0] == 3)))
    if any(o[0] in (0, 1) and o[1] == o[2] for o in ops):
        tags.append("self_loop")
    outs = res.get("out")
    if isinstance(outs, list) and outs and isinstance(outs[0], list):
        if any(r == -1 for o, r in zip(expand(case), outs[0]) if o[0] == 7):
            tags.append("find_path_KeyError")
    return tags


def shrink(case):
    ops, labels = case["ops"], case["labels"]
    for i in range(len(ops)):
        yield {"exact": case["exact"], "labels": labels, "ops": ops[:i] + ops[i + 1:]}
    used = {x for o in ops if o[0] != 9 for x in o[1:3]}
    for l in labels:
        if len(labels) > 1:
            rest = [x for x in labels if x != l]
            if l not in used:
                yield {"exact": case["exact"], "labels": rest, "ops": ops}
    for i, o in enumerate(ops):
        if o[0] == 9 and o[1] == 1:
            continue
        if o[0] == 0:
            yield {"exact": case["exact"], "labels": labels, "ops": ops[:i] + [[1, o[1], o[2]]] + ops[i + 1:]}


def extra_checks(ctx):
    """CPython detail the exact comparison relies on: sets of ints in 0..7 iterate in ascending order,
    whatever the insertion order and growth history."""
    import itertools
    import random

    rng = random.Random(ctx.seed)
    ok = True
    detail = "ascending iteration confirmed"
    for _ in range(2000):
        k = rng.randint(0, 8)
        xs = rng.sample(range(8), k)
        s = set()
        for x in xs:
            s.add(x)
        if list(s) != sorted(xs):
            ok, detail = False, "set built from %r iterates as %r" % (xs, list(s))
            break
    from harness import gen_selftest

    return [("CPython set iteration order for labels 0..7", ok, detail),
            gen_selftest.rejects(_BAD_SNIPPETS)] + gen_selftest.checks(GEN_TARGETS, ctx.seed, ID)


_EQ_HEAD = "class EquivalenceDB:\n    def _set_equivalent(self, label, other_label):\n"
# source texts outside the translator's subset / with a changed shape: each must be REJECTED (fail closed)
_BAD_SNIPPETS = [
    ("equiv_heaviest", _EQ_HEAD + "        roots = [self[label], self[other_label]]\n"
     "        heaviest = max(roots, key=self.weights.get)\n", "keyword argument"),
    ("equiv_heaviest", _EQ_HEAD + "        roots = [self[label], self[other_label]]\n        roots = sorted(roots)\n"
     "        heaviest = max(((self.weights[r], r) for r in roots))[1]\n", "local roots assigned twice"),
    ("equiv_heaviest", _EQ_HEAD + "        roots = [self[label], self[other_label]]\n"
     "        heaviest = max(((self.weights[r], r) for r in roots))[1]\n        if self.flip:\n            heaviest = roots[0]\n",
     "heaviest assigned a second time"),
    ("equiv_heaviest", _EQ_HEAD + "        roots = [self[label], self.find(other_label)]\n"
     "        heaviest = max(((self.weights[r], r) for r in roots))[1]\n", "reads something the target does not bind"),
]


# translator tie (DESIGN.md 10.9): what the regenerated definitions add to the level
LEVEL_NOTE += (
    " The union-by-weight choice max(((self.weights[r], r) for r in roots))[1] of _set_equivalent is RE-TRANSLATED from equiv_db.py on every run and the model's `heaviest` is proved equal to it (C06_heaviest_is_source; Equiv/GenBridge.v); the regenerated definition is evaluated against the source expression on random arguments every run (harness/gen_selftest.py)."
)
