"""C05 — pruning-based detection and proof-tree search are exact."""
import copy
import itertools
import random
from collections import defaultdict
from types import SimpleNamespace

ID = "C05"
TITLE = "pruning = greatest/least fixed point; every finder returns a valid proof tree; smallest is minimal"
COQ_PROPS = "Props/C05.v"
COQ_RUN = ("Tree.Run", "run_c05")
GEN_TARGETS = ["prune_rule_test", "iterative_prune_rule_test", "iterative_finder_rule_test"]   # Tree/GenBridge.v
N = {"quick": 20000, "thorough": 400000}
RULE = (
    "random integer rule dictionaries (3-10 labels with gaps, 1-4 rules per label, arity 0-3, repeated "
    "children, with/without () rules, children outside the dictionary so that pruning bites), run through: "
    "prune; iterative_prune (root present/absent/None); random_proof_tree and smallish_random_proof_tree "
    "(random.choice/shuffle/time replaced by a recorded scripted source, replayed in the model); "
    "proof_tree_generator_dfs with and without maximum (whole list); proof_tree_generator_bfs; "
    "iterative_proof_tree_finder; and a real RuleDB (fake searcher, integer labels) fed random rule "
    "insertion histories with one-way/two-way equivalence rules, recursive and iterative, start label equal to "
    "or different from its representative, observed through rules_up_to_equivalence, pruned_dict, "
    "has_specification (also queried between insertions: cache invalidation), is_verified and _get_specification_node "
    "(smallish, smallest, iterative). A malformed "
    "stream has empty rule sets, unknown roots and unpruned dictionaries. Non-trivial: the dictionary "
    "has >= 4 labels and pruning removes something but not everything / the tree has >= 4 nodes."
)
TRUSTED = [
    "modelled, not verified: comb_spec_searcher/tree_searcher.py and the finder methods of rule_db/base.py — "
    "hand-written Gallina model Tree/Model.v tied by this correspondence",
    "Python set/dict iteration order is not modelled: dictionaries are compared in canonical (sorted) form; the theorems "
    "hold for every iteration order. random.choice/shuffle and time.time are replaced by a recorded scripted source",
    "the equivalence representative function (EquivalenceDB.__getitem__ after connect_cycles) is an input of the model "
    "(read from the real database); that it names the strongly connected components is property C06",
]
ASSUMPTIONS = [
    "C05_prune_gfp assumes every rule set of the input dictionary is non-empty; C05_quotient_nonempty proves that "
    "rules_up_to_equivalence always produces that shape (a label mapped to an empty set survives: C05_prune_refuted_on_empty_ruleset)",
    "random finders: theorems hold for every oracle that is a possible run of random (chosen rule in the set, shuffle a "
    "permutation, one answer per popped node); other oracles make the model return None and are excluded by hypothesis",
    "minimality of 'smallest' (C05_smallest_minimum) and the fuel theorem assume a closed dictionary (every child is a key), "
    "which prune guarantees (used in C05_smallest_minimum_ruledb) and the Python generator itself assumes",
]
TECHNIQUE = "Coq proof (fixed-point characterisations, invariants over the loops, validity of every yielded tree, minimality) + extracted-model/implementation correspondence with recorded random choices"
LEVEL_TEXT = (
    "Theorems C05_* (coq/theories/Props/C05.v), all closed under the global context: prune terminates and computes exactly the "
    "greatest fixed point (keys and rules) for every iteration order; iterative_prune terminates and computes exactly the "
    "bottom-up least fixed point with the root pre-verified; rules_up_to_equivalence is exactly the recorded rules mapped to "
    "representatives and has_specification is membership of the start label's representative in that fixed point (recursive: "
    "gfp, iterative: lfp with recursion to the representative); every tree returned by random_proof_tree (every oracle), "
    "smallish_random_proof_tree, the bounded and unbounded depth-first generator and the iterative finder uses only "
    "dictionary rules, gives one rule per label and leaves no label without a rule; the iterative finder returns a tree "
    "exactly when the root is derivable; size = 1 + sum of arities; bounded generator = unbounded generator filtered by "
    "size <= maximum (same order); the generator's fuel is never exhausted; _get_smallest_node returns a valid proof tree of "
    "minimum size among ALL valid proof trees. proof_tree_generator_bfs is refuted (C05_bfs_generator_refuted, open finding)."
)
LEVEL_NOTE = (
    "Trusted: Coq kernel, ExtrOcamlBasic extraction + OCaml driver, the correspondence harness. Modelled not verified: "
    "tree_searcher.py / rule_db/base.py themselves. Set iteration order, random and time are oracle arguments; the "
    "representative function is an input (C06). Not modelled: proof_tree_dfs, all_proof_trees_dfs, iterative_proof_tree_bfs "
    "(never called), Node.rule_keys (checked by the oracle on every real tree). "
    "Open finding: proof_tree_generator_bfs (unused by RuleDB) can give one label two rules."
)

KF_BFS = "bfs-generator-two-rules-for-one-label"

# ------------------------------------------------------------------ helpers


def build(dl, default=False):
    """list of [k, [rule, ...]] -> dict of sets of tuples, inserted in the given order"""
    d = defaultdict(set) if default else {}
    for k, rs in dl:
        d[k] = set(tuple(r) for r in rs)
    return d


def canon_dict(d):
    return [[k, [list(r) for r in sorted(d[k])]] for k in sorted(d)]


def listing(d):
    """dictionary in Python's own iteration order"""
    return [[k, [list(r) for r in d[k]]] for k in d]


def tree_sx(t):
    return [t.label, [tree_sx(c) for c in t.children]]


def tnodes(t):
    yield t
    for c in t[1]:
        yield from tnodes(c)


def tsize(t):
    return 1 + sum(tsize(c) for c in t[1])


def ref_gfp(d):
    """greatest S with: k in S -> some rule of k inside S.  Brute force over subsets when small."""
    keys = sorted(d)
    if len(keys) <= 9:
        best = set()
        for mask in range(1 << len(keys)):
            s = {k for i, k in enumerate(keys) if mask >> i & 1}
            if all(any(all(x in s for x in r) for r in d[k]) for k in s):
                best |= s
        return best
    s = set(keys)
    while True:
        s2 = {k for k in s if any(all(x in s for x in r) for r in d[k])}
        if s2 == s:
            return s
        s = s2


def ref_lfp(d, roots):
    """least V containing roots, closed under: some rule of k inside V -> k in V"""
    keys = sorted(set(d) | set(roots))
    if len(keys) <= 9:
        best = None
        for mask in range(1 << len(keys)):
            s = {k for i, k in enumerate(keys) if mask >> i & 1}
            if not set(roots) <= s:
                continue
            if all(k in s for k in d if any(all(x in s for x in r) for r in d[k])):
                best = s if best is None else best & s
        return best
    v = set(roots)
    while True:
        v2 = v | {k for k in d if any(all(x in v for x in r) for r in d[k])}
        if v2 == v:
            return v
        v = v2


def check_tree_all(t, d, root, recursion_to=None, what="tree"):
    """All the ways in which t (nested [label, children]) fails to be a proof tree for d.
    recursion_to = None: leaves may recurse to any label expanded in the tree;
    otherwise only to that label (iterative trees)."""
    probs = []
    if t[0] != root:
        probs.append("%s: root label %r is not the requested root %r" % (what, t[0], root))
    chosen = {}
    for n in tnodes(t):
        l, cs = n[0], tuple(sorted(c[0] for c in n[1]))
        if cs:
            if l not in d or not any(tuple(sorted(r)) == cs for r in d[l]):
                probs.append("%s: rule not in dictionary: %r -> %r" % (what, l, cs))
            if l in chosen and chosen[l] != cs:
                probs.append("%s: one label receives two different rules: %r -> %r and %r" % (what, l, chosen[l], cs))
            chosen.setdefault(l, cs)
    for n in tnodes(t):
        l = n[0]
        if not n[1] and l not in chosen and not (l in d and () in d[l]):
            probs.append("%s: label without rule: %r" % (what, l))
        if not n[1] and recursion_to is not None and l != recursion_to and not (l in d and () in d[l]):
            probs.append("%s: iterative tree recurses to %r which is not the root" % (what, l))
    return probs


def check_tree(t, d, root, recursion_to=None, what="tree"):
    probs = check_tree_all(t, d, root, recursion_to, what)
    return probs[0] if probs else None


def check_rule_keys(node, d, what, formula=True):
    """Node.rule_keys() of the real tree: one entry per label, all rules recorded, all labels covered"""
    try:
        rk = node.rule_keys()
    except AssertionError:
        return "%s: one label receives two different rules (Node.rule_keys asserts)" % what
    seen = {}
    for l, cs in rk:
        if l in seen:
            return "%s: rule_keys has two entries for %r" % (what, l)
        seen[l] = cs
        if l not in d or not any(tuple(sorted(r)) == cs for r in d[l]):
            return "%s: rule_keys entry %r -> %r is not in the dictionary" % (what, l, cs)
    if set(seen) != node.labels():
        return "%s: labels without a rule: %r" % (what, sorted(node.labels() - set(seen)))
    # (iterative trees repeat the whole subtree of a label at every occurrence: no formula there)
    if formula and len(node) != 1 + sum(len(cs) for cs in seen.values()):
        return "%s: size %d is not 1 + sum of arities %r" % (what, len(node), seen)
    return None


def min_tree_size(d, root):
    """exhaustive minimum over choice functions of 1 + sum of arities of the rules of reachable labels"""
    keys = sorted(d)
    best = None
    for combo in itertools.product(*[sorted(d[k]) for k in keys]):
        c = dict(zip(keys, combo))
        reach, todo = set(), [root]
        while todo:
            x = todo.pop()
            if x in reach:
                continue
            reach.add(x)
            todo.extend(c[x])
        s = 1 + sum(len(c[x]) for x in reach)
        if best is None or s < best:
            best = s
    return best


def all_choice_trees(d, root):
    """every depth-first proof tree, one per choice function (independent of the generator)"""
    keys = sorted(d)
    out = set()
    for combo in itertools.product(*[sorted(d[k]) for k in keys]):
        c = dict(zip(keys, combo))
        seen = set()

        def expand(x):
            if x in seen:
                return (x, ())
            seen.add(x)
            return (x, tuple(expand(y) for y in c[x]))

        out.add(expand(root))
    return out


def tup(t):
    return (t[0], tuple(tup(c) for c in t[1]))


def is_closed(d):
    return all(x in d for k in d for r in d[k] for x in r) and all(d[k] for k in d)


# ------------------------------------------------------------ scripted random
class Script:
    """replaces random.choice / random.shuffle / time in tree_searcher and records the answers"""

    def __init__(self, seed, iters=0):
        self.rng = random.Random(seed)
        self.iters = iters
        self.runs = []       # one list of [rule, shuffled labels] per random_proof_tree call
        self.sizes = []
        self.clock = 0

    def choice(self, seq):
        if not seq:
            raise IndexError("Cannot choose from an empty sequence")
        r = seq[self.rng.randrange(len(seq))]
        self.runs[-1].append([list(r), []])
        return r

    def shuffle(self, children):
        self.rng.shuffle(children)
        self.runs[-1][-1][1] = [c.label for c in children]

    def time(self):
        # first call = start_time; the loop test then succeeds `iters` times
        self.clock += 1
        return 0.0 if self.clock <= self.iters + 1 else 1000.0

    def __enter__(self):
        import comb_spec_searcher.tree_searcher as ts

        self.ts = ts
        self.saved = (ts.choice, ts.shuffle, ts.time, ts.random_proof_tree)
        real = ts.random_proof_tree

        def rpt(rules_dict, root):
            self.runs.append([])
            t = real(rules_dict, root=root)
            self.sizes.append(len(t))
            return t

        ts.choice, ts.shuffle, ts.time = self.choice, self.shuffle, SimpleNamespace(time=self.time)
        ts.random_proof_tree = rpt
        return self

    def __exit__(self, *a):
        ts = self.ts
        ts.choice, ts.shuffle, ts.time, ts.random_proof_tree = self.saved


# ------------------------------------------------------------------ RuleDB
class FakeRule:
    def __init__(self, n, two_way):
        self.children = tuple(range(n))
        self.possibly_empty = False
        self._tw = two_way
        self.strategy = "S"

    def is_two_way(self):
        return self._tw


def make_db(case):
    from comb_spec_searcher.rule_db import RuleDB

    db = RuleDB()
    db.link_searcher(
        SimpleNamespace(
            start_label=case["root"],
            strategy_pack=SimpleNamespace(iterative=bool(case["iterative"])),
            classdb=None,
            classqueue=None,
        )
    )
    probes = set(case.get("probes", ()))
    for i, (s, e, tw) in enumerate(case["rules"]):
        db.add(s, tuple(e), FakeRule(len(e), bool(tw)))
        if i in probes:
            # exercises the pruned-dictionary cache: it must be invalidated by the next add
            db.has_specification()
    return db


def db_labels(case):
    ls = {case["root"]}
    for s, e, _ in case["rules"]:
        ls.add(s)
        ls.update(e)
    return sorted(ls)


KIND = {"none": 0, "smallish": 1, "smallest": 2, "iterative": 3}

_CACHE = {}


def run_real(case):
    """Runs the real code once per case (cached): used by impl and, for the recorded oracle, by encode."""
    import json

    ck = json.dumps(case, sort_keys=True)
    if ck in _CACHE:
        return _CACHE[ck]
    try:
        r = _run_real(case)
    except BaseException as ex:  # pylint: disable=broad-except
        import traceback

        r = {"out": {"exception": type(ex).__name__}, "exception": "%s: %s" % (type(ex).__name__, ex),
             "trace": traceback.format_exc()[-1500:]}
    if len(_CACHE) > 2000:
        _CACHE.clear()
    _CACHE[ck] = r
    return r


def _run_real(case):
    import logging

    import comb_spec_searcher.rule_db.base as _base
    import comb_spec_searcher.tree_searcher as ts

    _base.logger.setLevel(logging.ERROR)
    from comb_spec_searcher.exception import SpecificationNotFound

    m = case["mode"]
    if m == "prune":
        d = build(case["d"])
        ts.prune(d)
        return {"out": [1, canon_dict(d)]}
    if m == "iprune":
        d = build(case["d"])
        before = canon_dict(d)
        nd = ts.iterative_prune(d, root=case["root"])
        return {"out": [1, canon_dict(nd)], "input_mutated": canon_dict(d) != before}
    if m in ("random", "smallish"):
        d = build(case["d"], default=True)
        with Script(case["seed"], case.get("iters", 0)) as sc:
            try:
                if m == "random":
                    t = ts.random_proof_tree(d, case["root"])
                else:
                    t = ts.smallish_random_proof_tree(d, case["root"], 1.0)
            except (KeyError, IndexError) as ex:
                return {"out": [0], "runs": sc.runs, "raised": type(ex).__name__}
        return {"out": [1, tree_sx(t)], "runs": sc.runs, "sizes": sc.sizes, "rk": check_rule_keys(t, d, m)}
    if m == "dfs":
        d = build(case["d"])
        try:
            ts_ = list(itertools.islice(ts.proof_tree_generator_dfs(d, case["root"], case["max"]), case["K"]))
        except KeyError:
            return {"out": {"exception": "KeyError"}, "raised": "KeyError"}
        rk = None
        for t in ts_:
            rk = rk or check_rule_keys(t, d, "dfs")
        return {"out": [tree_sx(t) for t in ts_], "rk": rk}
    if m == "bfsgen":
        d = build(case["d"])
        try:
            ts_ = list(itertools.islice(ts.proof_tree_generator_bfs(d, case["root"]), case["K"]))
        except KeyError:
            return {"out": {"exception": "KeyError"}, "raised": "KeyError"}
        return {"out": [tree_sx(t) for t in ts_], "listing": listing(d)}
    if m == "ifinder":
        d = build(case["d"])
        # which tree is built depends on the iteration order of the finder's deep copy
        lst = listing(copy.deepcopy(d))
        try:
            t = ts.iterative_proof_tree_finder(d, case["root"])
        except ValueError:
            return {"out": [0, 4], "listing": lst}
        except KeyError:
            return {"out": [0, 1], "listing": lst}
        return {"out": [1, tree_sx(t)], "rk": check_rule_keys(t, d, "ifinder", formula=False), "listing": lst}
    if m == "ruledb":
        db = make_db(case)
        rules = [[s, list(e)] for s, e in db]
        q = db.rules_up_to_equivalence()
        labels = db_labels(case)
        rep = [[l, db.equivdb[l]] for l in labels]
        res = {"rules": rules, "rep": rep, "quotient": canon_dict(q)}
        with Script(case["seed"], case.get("iters", 0)) as sc:
            pd = db.pruned_dict
            res["pd_listing"] = listing(copy.deepcopy(pd))
            hs = db.has_specification()
            res["verified"] = [l for l in labels if db.is_verified(l)]
            node, rk = [2], None
            kind = case["kind"]
            if kind != "none":
                try:
                    if kind == "iterative":
                        t = db._get_iterative_node()
                    else:
                        t = db._get_specification_node(1.0, kind == "smallest")
                    node = [1, tree_sx(t)]
                    rk = check_rule_keys(t, pd, kind, formula=kind != "iterative")
                except SpecificationNotFound:
                    node = [2]
                except ValueError:
                    node = [0, 4]
                except (KeyError, IndexError):
                    node = [0, 1]
        res["runs"] = sc.runs
        res["rk"] = rk
        res["out"] = [canon_dict(q), [1, canon_dict(pd)], int(hs), node]
        return res
    raise ValueError("unknown mode %r" % m)


def impl(case):
    return run_real(case)


def encode(case):
    m = case["mode"]
    opt = lambda x: [] if x is None else x
    if m == "prune":
        return [0, case["d"]]
    if m == "iprune":
        return [1, case["d"], opt(case["root"])]
    if m == "random":
        r = run_real(case)
        return [2, case["d"], case["root"], r["runs"][0] if r.get("runs") else []]
    if m == "smallish":
        r = run_real(case)
        return [3, case["d"], case["root"], r.get("runs", [])]
    if m == "dfs":
        return [4, case["d"], case["root"], opt(case["max"]), case["K"]]
    if m == "ifinder":
        return [5, run_real(case).get("listing", case["d"]), case["root"]]
    if m == "bfsgen":
        r = run_real(case)
        return [6, r.get("listing", case["d"]), case["root"], case["K"]]
    r = run_real(case)
    kind = KIND[case["kind"]]
    return [7, r.get("rules", []), r.get("rep", []), case["root"], int(case["iterative"]), kind,
            r.get("runs", []), r.get("pd_listing", [])]


# ------------------------------------------------------------------ oracle
def sccs(labels, edges):
    reach = {a: {a} for a in labels}
    for a, b in edges:
        reach[a].add(b)
    changed = True
    while changed:
        changed = False
        for a in labels:
            new = set()
            for b in reach[a]:
                new |= reach[b]
            if not new <= reach[a]:
                reach[a] |= new
                changed = True
    return {a: min(b for b in reach[a] if a in reach[b]) for a in labels}


def oracle(case, res):
    if "exception" in res:
        return "implementation raised " + res["exception"]
    m = case["mode"]
    out = res["out"]
    d = build(case["d"]) if "d" in case else None
    if m == "prune":
        if any(not d[k] for k in d):
            return None  # empty rule sets: outside the property (documented), correspondence only
        s = ref_gfp(d)
        exp = canon_dict({k: {r for r in d[k] if all(x in s for x in r)} for k in s})
        if out != [1, exp]:
            return "prune: result %r is not the greatest fixed point %r" % (out, exp)
        return None
    if m == "iprune":
        roots = [] if case["root"] is None else [case["root"]]
        v = ref_lfp(d, roots)
        exp = {k: {r for r in d[k] if all(x in v for x in r)} for k in d}
        exp = canon_dict({k: rs for k, rs in exp.items() if rs})
        if out != [1, exp]:
            return "iterative_prune: result %r is not the bottom-up closure %r" % (out, exp)
        if res.get("input_mutated"):
            return "iterative_prune mutated its argument"
        return None
    if m in ("random", "smallish"):
        if not is_closed(d) or case["root"] not in d:
            return None
        if out[0] != 1:
            return "%s raised %s on a pruned dictionary" % (m, res.get("raised"))
        why = check_tree(out[1], d, case["root"], what=m) or res.get("rk")
        if why:
            return why
        if m == "smallish":
            sizes = res["sizes"]
            if len(sizes) != case["iters"] + 1:
                return "smallish: %d trees built for %d iterations" % (len(sizes), case["iters"])
            if tsize(out[1]) != min(sizes):
                return "smallish: returned size %d, smallest built %d" % (tsize(out[1]), min(sizes))
        return None
    if m == "dfs":
        if not is_closed(d) or case["root"] not in d:
            return None
        if isinstance(out, dict):
            return "dfs generator raised on a pruned dictionary"
        for t in out:
            why = check_tree(t, d, case["root"], what="dfs")
            if why:
                return why
            if case["max"] is not None and tsize(t) > case["max"]:
                return "dfs: tree of size %d yielded with maximum=%d" % (tsize(t), case["max"])
        if res.get("rk"):
            return res["rk"]
        if len(out) < case["K"]:
            got = [tup(t) for t in out]
            if len(set(got)) != len(got):
                return "dfs: the same tree is yielded twice"
            exp = all_choice_trees(d, case["root"])
            if case["max"] is not None:
                exp = {t for t in exp if tsize(t) <= case["max"]}
            if set(got) != exp:
                return "dfs: yielded trees differ from the choice-function trees: missing %r, extra %r" % (
                    sorted(exp - set(got))[:2], sorted(set(got) - exp)[:2])
        return None
    if m == "bfsgen":
        if not is_closed(d) or case["root"] not in d:
            return None
        if isinstance(out, dict):
            return "bfs generator raised on a pruned dictionary"
        probs = [p for t in out for p in check_tree_all(t, d, case["root"], what="bfsgen")]
        # anything other than the known open finding is reported first
        other = [p for p in probs if not p.startswith("bfsgen: one label receives two different rules")]
        return (other or probs or [None])[0]
    if m == "ifinder":
        v = ref_lfp(d, [case["root"]])
        derivable = case["root"] in d and any(all(x in v for x in r) for r in d[case["root"]])
        if not derivable:
            return None if out == [0, 4] else "iterative finder: %r although the root is not derivable" % (out,)
        if out[0] != 1:
            return "iterative finder: %r although the root is derivable bottom-up" % (out,)
        return check_tree(out[1], d, case["root"], recursion_to=case["root"], what="ifinder") or res.get("rk")
    # ---- ruledb
    labels = db_labels(case)
    edges = []
    for s, e, tw in case["rules"]:
        if len(e) == 1:
            edges.append((s, e[0]))
            if tw:
                edges.append((e[0], s))
    cls = sccs(labels, edges)
    q = defaultdict(set)
    for s, e, tw in case["rules"]:
        if len(e) == 1 and cls[s] == cls[e[0]]:
            continue
        q[cls[s]].add(tuple(sorted(cls[x] for x in e)))
    root = cls[case["root"]]
    rep = dict(res["rep"])
    # impl representatives must name the same partition
    for a in labels:
        for b in labels:
            if (rep[a] == rep[b]) != (cls[a] == cls[b]):
                return "ruledb: equivalence classes differ from the strongly connected components (%r, %r) [C06]" % (a, b)
    to_cls = {rep[a]: cls[a] for a in labels}
    if case["iterative"]:
        v = ref_lfp(q, [root])
        keep = {k: {r for r in q[k] if all(x in v for x in r)} for k in q}
        keep = {k: rs for k, rs in keep.items() if rs}
    else:
        s = ref_gfp(q)
        keep = {k: {r for r in q[k] if all(x in s for x in r)} for k in s}
    exp_hs = root in keep
    hs = bool(out[2])
    if hs != exp_hs:
        return "ruledb(%s): has_specification()=%r but the reference fixed point says %r (start label %d, representative %d)" % (
            "iterative" if case["iterative"] else "recursive", hs, exp_hs, case["root"], rep[case["root"]])
    got_pd = {to_cls[k]: {tuple(sorted(to_cls[x] for x in r)) for r in rs} for k, rs in out[1][1]}
    if got_pd != keep:
        return "ruledb: pruned_dict %r differs from the reference fixed point %r" % (got_pd, keep)
    ver = {l for l in labels if cls[l] in keep}
    if case["iterative"] and case.get("probes"):
        # iterative mode marks a label verified when it is derivable GIVEN the root; such a mark is never
        # withdrawn, so after an earlier has_specification() a label that later merges with the root's class
        # leaves that class marked verified although nothing is derivable (observation, see report): with
        # intermediate queries only "every derivable label is verified" is required
        if not ver <= set(res["verified"]):
            return "ruledb: labels %r are in the fixed point but not is_verified" % (sorted(ver - set(res["verified"])),)
    elif set(res["verified"]) != ver:
        return "ruledb: is_verified true for %r, reference %r" % (res["verified"], sorted(ver))
    node = out[3]
    if case["kind"] == "none":
        return None
    if not hs:
        return None if node == [2] else "ruledb: node %r returned without specification" % (node,)
    if case["iterative"] != (case["kind"] == "iterative"):
        return None  # InvalidOperationError paths are not exercised
    if node[0] != 1:
        return "ruledb: has_specification() but %s finder gave %r" % (case["kind"], node)

    def relabel(t):
        return [to_cls[t[0]], [relabel(c) for c in t[1]]]

    t = relabel(node[1])
    why = check_tree(t, keep, root, recursion_to=root if case["iterative"] else None, what=case["kind"]) or res.get("rk")
    if why:
        return why
    if case["kind"] == "smallest":
        best = min_tree_size(keep, root)
        if tsize(t) != best:
            return "smallest: returned tree has %d nodes, exhaustive minimum is %d" % (tsize(t), best)
    return None


def finding_match(case, why):
    if case["mode"] == "bfsgen" and why.startswith("bfsgen: one label receives two different rules"):
        return KF_BFS
    return None


# ------------------------------------------------------------------ generator
def rand_dict(rng, nmin=3, nmax=10, pool=14, maxrules=4, maxar=3, p_unit=0.3, p_out=0.08, sort=True):
    n = rng.randint(nmin, nmax)
    labels = rng.sample(range(pool), n)
    outside = [x for x in range(pool + 2) if x not in labels] or [pool + 5]
    dl = []
    for k in labels:
        rs = []
        for _ in range(rng.randint(1, maxrules)):
            if rng.random() < p_unit:
                r = []
            else:
                r = [rng.choice(outside) if rng.random() < p_out else rng.choice(labels)
                     for _ in range(rng.randint(1, maxar))]
            if sort or rng.random() < 0.7:
                r = sorted(r)
            if r not in rs:
                rs.append(r)
        dl.append([k, rs])
    return dl


def pruned(dl):
    d = build(dl)
    s = ref_gfp(d)
    return [[k, [r for r in rs if all(x in s for x in r)]] for k, rs in dl if k in s]


def rand_pruned(rng, **kw):
    for _ in range(50):
        dl = pruned(rand_dict(rng, **kw))
        if dl:
            return dl
    return [[0, [[]]]]


def count_dfs(dl, root, cap):
    """number of trees of the unbounded dfs generator, capped (own recursion, only to size the case)"""
    d = {k: sorted(tuple(r) for r in rs) for k, rs in dl}

    def tree(x, seen):
        if x in seen:
            yield seen
            return
        seen = seen | {x}
        for r in d[x]:
            if not r:
                yield seen
            else:
                yield from forest(r, seen)

    def forest(xs, seen):
        if not xs:
            yield seen
            return
        for s1 in tree(xs[0], seen):
            yield from forest(xs[1:], s1)

    n = 0
    for _ in tree(root, frozenset()):
        n += 1
        if n > cap:
            break
    return n


def gen_ruledb(rng):
    n = rng.randint(3, 9)
    labels = list(range(n)) if rng.random() < 0.5 else rng.sample(range(14), n)
    rules = []
    for _ in range(rng.randint(2, 2 * n + 2)):
        s = rng.choice(labels)
        x = rng.random()
        if x < 0.2:
            e = []
        elif x < 0.55:
            e = [rng.choice(labels)]
        else:
            e = [rng.choice(labels) for _ in range(rng.randint(2, 3))]
        tw = 1 if (len(e) == 1 and rng.random() < 0.5) else 0
        rules.append([s, e, tw])
    iterative = rng.random() < 0.4
    if iterative:
        kind = rng.choice(["none", "iterative", "iterative"])
    else:
        kind = rng.choice(["none", "smallish", "smallest", "smallest"])
    probes = sorted(i for i in range(len(rules)) if rng.random() < 0.25) if rng.random() < 0.6 else []
    return {"mode": "ruledb", "rules": rules, "root": rng.choice(labels), "iterative": int(iterative),
            "kind": kind, "seed": rng.randrange(1 << 30), "iters": rng.randint(0, 3), "probes": probes}


def gen(rng, tier):
    while True:
        x = rng.random()
        malformed = rng.random() < 0.08
        if x < 0.18:
            big = tier == "thorough" and rng.random() < 0.2
            dl = rand_dict(rng, nmax=14 if big else 10, pool=18 if big else 14,
                           maxrules=rng.choice([1, 2, 4]),
                           p_unit=rng.choice([0.05, 0.15, 0.3]), p_out=rng.choice([0.05, 0.2, 0.4]), sort=False)
            if malformed and dl:
                dl[rng.randrange(len(dl))][1] = []
            yield {"mode": "prune", "d": dl}
        elif x < 0.33:
            dl = rand_dict(rng, p_unit=rng.choice([0.1, 0.3]), sort=False)
            labels = [k for k, _ in dl]
            y = rng.random()
            root = None if y < 0.15 else (rng.choice(labels) if y < 0.9 else 99)
            if malformed and dl:
                dl[rng.randrange(len(dl))][1] = []
            yield {"mode": "iprune", "d": dl, "root": root}
        elif x < 0.43:
            dl = rand_dict(rng) if malformed else rand_pruned(rng, sort=False)
            root = rng.choice([k for k, _ in dl]) if not (malformed and rng.random() < 0.3) else 77
            yield {"mode": "random", "d": dl, "root": root, "seed": rng.randrange(1 << 30)}
        elif x < 0.48:
            dl = rand_pruned(rng)
            yield {"mode": "smallish", "d": dl, "root": rng.choice([k for k, _ in dl]),
                   "seed": rng.randrange(1 << 30), "iters": rng.randint(0, 5)}
        elif x < 0.62:
            dl = rand_pruned(rng, nmin=2, nmax=6, pool=8, maxrules=3, p_unit=0.35, sort=rng.random() < 0.8)
            root = rng.choice([k for k, _ in dl])
            if count_dfs(dl, root, 3000) > 3000:
                continue
            mx = None if rng.random() < 0.3 else rng.randint(0, 12)
            if malformed and rng.random() < 0.5:
                root = 55
            yield {"mode": "dfs", "d": dl, "root": root, "max": mx, "K": 4000}
        elif x < 0.72:
            dl = rand_dict(rng, p_unit=rng.choice([0.1, 0.3]))
            labels = [k for k, _ in dl]
            yield {"mode": "ifinder", "d": dl, "root": rng.choice(labels) if rng.random() < 0.93 else 88}
        elif x < 0.77:
            dl = rand_pruned(rng, nmin=2, nmax=5, pool=7, maxrules=2, maxar=2, p_unit=0.4)
            root = rng.choice([k for k, _ in dl])
            yield {"mode": "bfsgen", "d": dl, "root": root, "K": 300}
        else:
            yield gen_ruledb(rng)


def nontrivial(case, res):
    out = res.get("out")
    m = case["mode"]
    if m in ("prune", "iprune"):
        return len(case["d"]) >= 4 and out[0] == 1 and 0 < len(out[1]) < len(case["d"])
    if m in ("random", "smallish", "ifinder"):
        return out[0] == 1 and tsize(out[1]) >= 4
    if m in ("dfs", "bfsgen"):
        return isinstance(out, list) and len(out) >= 2
    return isinstance(out, list) and len(out[0]) >= 2 and any(a != b for a, b in res.get("rep", []))


def key(case):
    import json

    return json.dumps(case, sort_keys=True)


def classify(case, res):
    tags = [case["mode"]]
    out = res.get("out")
    m = case["mode"]
    if m == "ruledb":
        tags.append("ruledb:" + ("iterative" if case["iterative"] else "recursive") + ":" + case["kind"])
        if isinstance(out, list):
            tags.append("ruledb:has_spec" if out[2] else "ruledb:no_spec")
            rep = dict(res.get("rep", []))
            if rep.get(case["root"], case["root"]) != case["root"]:
                tags.append("ruledb:root_not_representative")
    elif m in ("random", "smallish", "ifinder") and isinstance(out, list):
        tags.append(m + (":tree" if out[0] == 1 else ":error"))
    elif m in ("prune", "iprune") and isinstance(out, list) and out[0] == 1:
        tags.append(m + (":all" if len(out[1]) == len(case["d"]) else ":none" if not out[1] else ":some"))
    elif m == "dfs" and isinstance(out, list):
        tags.append("dfs:bounded" if case["max"] is not None else "dfs:unbounded")
        tags.append("dfs:empty" if not out else "dfs:nonempty")
    return tags


def shrink(case):
    m = case["mode"]
    if m == "ruledb":
        rules = case["rules"]
        pr = case.get("probes", [])
        for i in range(len(rules)):
            yield dict(case, rules=rules[:i] + rules[i + 1:],
                       probes=[q if q < i else q - 1 for q in pr if q != i or i > 0])
        for j in range(len(pr)):
            yield dict(case, probes=pr[:j] + pr[j + 1:])
        for i, (s, e, tw) in enumerate(rules):
            for j in range(len(e)):
                if len(e) > 2:
                    yield dict(case, rules=rules[:i] + [[s, e[:j] + e[j + 1:], tw]] + rules[i + 1:])
        if case.get("iters"):
            yield dict(case, iters=0)
        return
    dl = case["d"]
    for i in range(len(dl)):
        yield dict(case, d=dl[:i] + dl[i + 1:])
    for i, (k, rs) in enumerate(dl):
        for j in range(len(rs)):
            yield dict(case, d=dl[:i] + [[k, rs[:j] + rs[j + 1:]]] + dl[i + 1:])
    for i, (k, rs) in enumerate(dl):
        for j, r in enumerate(rs):
            for c in range(len(r)):
                yield dict(case, d=dl[:i] + [[k, rs[:j] + [r[:c] + r[c + 1:]] + rs[j + 1:]]] + dl[i + 1:])
    if case.get("iters"):
        yield dict(case, iters=0)


# source texts outside the translator's subset / with a changed shape: each must be REJECTED (fail closed)
_BAD_SNIPPETS = [
    ("prune_rule_test", "def prune(rdict):\n    changed = True\n    while changed:\n        changed = False\n"
     "        for k, rule_set in list(rdict.items()):\n            for rule in list(rule_set):\n"
     "                if any(x not in rdict for x in rule) and len(rule) > 1:\n                    rule_set.discard(rule)\n",
     "the removal statement the test is located by is gone"),
    ("prune_rule_test", "def prune(rdict):\n    for k, rule_set in list(rdict.items()):\n        for rule in list(rule_set):\n"
     "            if any(x not in rdict for x in rule):\n                rule_set.remove(rule)\n", "the enclosing while loop is gone"),
    ("prune_rule_test", "def prune(rdict):\n    changed = True\n    while changed:\n        changed = False\n"
     "        for k, rule_set in list(rdict.items()):\n            for rule in list(rule_set):\n"
     "                if any(rdict.get(x) is None for x in rule):\n                    rule_set.remove(rule)\n",
     "unsupported method call"),
    ("iterative_prune_rule_test", "def iterative_prune(rules_dict, root=None):\n    while True:\n        changed = False\n"
     "        for k, rule_set in list(rdict.items()):\n            for rule in list(rule_set):\n"
     "                if all(x in verified_labels or x == root for x in rule):\n                    changed = True\n",
     "reads a name the target does not bind"),
    ("iterative_prune_rule_test", "def iterative_prune(rules_dict):\n    return rules_dict\n", "changed signature"),
]


def extra_checks(ctx):
    from harness import gen_selftest

    return [gen_selftest.rejects(_BAD_SNIPPETS)] + gen_selftest.checks(GEN_TARGETS, ctx.seed, ID)


# translator tie (DESIGN.md 10.9): what the regenerated definitions add to the level
LEVEL_NOTE += (
    ' The per-rule tests of prune, iterative_prune and iterative_proof_tree_finder are RE-TRANSLATED from tree_searcher.py on every run and the model is proved to branch on exactly those expressions (C05_prune_test_is_source, C05_iterative_test_is_source, C05_finder_test_is_source; Tree/GenBridge.v); each regenerated definition is evaluated against the source expression on random arguments every run (harness/gen_selftest.py). The loops around the tests are tied by the correspondence only.'
)
