"""C05 — pruning-based detection and proof-tree search are exact."""
import copy
import itertools
import random
from collections import defaultdict
from types import SimpleNamespace

ID = "C05"
TITLE = "pruning = greatest/least fixed point; every finder returns a valid proof tree; smallest is minimal"
COQ_PROPS = "Props/C05.v"
COQ_RUN = ("Tree.RunWithEquiv", "run_c05")   # modes 0..7 = Tree/Run.v unchanged, mode 8 = composed RuleDBBase model
GEN_TARGETS = ["prune_rule_test", "iterative_prune_rule_test", "iterative_finder_rule_test"]   # Tree/GenBridge.v
N = {"quick": 22000, "thorough": 440000}
RULE = (
    "random integer rule dictionaries (3-10 labels with gaps, 1-4 rules per label, arity 0-3, repeated "
    "children, with/without () rules, children outside the dictionary so that pruning bites), run through: "
    "prune; iterative_prune (root present/absent/None); random_proof_tree and smallish_random_proof_tree "
    "(random.choice/shuffle/time replaced by a recorded scripted source, replayed in the model); "
    "proof_tree_generator_dfs with and without maximum (whole list); proof_tree_generator_bfs; "
    "iterative_proof_tree_finder; and a real RuleDB (fake searcher, integer labels) fed random rule "
    "insertion histories with one-way/two-way equivalence rules, recursive and iterative, start label equal to "
    "or different from its representative, observed through rules_up_to_equivalence, pruned_dict, "
    "has_specification (also queried between insertions: every intermediate answer is recorded and judged by the oracle "
    "on the prefix of the history), is_verified (compared exactly, the marks of earlier queries included) and "
    "_get_specification_node (smallish, smallest, iterative); and COMPOSED histories (mode 8, ~9% of the cases): a real "
    "RuleDB over labels 0..7 driven by 4-30 public operations - add (ordinary / one-way / two-way / VerificationRule), "
    "has_specification(), is_verified(l), rules_up_to_equivalence(), _get_specification_node(smallest or not), recursive "
    "and iterative - where AFTER EVERY OPERATION the answer, the representative of every label (read on a copy of the "
    "equivalence database), the verified labels and the cached _pruned_dict are compared with the composed model "
    "Tree/WithEquiv.v (whose equivalence database is the C06 model, no representative is an input), and an oracle "
    "independent of model, cache and union-find recomputes partition / fixed point / marks from the requested adds. A malformed "
    "stream has empty rule sets, unknown roots and unpruned dictionaries. Non-trivial: the dictionary "
    "has >= 4 labels and pruning removes something but not everything / the tree has >= 4 nodes."
)
TRUSTED = [
    "modelled, not verified: comb_spec_searcher/tree_searcher.py and the finder methods of rule_db/base.py — "
    "hand-written Gallina model Tree/Model.v tied by this correspondence",
    "Python set/dict iteration order is not modelled: dictionaries are compared in canonical (sorted) form; the theorems "
    "hold for every iteration order. random.choice/shuffle and time.time are replaced by a recorded scripted source",
    "modes 0..7 (Tree/Model.v alone): the equivalence representative function (EquivalenceDB.__getitem__ after "
    "connect_cycles) is an INPUT of the model, read from the real database. Mode 8 (Tree/WithEquiv.v) has no such input: "
    "representatives are `find` on the state of the C06 union-find model, and C05_rep_is_scc / C05_has_spec_scc prove "
    "that at every moment RuleDBBase reads them they name exactly the strongly connected components of the unary rules "
    "recorded by add (C06_classes_are_sccs_after_neutral covers the set_verified calls pruned_dict makes before the reads)",
    "composed histories use labels 0..7 (CPython iterates such sets in ascending order = the runnable set order of the "
    "model); `ends` handed to the model's add are the labels _clean_labels keeps (possibly_empty is False in the harness; "
    "emptiness needs the class database: C04/C14); the rule objects are fakes (a subclass instance of the real "
    "VerificationRule for verification rules)",
]
ASSUMPTIONS = [
    "C05_prune_gfp assumes every rule set of the input dictionary is non-empty; C05_quotient_nonempty proves that "
    "rules_up_to_equivalence always produces that shape (a label mapped to an empty set survives: C05_prune_refuted_on_empty_ruleset)",
    "random finders: `legit d cs [root] []` (Tree/ProgressProofs.v) defines a run of random without reference to the model "
    "(chosen rule in the rule set of the popped label, children a permutation of it when the label is new and the rule not (), "
    "one answer per popped node, down to the empty queue); C05_random_answers_iff_legit: the model answers exactly on those, "
    "so the hypothesis `... = Some t` of the validity theorems means `run of random`. C05_random_finder_never_stuck and "
    "C05_smallish_finder_total assume a closed dictionary with non-empty rule sets whose keys include the root (what prune "
    "returns when has_specification is True); both are necessary (C05_random_stuck_if_not_closed, "
    "C05_random_stuck_if_empty_ruleset). The source of randomness is an arbitrary list of answers: no probability, and the "
    "time limit of smallish is 'some number >= 1 of runs'",
    "minimality of 'smallest' (C05_smallest_minimum) and the fuel theorem assume a closed dictionary (every child is a key), "
    "which prune guarantees (used in C05_smallest_minimum_ruledb) and the Python generator itself assumes",
    "section 8 (composed model): hypotheses order_In / order_len on the set-iteration order (every element, once: as C06); "
    "every theorem is about states `cexec ... rinit h = Some (x, _)` reached from a fresh RuleDB by a history h of the "
    "modelled public operations - C05_composed_total proves every history is such a state; C05_verified_marks_sound "
    "additionally assumes the cache is empty (a recomputation); the node theorems keep the oracle hypotheses of the "
    "random finders (NNoRun = the recorded choices are not a run of random / the listed dictionary is not the cached one)",
]
TECHNIQUE = "Coq proof (fixed-point characterisations, invariants over the loops, validity of every yielded tree, minimality; composed RuleDB model over the C06 union-find: trace invariant, class-level simulation for the cache) + extracted-model/implementation correspondence with recorded random choices, after every operation for composed histories"
LEVEL_TEXT = (
    "Theorems C05_* (coq/theories/Props/C05.v), all closed under the global context: prune terminates and computes exactly the "
    "greatest fixed point (keys and rules) for every iteration order; iterative_prune terminates and computes exactly the "
    "bottom-up least fixed point with the root pre-verified; for a GIVEN representative function rep, "
    "rules_up_to_equivalence is exactly the recorded rules mapped to "
    "representatives and has_specification is membership of the start label's representative in that fixed point (recursive: "
    "gfp, iterative: lfp with recursion to the representative); every tree returned by random_proof_tree / "
    "smallish_random_proof_tree (for every oracle on which the model returns a tree, i.e. every oracle that is a possible run "
    "of random; that real runs fall in that set is not a theorem), the bounded and unbounded depth-first generator and the "
    "iterative finder uses only "
    "dictionary rules, gives one rule per label and leaves no label without a rule; the iterative finder returns a tree "
    "exactly when the root is derivable; size = 1 + sum of arities; bounded generator = unbounded generator filtered by "
    "size <= maximum (same order); on a closed dictionary the generator's fuel is never exhausted; on a closed dictionary, "
    "when it returns at all, _get_smallest_node returns a valid proof tree of "
    "minimum size among all valid proof trees OF THAT (quotient) DICTIONARY. proof_tree_generator_bfs is refuted "
    "(C05_bfs_generator_refuted, open finding); what holds of every tree it yields, for every dictionary, is "
    "C05_bfs_partial: root label, only dictionary rules, no label without a rule (conjuncts 1-2 of validity; one rule per "
    "label is the refuted part; completeness / no duplicates are oracle-only). "
    "PROGRESS of the random finders (Tree/ProgressProofs.v): C05_random_answers_iff_legit (random_proof_tree's model returns a "
    "tree iff the answers are a run of random, `legit`, defined from the dictionary alone); C05_random_pops_bound (from any "
    "loop state an answered run pops at most |queue| + sum over the labels not yet seen of their largest arity: `while queue` "
    "terminates, pop_bound d = 1 + sum of largest arities from the start); C05_random_finder_total (closed, non-empty rule "
    "sets, root a key, complete run of random -> a tree is returned within pop_bound pops); C05_random_finder_total_prefix "
    "(a source of answers legitimate as far as it goes and at least pop_bound long is enough: never out of answers); "
    "C05_random_finder_never_stuck (on such a dictionary EVERY legitimate prefix extends to a complete run which is answered: "
    "no reachable state in which random.choice is asked to pick from a missing or empty rule set - no KeyError/IndexError - "
    "and no infinite loop); C05_random_stuck_if_not_closed / _if_empty_ruleset (both hypotheses are necessary); "
    "C05_smallish_finder_total; on the code path C05_finder_answers_on_runs_of_random (section 8). "
    "SECTION 8 - RuleDBBase as it composes rule keys, EquivalenceDB (C06 model) and the _pruned_dict cache "
    "(Tree/WithEquiv.v, proofs Tree/WithEquiv{Proofs,Inv,Hist,Cache}.v, Tree/Kernel.v, Equiv/Neutral.v): the representative is "
    "NOT a parameter, it is `find` of the current union-find state, and the several reads (rules_up_to_equivalence, the root "
    "in pruned_dict, in has_specification after connect_cycles - fix 50b8703 -, in every finder) are separate lookups. For every "
    "history h of add / has_specification / is_verified / rules_up_to_equivalence / _get_specification_node / cache drops on a "
    "fresh database: C05_composed_total, C05_has_specification_total (every operation answers: C06 totality + termination of "
    "the pruning loops); C05_rep_is_scc (when rules_up_to_equivalence reads them, two labels have the same representative iff "
    "they are mutually reachable along the unary rules recorded by add, one-way and two-way, whatever set_verified calls, "
    "lookups and earlier cycle detections came before; its result is the pure rules_up_to_equivalence at that function); "
    "C05_has_spec_scc, C05_has_spec_recursive_scc, C05_has_spec_iterative_scc (the answer of has_specification - recomputing "
    "or from the cache - is the gfp / bottom-up statement of theorems 3-4 with 'equivalent' meaning exactly 'same strongly "
    "connected component of the recorded unary-rule graph'); C05_finder_total_after_has_specification, "
    "C05_node_not_found_iff_no_specification (_get_specification_node raises SpecificationNotFound iff has_specification() is "
    "False; otherwise the iterative finder returns a valid tree rooted at the root's representative - no ValueError/KeyError -, "
    "smallish/smallest return a valid (smallest: minimum-size) tree for every oracle that is a run of random, "
    "InvalidOperationError only for iterative+smallest); C05_verified_marks_sound + C05_pruned_keys_are_fixed_point (after a "
    "recomputation a label is verified iff its class contains a label verified before or its class is in the fixed point); "
    "C05_is_verified_answer; C05_recompute_idem (recomputing with a valid cache, i.e. twice without an add: same dictionary, "
    "same roots, same verified roots, same edges - the premise recompute_idem of Searcher/Cache.v as a theorem, from "
    "C06_connect_cycles_idempotent's lemma); C05_pruned_dict_cache_transparent, C05_never_caching_same_answers (histories that "
    "differ only in where the cache was dropped give the same Boolean answers, the same found/not-found/invalid outcome of "
    "node requests, the same partition and the same verified labels; the union-find roots may differ, the proof is a "
    "simulation at class level using that pruning does not depend on which label names a class)."
)
LEVEL_NOTE = (
    "Trusted: Coq kernel, ExtrOcamlBasic extraction + OCaml driver, the correspondence harness. Modelled not verified: "
    "tree_searcher.py / rule_db/base.py themselves. Set iteration order, random and time are oracle arguments; the "
    "representative function is an input in modes 0..7 and the union-find's own `find` in the composed model (mode 8). "
    "Not modelled: proof_tree_dfs, all_proof_trees_dfs, iterative_proof_tree_bfs "
    "(never called), Node.rule_keys beyond its generator expression (sorting, replacement of () entries and the assert are "
    "checked by the oracle on every real tree), _clean_labels' emptiness test, get_specification_rules / the rule extractor "
    "(C02), status(), rule_from_equivalence_rule*. In the composed model the binary search of _get_smallest_node reads "
    "pruned_dict / equivdb[root] once instead of once per iteration (reads are cache hits and lookups: C05_recompute_idem, "
    "C06_representative_function); `if ends == [start]: return` in add compares a tuple with a list and is dead code "
    "(modelled as such). Progress of random_proof_tree is proved for the PURE finder (C05_random_finder_total, "
    "_never_stuck: on a closed dictionary with non-empty rule sets every run of random is answered) and chained into the "
    "composed model for recursive packs by C05_finder_answers_on_runs_of_random (after has_specification() = True, "
    "_get_specification_node returns a tree whenever runs <> [] and every recorded run is `legit` on the cached dictionary: "
    "NNoRun excluded). Not chained: that legit runs EXIST for the cached dictionary (needs closed / non-empty of the cached "
    "prune result inside the composed invariant; the pure C05_random_finder_never_stuck + prune_closed give it by hand). The model of the loop has no fuel: 'out of fuel' = the list of answers ended "
    "before the queue was empty (excluded by `legit`, resp. by length >= pop_bound in the _prefix form). The harness "
    "re-derives `legit` and the pop bound on every recorded real run (check_run) and stops the real loop at pop_bound pops "
    "(PopBound) so that a non-terminating finder is a reported failing input, not a timeout. "
    "bfs generator: C05_bfs_partial has no fuel theorem for bfs_helper (fuel = labels + 2) and no completeness statement; the "
    "oracle decides, whenever fewer than K=300 trees come out, that the VALID yielded trees realise exactly the choice "
    "functions of the dictionary and that no valid tree is yielded twice (several valid trees for one choice function are "
    "legitimate: a sibling may stay a leaf); histories start from a fresh database (a pickled / copied RuleDB is C17); the simulation of the cache "
    "theorem compares node requests only up to found / not found / invalid (trees are named by representatives). "
    "In iterative mode marks of earlier queries can be stale (a label derivable GIVEN the root stays verified when its class "
    "later merges with the root's): C05_verified_marks_sound states exactly that, and the oracles reproduce it (no weakening). "
    "Open finding: proof_tree_generator_bfs (unused by RuleDB) can give one label two rules."
)

KF_BFS = "bfs-generator-two-rules-for-one-label"

# ------------------------------------------------------------------ helpers


def build(dl, default=False):
    """list of [k, [rule, ...]] -> dict of sets of tuples, inserted in the given order"""
    d = defaultdict(set) if default else {}
    for k, rs in dl:
        d[k] = set(tuple(r) for r in rs)
    return d


def canon_dict(d):
    return [[k, [list(r) for r in sorted(d[k])]] for k in sorted(d)]


def listing(d):
    """dictionary in Python's own iteration order"""
    return [[k, [list(r) for r in d[k]]] for k in d]


def tree_sx(t):
    return [t.label, [tree_sx(c) for c in t.children]]


def tnodes(t):
    yield t
    for c in t[1]:
        yield from tnodes(c)


def tsize(t):
    return 1 + sum(tsize(c) for c in t[1])


def ref_gfp(d):
    """greatest S with: k in S -> some rule of k inside S.  Brute force over subsets when small."""
    keys = sorted(d)
    if len(keys) <= 9:
        best = set()
        for mask in range(1 << len(keys)):
            s = {k for i, k in enumerate(keys) if mask >> i & 1}
            if all(any(all(x in s for x in r) for r in d[k]) for k in s):
                best |= s
        return best
    s = set(keys)
    while True:
        s2 = {k for k in s if any(all(x in s for x in r) for r in d[k])}
        if s2 == s:
            return s
        s = s2


def ref_lfp(d, roots):
    """least V containing roots, closed under: some rule of k inside V -> k in V"""
    keys = sorted(set(d) | set(roots))
    if len(keys) <= 9:
        best = None
        for mask in range(1 << len(keys)):
            s = {k for i, k in enumerate(keys) if mask >> i & 1}
            if not set(roots) <= s:
                continue
            if all(k in s for k in d if any(all(x in s for x in r) for r in d[k])):
                best = s if best is None else best & s
        return best
    v = set(roots)
    while True:
        v2 = v | {k for k in d if any(all(x in v for x in r) for r in d[k])}
        if v2 == v:
            return v
        v = v2


def check_tree_all(t, d, root, recursion_to=None, what="tree"):
    """All the ways in which t (nested [label, children]) fails to be a proof tree for d.
    recursion_to = None: leaves may recurse to any label expanded in the tree;
    otherwise only to that label (iterative trees)."""
    probs = []
    if t[0] != root:
        probs.append("%s: root label %r is not the requested root %r" % (what, t[0], root))
    chosen = {}
    for n in tnodes(t):
        l, cs = n[0], tuple(sorted(c[0] for c in n[1]))
        if cs:
            if l not in d or not any(tuple(sorted(r)) == cs for r in d[l]):
                probs.append("%s: rule not in dictionary: %r -> %r" % (what, l, cs))
            if l in chosen and chosen[l] != cs:
                probs.append("%s: one label receives two different rules: %r -> %r and %r" % (what, l, chosen[l], cs))
            chosen.setdefault(l, cs)
    for n in tnodes(t):
        l = n[0]
        if not n[1] and l not in chosen and not (l in d and () in d[l]):
            probs.append("%s: label without rule: %r" % (what, l))
        if not n[1] and recursion_to is not None and l != recursion_to and not (l in d and () in d[l]):
            probs.append("%s: iterative tree recurses to %r which is not the root" % (what, l))
    return probs


def check_tree(t, d, root, recursion_to=None, what="tree"):
    probs = check_tree_all(t, d, root, recursion_to, what)
    return probs[0] if probs else None


def check_rule_keys(node, d, what, formula=True):
    """Node.rule_keys() of the real tree: one entry per label, all rules recorded, all labels covered"""
    try:
        rk = node.rule_keys()
    except AssertionError:
        return "%s: one label receives two different rules (Node.rule_keys asserts)" % what
    seen = {}
    for l, cs in rk:
        if l in seen:
            return "%s: rule_keys has two entries for %r" % (what, l)
        seen[l] = cs
        if l not in d or not any(tuple(sorted(r)) == cs for r in d[l]):
            return "%s: rule_keys entry %r -> %r is not in the dictionary" % (what, l, cs)
    if set(seen) != node.labels():
        return "%s: labels without a rule: %r" % (what, sorted(node.labels() - set(seen)))
    # (iterative trees repeat the whole subtree of a label at every occurrence: no formula there)
    if formula and len(node) != 1 + sum(len(cs) for cs in seen.values()):
        return "%s: size %d is not 1 + sum of arities %r" % (what, len(node), seen)
    return None


def min_tree_size(d, root):
    """exhaustive minimum over choice functions of 1 + sum of arities of the rules of reachable labels"""
    keys = sorted(d)
    best = None
    for combo in itertools.product(*[sorted(d[k]) for k in keys]):
        c = dict(zip(keys, combo))
        reach, todo = set(), [root]
        while todo:
            x = todo.pop()
            if x in reach:
                continue
            reach.add(x)
            todo.extend(c[x])
        s = 1 + sum(len(c[x]) for x in reach)
        if best is None or s < best:
            best = s
    return best


def all_choice_trees(d, root):
    """every depth-first proof tree, one per choice function (independent of the generator)"""
    keys = sorted(d)
    out = set()
    for combo in itertools.product(*[sorted(d[k]) for k in keys]):
        c = dict(zip(keys, combo))
        seen = set()

        def expand(x):
            if x in seen:
                return (x, ())
            seen.add(x)
            return (x, tuple(expand(y) for y in c[x]))

        out.add(expand(root))
    return out


def _tree_rules(t):
    """the rule a tree (nested [label, children]) gives each of its labels, as a frozenset of (label, sorted children)"""
    ch = {}
    for n in tnodes(t):
        if n[1]:
            ch[n[0]] = tuple(sorted(c[0] for c in n[1]))
    for n in tnodes(t):
        if not n[1]:
            ch.setdefault(n[0], ())
    return frozenset(ch.items())


def _choice_rule_sets(d, root):
    """for every choice function (one rule per label): its restriction to the labels reachable from root"""
    keys = sorted(d)
    out = set()
    for combo in itertools.product(*[sorted(d[k]) for k in keys]):
        c = dict(zip(keys, combo))
        seen, todo = set(), [root]
        while todo:
            x = todo.pop()
            if x not in seen:
                seen.add(x)
                todo.extend(c[x])
        out.add(frozenset((x, tuple(sorted(c[x]))) for x in seen))
    return out


def tup(t):
    return (t[0], tuple(tup(c) for c in t[1]))


def check_run(run, d, root, what):
    """the recorded answers [rule, shuffled labels] of one random_proof_tree call are a COMPLETE run of random
    (Coq: legit d run [root] []) of at most pop_bound(d) pops; None if so"""
    bound = 1 + sum(max([len(r) for r in d[k]] or [0]) for k in d)
    if len(run) > bound:
        return "%s: %d nodes popped, more than 1 + sum of the largest arities = %d" % (what, len(run), bound)
    queue, seen = [root], set()
    for r, sh in run:
        if not queue:
            return "%s: random consulted after the queue was empty" % what
        v = queue.pop(0)
        if v not in d or tuple(r) not in d[v]:
            return "%s: popped label %r was given the rule %r which is not in its rule set" % (what, v, r)
        if v not in seen and r:
            if sorted(sh) != sorted(r):
                return "%s: children %r of %r are not a shuffle of the chosen rule %r" % (what, sh, v, r)
            queue.extend(sh)
        seen.add(v)
    if queue:
        return "%s: the finder returned with labels %r still queued" % (what, queue)
    return None


def is_closed(d):
    return all(x in d for k in d for r in d[k] for x in r) and all(d[k] for k in d)


# ------------------------------------------------------------ scripted random
class PopBound(RuntimeError):
    """random_proof_tree popped more nodes than the proved bound allows (the queue loop would not terminate)"""


def pop_bound(d):
    """Tree/ProgressProofs.v pop_bound: 1 + sum over the labels of the largest arity of their rules"""
    return 1 + sum(max([len(r) for r in d[k]] or [0]) for k in d)


class Script:
    """replaces random.choice / random.shuffle / time in tree_searcher and records the answers"""

    def __init__(self, seed, iters=0):
        self.rng = random.Random(seed)
        self.iters = iters
        self.runs = []       # one list of [rule, shuffled labels] per random_proof_tree call
        self.sizes = []
        self.clock = 0
        self.max_pops = 500  # stop for runaway loops (the dictionaries of this harness have pop_bound <= 50); callers that know the dictionary set pop_bound(d), the proved bound

    def choice(self, seq):
        if not seq:
            raise IndexError("Cannot choose from an empty sequence")
        if self.max_pops is not None and len(self.runs[-1]) >= self.max_pops:
            # C05_random_pops_bound: an answered run pops at most 1 + sum of the largest arities nodes
            raise PopBound("more than %d nodes popped" % self.max_pops)
        r = seq[self.rng.randrange(len(seq))]
        self.runs[-1].append([list(r), []])
        return r

    def shuffle(self, children):
        self.rng.shuffle(children)
        self.runs[-1][-1][1] = [c.label for c in children]

    def time(self):
        # first call = start_time; the loop test then succeeds `iters` times
        self.clock += 1
        return 0.0 if self.clock <= self.iters + 1 else 1000.0

    def __enter__(self):
        import comb_spec_searcher.tree_searcher as ts

        self.ts = ts
        self.saved = (ts.choice, ts.shuffle, ts.time, ts.random_proof_tree)
        real = ts.random_proof_tree

        def rpt(rules_dict, root):
            self.runs.append([])
            t = real(rules_dict, root=root)
            self.sizes.append(len(t))
            return t

        ts.choice, ts.shuffle, ts.time = self.choice, self.shuffle, SimpleNamespace(time=self.time)
        ts.random_proof_tree = rpt
        return self

    def __exit__(self, *a):
        ts = self.ts
        ts.choice, ts.shuffle, ts.time, ts.random_proof_tree = self.saved


# ------------------------------------------------------------------ RuleDB
class FakeRule:
    def __init__(self, n, two_way):
        self.children = tuple(range(n))
        self.possibly_empty = False
        self._tw = two_way
        self.strategy = "S"

    def is_two_way(self):
        return self._tw


def make_db(case, probe_log=None):
    from comb_spec_searcher.rule_db import RuleDB

    db = RuleDB()
    db.link_searcher(
        SimpleNamespace(
            start_label=case["root"],
            strategy_pack=SimpleNamespace(iterative=bool(case["iterative"])),
            classdb=None,
            classqueue=None,
        )
    )
    probes = set(case.get("probes", ()))
    for i, (s, e, tw) in enumerate(case["rules"]):
        db.add(s, tuple(e), FakeRule(len(e), bool(tw)))
        if i in probes:
            # exercises the pruned-dictionary cache: it must be invalidated by the next add;
            # the answer is recorded and judged by the oracle on the prefix of the history
            hs = db.has_specification()
            if probe_log is not None:
                probe_log.append([i, int(bool(hs))])
    return db


def db_labels(case):
    ls = {case["root"]}
    for s, e, _ in case["rules"]:
        ls.add(s)
        ls.update(e)
    return sorted(ls)


# ------------------------------------------------------- composed RuleDBBase histories (mode 8)
_FAKE_VER = []


def fake_ver_rule():
    """an instance of a subclass of the real VerificationRule (RuleDBBase.add tests isinstance)"""
    if not _FAKE_VER:
        from comb_spec_searcher.strategies.rule import VerificationRule

        class FakeVer(VerificationRule):  # pylint: disable=abstract-method
            children = ()
            possibly_empty = False
            strategy = "V"

            def __init__(self):  # pylint: disable=super-init-not-called
                pass

            def is_two_way(self):
                return False

        FakeVer.__abstractmethods__ = frozenset()
        _FAKE_VER.append(FakeVer)
    return _FAKE_VER[0]()


def composed_db(case):
    from comb_spec_searcher.rule_db import RuleDB

    db = RuleDB()
    db.link_searcher(SimpleNamespace(start_label=case["root"], classdb=None, classqueue=None,
                                     strategy_pack=SimpleNamespace(iterative=bool(case["iterative"]))))
    return db


def observe_db(db, labels):
    """representatives / verified labels read on a COPY of the equivalence database (lookups compress
    paths and create entries), and the cache attribute"""
    e = copy.deepcopy(db.equivdb)
    reps = [[l, e[l]] for l in labels]
    ver = [l for l in labels if e.is_verified(l)]
    pd = db._pruned_dict  # pylint: disable=protected-access
    return [reps, ver, [0] if pd is None else [1, canon_dict(pd)]]


def run_composed_real(case):
    from comb_spec_searcher.exception import InvalidOperationError, SpecificationNotFound

    db = composed_db(case)
    labels = case["labels"]
    out, aux = [], []
    for op in case["ops"]:
        info = {}
        if op[0] == "add":
            _, s, e, ver, tw = op
            db.add(s, tuple(e), fake_ver_rule() if ver else FakeRule(len(e), bool(tw)))
            ans = []
        elif op[0] == "hs":
            ans = [int(bool(db.has_specification()))]
        elif op[0] == "ver":
            ans = [int(bool(db.is_verified(op[1])))]
        elif op[0] == "rue":
            ans = [2, canon_dict(db.rules_up_to_equivalence())]
        elif op[0] == "node":
            _, smallest, seed, iters = op
            rk = None
            with Script(seed, iters) as sc:
                try:
                    t = db._get_specification_node(1.0, bool(smallest))  # pylint: disable=protected-access
                    node = [1, tree_sx(t)]
                    rk = check_rule_keys(t, db._pruned_dict, "node", formula=not case["iterative"])
                except SpecificationNotFound:
                    node = [2]
                except InvalidOperationError:
                    node = [3]
                except ValueError:
                    node = [0, 4]
                except (KeyError, IndexError):
                    node = [0, 1]
            pd = db._pruned_dict  # pylint: disable=protected-access
            info = {"runs": sc.runs, "listed": listing(copy.deepcopy(pd)) if pd is not None else [], "rk": rk}
            ans = [3, node]
        elif op[0] == "drop":
            db._pruned_dict = None  # pylint: disable=protected-access
            ans = []
        else:
            raise ValueError("unknown op %r" % (op,))
        out.append([ans] + observe_db(db, labels))
        aux.append(info)
    return {"out": out, "aux": aux}


def encode_composed(case):
    r = run_real(case)
    aux = r.get("aux", [])
    ops = []
    for i, op in enumerate(case["ops"]):
        if op[0] == "add":
            ops.append([0, op[1], op[2], int(op[3]), int(op[4])])
        elif op[0] == "hs":
            ops.append([1])
        elif op[0] == "ver":
            ops.append([2, op[1]])
        elif op[0] == "rue":
            ops.append([3])
        elif op[0] == "node":
            a = aux[i] if i < len(aux) else {}
            ops.append([4, int(op[1]), a.get("runs", []), a.get("listed", [])])
        else:
            ops.append([5])
    return [8, case["root"], int(case["iterative"]), ops, case["labels"]]


def oracle_composed(case, res):
    """Reference semantics of a RuleDB history, independent of the model, of the cache and of the
    union-find: after every operation
      * classes (read off the implementation's representatives) are sound (same class => mutually reachable
        along the unary rules requested so far), contain the two-way closure, only grow, and are EXACTLY the
        strongly connected components right after has_specification / rules_up_to_equivalence / a node request;
      * has_specification() (every call, also the one made by a node request) is the reference fixed point of
        the requested rules taken up to the strongly connected components;
      * is_verified: a label is verified iff its class contains a label marked so far, where marks are the
        starts of verification rules and, at every has_specification / node request, all labels of the classes
        of the reference fixed point (marks are never withdrawn: in iterative mode they can be stale);
      * a cached pruned dictionary, whenever one is present, is the reference fixed point of the rules
        requested so far (as a set of (class, children classes));
      * rules_up_to_equivalence() is the reference quotient; returned trees are proof trees of the reference
        fixed point (smallest: of minimum size)."""
    out = res["out"]
    labels = case["labels"]
    iterative = bool(case["iterative"])
    edges, twoway, adds = [], [], []
    marked = set()
    prev_cls = {l: l for l in labels}
    if len(out) != len(case["ops"]):
        return "composed: %d observations for %d operations" % (len(out), len(case["ops"]))
    for i, (op, ob) in enumerate(zip(case["ops"], out)):
        where = "composed op %d %r: " % (i, op)
        ans, reps, ver, cache = ob
        rep = dict(reps)
        cls = {a: min(b for b in labels if rep[b] == rep[a]) for a in labels}
        if op[0] == "add":
            _, s, e, isver, tw = op
            adds.append((s, sorted(e)))
            if isver:
                marked.add(s)
            if len(e) == 1:
                edges.append((s, e[0]))
                if tw:
                    edges.append((e[0], s))
                    twoway.append((s, e[0]))
        scc = sccs(labels, edges)
        # --- the partition
        for a in labels:
            for b in labels:
                if cls[a] == cls[b] and scc[a] != scc[b]:
                    return where + "labels %d and %d are in one class but not mutually reachable along recorded unary rules [C06]" % (a, b)
                if prev_cls[a] == prev_cls[b] and cls[a] != cls[b]:
                    return where + "labels %d and %d were equivalent and are not any more" % (a, b)
        for a, b in twoway:
            if cls[a] != cls[b]:
                return where + "two-way rule %d <-> %d but different classes" % (a, b)
        if op[0] in ("hs", "rue", "node"):
            for a in labels:
                if cls[a] != scc[a]:
                    return where + "classes differ from the strongly connected components at label %d right after the representatives were read [C06]" % a
        prev_cls = cls
        # --- reference fixed point of the requested rules, up to the strongly connected components
        q = defaultdict(set)
        for s, e in adds:
            if len(e) == 1 and scc[s] == scc[e[0]]:
                continue
            q[scc[s]].add(tuple(sorted(scc[x] for x in e)))
        root = scc[case["root"]]
        if iterative:
            v = ref_lfp(q, [root])
            keep = {k: {r for r in q[k] if all(x in v for x in r)} for k in q}
            keep = {k: rs for k, rs in keep.items() if rs}
        else:
            g = ref_gfp(q)
            keep = {k: {r for r in q[k] if all(x in g for x in r)} for k in g}
        exp_hs = root in keep
        to_scc = {rep[a]: scc[a] for a in labels}
        # --- answers
        if op[0] == "hs":
            if bool(ans[0]) != exp_hs:
                return where + "has_specification()=%r but the reference fixed point says %r" % (bool(ans[0]), exp_hs)
        if op[0] == "rue":
            try:
                got = {to_scc[k]: {tuple(sorted(to_scc[x] for x in r)) for r in rs} for k, rs in ans[1]}
            except KeyError:
                return where + "rules_up_to_equivalence() %r mentions a label that is not a current representative" % (ans[1],)
            if got != dict(q):
                return where + "rules_up_to_equivalence() %r differs from the reference quotient %r" % (got, dict(q))
        if op[0] == "node":
            node = ans[1]
            if not exp_hs:
                if node != [2]:
                    return where + "node %r returned although the reference says there is no specification" % (node,)
            elif iterative and op[1]:
                if node != [3]:
                    return where + "iterative and smallest: %r instead of InvalidOperationError" % (node,)
            elif node[0] != 1:
                return where + "has a specification but the finder gave %r" % (node,)
        if op[0] in ("hs", "node"):
            marked |= {l for l in labels if scc[l] in keep}
        if op[0] == "ver":
            exp = any(cls[b] == cls[op[1]] for b in marked)
            if bool(ans[0]) != exp:
                return where + "is_verified(%d)=%r, reference %r (marked %r)" % (op[1], bool(ans[0]), exp, sorted(marked))
        expver = [l for l in labels if any(cls[b] == cls[l] for b in marked)]
        if sorted(ver) != expver:
            return where + "verified labels %r, reference %r (marked so far %r)" % (sorted(ver), expver, sorted(marked))
        if cache[0] == 1:
            try:
                got = {to_scc[k]: {tuple(sorted(to_scc[x] for x in r)) for r in rs} for k, rs in cache[1]}
            except KeyError:
                return where + "cached pruned dictionary mentions a label that is not a representative"
            if got != keep:
                return where + "cached pruned dictionary %r differs from the reference fixed point %r of the rules added so far" % (got, keep)
        if op[0] == "node" and ans[1][0] == 1 and exp_hs:
            def relabel(t):
                return [to_scc[t[0]], [relabel(c) for c in t[1]]]

            try:
                t = relabel(ans[1][1])
            except KeyError:
                return where + "tree label that is not a representative"
            why = check_tree(t, keep, root, recursion_to=root if iterative else None, what="node") or res["aux"][i].get("rk")
            if why:
                return where + why
            if op[1] and not iterative:
                best = min_tree_size(keep, root) if len(keep) <= 7 else None
                if best is not None and tsize(t) != best:
                    return where + "smallest: returned tree has %d nodes, exhaustive minimum is %d" % (tsize(t), best)
    return None


def gen_composed(rng):
    n = rng.randint(3, 8)
    labels = sorted(rng.sample(range(8), n))   # 0..7: CPython iterates such sets in ascending order (as C06's exact cases)
    iterative = rng.random() < 0.4
    ops = []
    nops = rng.randint(4, 3 * n + 6)
    p_query = rng.choice([0.2, 0.35, 0.5])
    # shape: mixed, or dominated by one-way unary rules (long one-way cycles closed late, cycles through merged classes)
    p_unary, p_tw = rng.choice([(0.4, 0.45), (0.4, 0.45), (0.7, 0.15)])
    for _ in range(nops):
        if rng.random() >= p_query:
            s = rng.choice(labels)
            x = rng.random()
            ver = 0
            if x < 0.2 * (1 - p_unary) / 0.6:
                e = []
                ver = int(rng.random() < 0.4)
            elif x < 0.2 * (1 - p_unary) / 0.6 + p_unary:
                e = [rng.choice(labels)]
            else:
                e = [rng.choice(labels) for _ in range(rng.randint(2, 3))]
            tw = 1 if (len(e) == 1 and rng.random() < p_tw) else 0
            ops.append(["add", s, e, ver, tw])
        else:
            y = rng.random()
            if y < 0.4:
                ops.append(["hs"])
            elif y < 0.6:
                ops.append(["ver", rng.choice(labels)])
            elif y < 0.7:
                ops.append(["rue"])
            elif y < 0.78:
                # CDrop of Tree/WithEquiv.v: the cached pruned dictionary is thrown away without an add
                # (`self._pruned_dict = None`, what a copy made without the cache / an un-pickled database has)
                ops.append(["drop"])
            else:
                smallest = int(rng.random() < (0.1 if iterative else 0.5))
                ops.append(["node", smallest, rng.randrange(1 << 30), rng.randint(0, 3)])
    return {"mode": "composed", "root": rng.choice(labels), "iterative": int(iterative), "labels": labels, "ops": ops}


KIND = {"none": 0, "smallish": 1, "smallest": 2, "iterative": 3}

_CACHE = {}


def run_real(case):
    """Runs the real code once per case (cached): used by impl and, for the recorded oracle, by encode."""
    import json

    ck = json.dumps(case, sort_keys=True)
    if ck in _CACHE:
        return _CACHE[ck]
    try:
        r = _run_real(case)
    except BaseException as ex:  # pylint: disable=broad-except
        import traceback

        r = {"out": {"exception": type(ex).__name__}, "exception": "%s: %s" % (type(ex).__name__, ex),
             "trace": traceback.format_exc()[-1500:]}
    if len(_CACHE) > 2000:
        _CACHE.clear()
    _CACHE[ck] = r
    return r


def _run_real(case):
    import logging

    import comb_spec_searcher.rule_db.base as _base
    import comb_spec_searcher.tree_searcher as ts

    _base.logger.setLevel(logging.ERROR)
    from comb_spec_searcher.exception import SpecificationNotFound

    m = case["mode"]
    if m == "composed":
        return run_composed_real(case)
    if m == "prune":
        d = build(case["d"])
        ts.prune(d)
        return {"out": [1, canon_dict(d)]}
    if m == "iprune":
        d = build(case["d"])
        before = canon_dict(d)
        nd = ts.iterative_prune(d, root=case["root"])
        return {"out": [1, canon_dict(nd)], "input_mutated": canon_dict(d) != before}
    if m in ("random", "smallish"):
        d = build(case["d"], default=True)
        before = canon_dict(d)
        with Script(case["seed"], case.get("iters", 0)) as sc:
            # on a pruned dictionary the proved bound; otherwise (correspondence only) just a stop for runaway loops
            sc.max_pops = pop_bound(d) if is_closed(d) else 500
            try:
                if m == "random":
                    t = ts.random_proof_tree(d, case["root"])
                else:
                    t = ts.smallish_random_proof_tree(d, case["root"], 1.0)
            except (KeyError, IndexError, PopBound) as ex:
                return {"out": [0], "runs": sc.runs, "raised": "%s (%s)" % (type(ex).__name__, ex)}
        return {"out": [1, tree_sx(t)], "runs": sc.runs, "sizes": sc.sizes, "rk": check_rule_keys(t, d, m),
                "input_mutated": canon_dict(d) != before, "pop_bound": pop_bound(d)}
    if m == "dfs":
        d = build(case["d"])
        try:
            ts_ = list(itertools.islice(ts.proof_tree_generator_dfs(d, case["root"], case["max"]), case["K"]))
        except KeyError:
            return {"out": {"exception": "KeyError"}, "raised": "KeyError"}
        rk = None
        for t in ts_:
            rk = rk or check_rule_keys(t, d, "dfs")
        return {"out": [tree_sx(t) for t in ts_], "rk": rk}
    if m == "bfsgen":
        d = build(case["d"])
        try:
            ts_ = list(itertools.islice(ts.proof_tree_generator_bfs(d, case["root"]), case["K"]))
        except KeyError:
            return {"out": {"exception": "KeyError"}, "raised": "KeyError"}
        return {"out": [tree_sx(t) for t in ts_], "listing": listing(d)}
    if m == "ifinder":
        d = build(case["d"])
        # which tree is built depends on the iteration order of the finder's deep copy
        lst = listing(copy.deepcopy(d))
        try:
            t = ts.iterative_proof_tree_finder(d, case["root"])
        except ValueError:
            return {"out": [0, 4], "listing": lst}
        except KeyError:
            return {"out": [0, 1], "listing": lst}
        return {"out": [1, tree_sx(t)], "rk": check_rule_keys(t, d, "ifinder", formula=False), "listing": lst}
    if m == "ruledb":
        probe_log = []
        db = make_db(case, probe_log)
        rules = [[s, list(e)] for s, e in db]
        q = db.rules_up_to_equivalence()
        labels = db_labels(case)
        rep = [[l, db.equivdb[l]] for l in labels]
        res = {"rules": rules, "rep": rep, "quotient": canon_dict(q)}
        with Script(case["seed"], case.get("iters", 0)) as sc:
            pd = db.pruned_dict
            res["pd_listing"] = listing(copy.deepcopy(pd))
            hs = db.has_specification()
            res["verified"] = [l for l in labels if db.is_verified(l)]
            node, rk = [2], None
            kind = case["kind"]
            if kind != "none":
                try:
                    if kind == "iterative":
                        t = db._get_iterative_node()
                    else:
                        t = db._get_specification_node(1.0, kind == "smallest")
                    node = [1, tree_sx(t)]
                    rk = check_rule_keys(t, pd, kind, formula=kind != "iterative")
                except SpecificationNotFound:
                    node = [2]
                except ValueError:
                    node = [0, 4]
                except (KeyError, IndexError):
                    node = [0, 1]
        res["runs"] = sc.runs
        res["rk"] = rk
        res["probe_hs"] = probe_log
        res["out"] = [canon_dict(q), [1, canon_dict(pd)], int(hs), node]
        return res
    raise ValueError("unknown mode %r" % m)


def impl(case):
    return run_real(case)


def encode(case):
    m = case["mode"]
    opt = lambda x: [] if x is None else x
    if m == "composed":
        return encode_composed(case)
    if m == "prune":
        return [0, case["d"]]
    if m == "iprune":
        return [1, case["d"], opt(case["root"])]
    if m == "random":
        r = run_real(case)
        return [2, case["d"], case["root"], r["runs"][0] if r.get("runs") else []]
    if m == "smallish":
        r = run_real(case)
        return [3, case["d"], case["root"], r.get("runs", [])]
    if m == "dfs":
        return [4, case["d"], case["root"], opt(case["max"]), case["K"]]
    if m == "ifinder":
        return [5, run_real(case).get("listing", case["d"]), case["root"]]
    if m == "bfsgen":
        r = run_real(case)
        return [6, r.get("listing", case["d"]), case["root"], case["K"]]
    r = run_real(case)
    kind = KIND[case["kind"]]
    return [7, r.get("rules", []), r.get("rep", []), case["root"], int(case["iterative"]), kind,
            r.get("runs", []), r.get("pd_listing", [])]


# ------------------------------------------------------------------ oracle
def sccs(labels, edges):
    reach = {a: {a} for a in labels}
    for a, b in edges:
        reach[a].add(b)
    changed = True
    while changed:
        changed = False
        for a in labels:
            new = set()
            for b in reach[a]:
                new |= reach[b]
            if not new <= reach[a]:
                reach[a] |= new
                changed = True
    return {a: min(b for b in reach[a] if a in reach[b]) for a in labels}


def oracle(case, res):
    if "exception" in res:
        return "implementation raised " + res["exception"]
    m = case["mode"]
    out = res["out"]
    if m == "composed":
        return oracle_composed(case, res)
    d = build(case["d"]) if "d" in case else None
    if m == "prune":
        if any(not d[k] for k in d):
            return None  # empty rule sets: outside the property (documented), correspondence only
        s = ref_gfp(d)
        exp = canon_dict({k: {r for r in d[k] if all(x in s for x in r)} for k in s})
        if out != [1, exp]:
            return "prune: result %r is not the greatest fixed point %r" % (out, exp)
        return None
    if m == "iprune":
        roots = [] if case["root"] is None else [case["root"]]
        v = ref_lfp(d, roots)
        exp = {k: {r for r in d[k] if all(x in v for x in r)} for k in d}
        exp = canon_dict({k: rs for k, rs in exp.items() if rs})
        if out != [1, exp]:
            return "iterative_prune: result %r is not the bottom-up closure %r" % (out, exp)
        if res.get("input_mutated"):
            return "iterative_prune mutated its argument"
        return None
    if m in ("random", "smallish"):
        if not is_closed(d) or case["root"] not in d:
            return None
        if out[0] != 1:
            return "%s raised %s on a pruned dictionary" % (m, res.get("raised"))
        why = check_tree(out[1], d, case["root"], what=m) or res.get("rk")
        if why:
            return why
        if res.get("input_mutated"):
            return "%s mutated the rule dictionary (a label was looked up that is not a key)" % m
        # PROGRESS as proved (C05_random_finder_total / C05_random_pops_bound): every recorded run is a run of
        # random in the sense of `legit` (re-derived here from the dictionary, not from the model) and stays
        # within pop_bound
        for run in res.get("runs", []):
            why = check_run(run, d, case["root"], m)
            if why:
                return why
        if m == "smallish":
            sizes = res["sizes"]
            if len(sizes) != case["iters"] + 1:
                return "smallish: %d trees built for %d iterations" % (len(sizes), case["iters"])
            if tsize(out[1]) != min(sizes):
                return "smallish: returned size %d, smallest built %d" % (tsize(out[1]), min(sizes))
        return None
    if m == "dfs":
        if not is_closed(d) or case["root"] not in d:
            return None
        if isinstance(out, dict):
            return "dfs generator raised on a pruned dictionary"
        for t in out:
            why = check_tree(t, d, case["root"], what="dfs")
            if why:
                return why
            if case["max"] is not None and tsize(t) > case["max"]:
                return "dfs: tree of size %d yielded with maximum=%d" % (tsize(t), case["max"])
        if res.get("rk"):
            return res["rk"]
        if len(out) < case["K"]:
            got = [tup(t) for t in out]
            if len(set(got)) != len(got):
                return "dfs: the same tree is yielded twice"
            exp = all_choice_trees(d, case["root"])
            if case["max"] is not None:
                exp = {t for t in exp if tsize(t) <= case["max"]}
            if set(got) != exp:
                return "dfs: yielded trees differ from the choice-function trees: missing %r, extra %r" % (
                    sorted(exp - set(got))[:2], sorted(set(got) - exp)[:2])
        return None
    if m == "bfsgen":
        if not is_closed(d) or case["root"] not in d:
            return None
        if isinstance(out, dict):
            return "bfs generator raised on a pruned dictionary"
        probs = [p for t in out for p in check_tree_all(t, d, case["root"], what="bfsgen")]
        # anything other than the known open finding is reported first
        other = [p for p in probs if not p.startswith("bfsgen: one label receives two different rules")]
        if not other and len(out) < case["K"]:
            # COMPLETENESS (an oracle fact, holds on the unchanged code also where the open finding shows): the VALID
            # trees the generator yields realise exactly the choice functions of the dictionary - compared as rule
            # sets {label -> chosen children} restricted to the labels reachable from the root (the breadth-first
            # trees expand a label at another occurrence than the depth-first reference trees do)
            valid = [t for t in out if not check_tree_all(t, d, case["root"], what="bfsgen")]
            got = {_tree_rules(t) for t in valid}
            exp = _choice_rule_sets(d, case["root"])
            if got != exp:
                other = ["bfsgen: the valid trees yielded do not realise exactly the choice functions of the dictionary: "
                         "missing %r, extra %r" % (sorted(map(sorted, exp - got))[:2], sorted(map(sorted, got - exp))[:2])]
            else:
                # NOTHING VALID TWICE: no valid tree is yielded twice.  (Not demanded: one valid tree per choice
                # function - false on the unchanged code and not part of the property: d={1:{(2,2)},2:{(),(1,)}},
                # root 1 yields (1(2)(2(1))) and (1(2(1))(2)), two valid trees of the choice 2 -> (1,), because a
                # sibling may be left a leaf by choosing () while the other expands.)
                vt = [tup(t) for t in valid]
                if len(set(vt)) != len(vt):
                    dup = sorted(x for x in set(vt) if vt.count(x) > 1)[0]
                    other = ["bfsgen: the same valid tree is yielded twice: %r" % (dup,)]
        return (other or probs or [None])[0]
    if m == "ifinder":
        v = ref_lfp(d, [case["root"]])
        derivable = case["root"] in d and any(all(x in v for x in r) for r in d[case["root"]])
        if not derivable:
            return None if out == [0, 4] else "iterative finder: %r although the root is not derivable" % (out,)
        if out[0] != 1:
            return "iterative finder: %r although the root is derivable bottom-up" % (out,)
        return check_tree(out[1], d, case["root"], recursion_to=case["root"], what="ifinder") or res.get("rk")
    # ---- ruledb
    labels = db_labels(case)
    edges = []
    for s, e, tw in case["rules"]:
        if len(e) == 1:
            edges.append((s, e[0]))
            if tw:
                edges.append((e[0], s))
    cls = sccs(labels, edges)
    q = defaultdict(set)
    for s, e, tw in case["rules"]:
        if len(e) == 1 and cls[s] == cls[e[0]]:
            continue
        q[cls[s]].add(tuple(sorted(cls[x] for x in e)))
    root = cls[case["root"]]
    rep = dict(res["rep"])
    # impl representatives must name the same partition
    for a in labels:
        for b in labels:
            if (rep[a] == rep[b]) != (cls[a] == cls[b]):
                return "ruledb: equivalence classes differ from the strongly connected components (%r, %r) [C06]" % (a, b)
    to_cls = {rep[a]: cls[a] for a in labels}
    if case["iterative"]:
        v = ref_lfp(q, [root])
        keep = {k: {r for r in q[k] if all(x in v for x in r)} for k in q}
        keep = {k: rs for k, rs in keep.items() if rs}
    else:
        s = ref_gfp(q)
        keep = {k: {r for r in q[k] if all(x in s for x in r)} for k in s}
    exp_hs = root in keep
    hs = bool(out[2])
    if hs != exp_hs:
        return "ruledb(%s): has_specification()=%r but the reference fixed point says %r (start label %d, representative %d)" % (
            "iterative" if case["iterative"] else "recursive", hs, exp_hs, case["root"], rep[case["root"]])
    got_pd = {to_cls[k]: {tuple(sorted(to_cls[x] for x in r)) for r in rs} for k, rs in out[1][1]}
    if got_pd != keep:
        return "ruledb: pruned_dict %r differs from the reference fixed point %r" % (got_pd, keep)
    # every intermediate has_specification() is judged on the prefix of the history, and its marks are kept:
    # pruned_dict marks the labels of the fixed point verified and a mark is never withdrawn (in iterative mode a
    # label derivable GIVEN the root stays verified when its class later merges with the root's: such stale
    # marks are part of the reference, see C05_verified_marks_sound), so is_verified is compared exactly
    marked = set()
    answers = dict(res.get("probe_hs", []))
    for i in sorted(set(case.get("probes", ()))):
        if i >= len(case["rules"]):
            continue
        pre = case["rules"][: i + 1]
        pedges = [(s, e[0]) for s, e, tw in pre if len(e) == 1] + [(e[0], s) for s, e, tw in pre if len(e) == 1 and tw]
        pcls = sccs(labels, pedges)
        pq = defaultdict(set)
        for s, e, tw in pre:
            if len(e) == 1 and pcls[s] == pcls[e[0]]:
                continue
            pq[pcls[s]].add(tuple(sorted(pcls[x] for x in e)))
        proot = pcls[case["root"]]
        if case["iterative"]:
            pv = ref_lfp(pq, [proot])
            pkeep = {k for k in pq if any(all(x in pv for x in r) for r in pq[k])}
        else:
            pkeep = ref_gfp(pq)
        if i in answers and bool(answers[i]) != (proot in pkeep):
            return "ruledb: has_specification() after insertion %d answered %r, reference fixed point of that prefix says %r" % (
                i, bool(answers[i]), proot in pkeep)
        marked |= {l for l in labels if pcls[l] in pkeep}
    marked |= {l for l in labels if cls[l] in keep}
    ver = {l for l in labels if any(cls[b] == cls[l] for b in marked)}
    if set(res["verified"]) != ver:
        return "ruledb: is_verified true for %r, reference %r (labels marked by the queries so far %r)" % (
            res["verified"], sorted(ver), sorted(marked))
    node = out[3]
    if case["kind"] == "none":
        return None
    if not hs:
        return None if node == [2] else "ruledb: node %r returned without specification" % (node,)
    if case["iterative"] != (case["kind"] == "iterative"):
        return None  # InvalidOperationError paths are not exercised
    if node[0] != 1:
        return "ruledb: has_specification() but %s finder gave %r" % (case["kind"], node)

    def relabel(t):
        return [to_cls[t[0]], [relabel(c) for c in t[1]]]

    t = relabel(node[1])
    why = check_tree(t, keep, root, recursion_to=root if case["iterative"] else None, what=case["kind"]) or res.get("rk")
    if why:
        return why
    if case["kind"] == "smallest":
        best = min_tree_size(keep, root)
        if tsize(t) != best:
            return "smallest: returned tree has %d nodes, exhaustive minimum is %d" % (tsize(t), best)
    return None


def finding_match(case, why):
    if case["mode"] == "bfsgen" and why.startswith("bfsgen: one label receives two different rules"):
        return KF_BFS
    return None


# ------------------------------------------------------------------ generator
def rand_dict(rng, nmin=3, nmax=10, pool=14, maxrules=4, maxar=3, p_unit=0.3, p_out=0.08, sort=True):
    n = rng.randint(nmin, nmax)
    labels = rng.sample(range(pool), n)
    outside = [x for x in range(pool + 2) if x not in labels] or [pool + 5]
    dl = []
    for k in labels:
        rs = []
        for _ in range(rng.randint(1, maxrules)):
            if rng.random() < p_unit:
                r = []
            else:
                r = [rng.choice(outside) if rng.random() < p_out else rng.choice(labels)
                     for _ in range(rng.randint(1, maxar))]
            if sort or rng.random() < 0.7:
                r = sorted(r)
            if r not in rs:
                rs.append(r)
        dl.append([k, rs])
    return dl


def pruned(dl):
    d = build(dl)
    s = ref_gfp(d)
    return [[k, [r for r in rs if all(x in s for x in r)]] for k, rs in dl if k in s]


def rand_pruned(rng, **kw):
    for _ in range(50):
        dl = pruned(rand_dict(rng, **kw))
        if dl:
            return dl
    return [[0, [[]]]]


def count_dfs(dl, root, cap):
    """number of trees of the unbounded dfs generator, capped (own recursion, only to size the case)"""
    d = {k: sorted(tuple(r) for r in rs) for k, rs in dl}

    def tree(x, seen):
        if x in seen:
            yield seen
            return
        seen = seen | {x}
        for r in d[x]:
            if not r:
                yield seen
            else:
                yield from forest(r, seen)

    def forest(xs, seen):
        if not xs:
            yield seen
            return
        for s1 in tree(xs[0], seen):
            yield from forest(xs[1:], s1)

    n = 0
    for _ in tree(root, frozenset()):
        n += 1
        if n > cap:
            break
    return n


def gen_ruledb(rng):
    n = rng.randint(3, 9)
    labels = list(range(n)) if rng.random() < 0.5 else rng.sample(range(14), n)
    rules = []
    for _ in range(rng.randint(2, 2 * n + 2)):
        s = rng.choice(labels)
        x = rng.random()
        if x < 0.2:
            e = []
        elif x < 0.55:
            e = [rng.choice(labels)]
        else:
            e = [rng.choice(labels) for _ in range(rng.randint(2, 3))]
        tw = 1 if (len(e) == 1 and rng.random() < 0.5) else 0
        rules.append([s, e, tw])
    iterative = rng.random() < 0.4
    if iterative:
        kind = rng.choice(["none", "iterative", "iterative"])
    else:
        kind = rng.choice(["none", "smallish", "smallest", "smallest"])
    probes = sorted(i for i in range(len(rules)) if rng.random() < 0.25) if rng.random() < 0.6 else []
    return {"mode": "ruledb", "rules": rules, "root": rng.choice(labels), "iterative": int(iterative),
            "kind": kind, "seed": rng.randrange(1 << 30), "iters": rng.randint(0, 3), "probes": probes}


def gen(rng, tier):
    while True:
        if rng.random() < 0.09:
            yield gen_composed(rng)
            continue
        x = rng.random()
        malformed = rng.random() < 0.08
        if x < 0.18:
            big = tier == "thorough" and rng.random() < 0.2
            dl = rand_dict(rng, nmax=14 if big else 10, pool=18 if big else 14,
                           maxrules=rng.choice([1, 2, 4]),
                           p_unit=rng.choice([0.05, 0.15, 0.3]), p_out=rng.choice([0.05, 0.2, 0.4]), sort=False)
            if malformed and dl:
                dl[rng.randrange(len(dl))][1] = []
            yield {"mode": "prune", "d": dl}
        elif x < 0.33:
            dl = rand_dict(rng, p_unit=rng.choice([0.1, 0.3]), sort=False)
            labels = [k for k, _ in dl]
            y = rng.random()
            root = None if y < 0.15 else (rng.choice(labels) if y < 0.9 else 99)
            if malformed and dl:
                dl[rng.randrange(len(dl))][1] = []
            yield {"mode": "iprune", "d": dl, "root": root}
        elif x < 0.43:
            dl = rand_dict(rng) if malformed else rand_pruned(rng, sort=False)
            root = rng.choice([k for k, _ in dl]) if not (malformed and rng.random() < 0.3) else 77
            yield {"mode": "random", "d": dl, "root": root, "seed": rng.randrange(1 << 30)}
        elif x < 0.48:
            dl = rand_pruned(rng)
            yield {"mode": "smallish", "d": dl, "root": rng.choice([k for k, _ in dl]),
                   "seed": rng.randrange(1 << 30), "iters": rng.randint(0, 5)}
        elif x < 0.62:
            dl = rand_pruned(rng, nmin=2, nmax=6, pool=8, maxrules=3, p_unit=0.35, sort=rng.random() < 0.8)
            root = rng.choice([k for k, _ in dl])
            if count_dfs(dl, root, 3000) > 3000:
                continue
            mx = None if rng.random() < 0.3 else rng.randint(0, 12)
            if malformed and rng.random() < 0.5:
                root = 55
            yield {"mode": "dfs", "d": dl, "root": root, "max": mx, "K": 4000}
        elif x < 0.72:
            dl = rand_dict(rng, p_unit=rng.choice([0.1, 0.3]))
            labels = [k for k, _ in dl]
            yield {"mode": "ifinder", "d": dl, "root": rng.choice(labels) if rng.random() < 0.93 else 88}
        elif x < 0.77:
            dl = rand_pruned(rng, nmin=2, nmax=5, pool=7, maxrules=2, maxar=2, p_unit=0.4)
            root = rng.choice([k for k, _ in dl])
            yield {"mode": "bfsgen", "d": dl, "root": root, "K": 300}
        else:
            yield gen_ruledb(rng)


def nontrivial(case, res):
    out = res.get("out")
    m = case["mode"]
    if m == "composed":
        return (isinstance(out, list) and len(out) >= 4 and any(a != b for ob in out for a, b in ob[1])
                and any(ob[3][0] == 1 and ob[3][1] for ob in out))
    if m in ("prune", "iprune"):
        return len(case["d"]) >= 4 and out[0] == 1 and 0 < len(out[1]) < len(case["d"])
    if m in ("random", "smallish", "ifinder"):
        return out[0] == 1 and tsize(out[1]) >= 4
    if m in ("dfs", "bfsgen"):
        return isinstance(out, list) and len(out) >= 2
    return isinstance(out, list) and len(out[0]) >= 2 and any(a != b for a, b in res.get("rep", []))


def key(case):
    import json

    return json.dumps(case, sort_keys=True)


def classify(case, res):
    tags = [case["mode"]]
    out = res.get("out")
    m = case["mode"]
    if m == "composed":
        tags.append("composed:" + ("iterative" if case["iterative"] else "recursive"))
        if isinstance(out, list):
            for op, ob in zip(case["ops"], out):
                if op[0] == "hs":
                    tags.append("composed:hs_true" if ob[0][0] else "composed:hs_false")
                if op[0] == "node":
                    tags.append("composed:node_%s" % {1: "tree", 2: "notfound", 3: "invalid", 0: "error"}[ob[0][1][0]])
            if any(ob[3][0] == 1 for ob, op in zip(out, case["ops"]) if op[0] in ("hs", "node", "ver", "rue")):
                tags.append("composed:query_with_cache")
            if any(op[0] == "drop" and i > 0 and out[i - 1][3][0] == 1 for i, op in enumerate(case["ops"][:len(out)])):
                tags.append("composed:live_cache_dropped")
            if any(ob[2] for ob in out):
                tags.append("composed:some_verified")
        return sorted(set(tags))
    if m == "ruledb":
        tags.append("ruledb:" + ("iterative" if case["iterative"] else "recursive") + ":" + case["kind"])
        if isinstance(out, list):
            tags.append("ruledb:has_spec" if out[2] else "ruledb:no_spec")
            rep = dict(res.get("rep", []))
            if rep.get(case["root"], case["root"]) != case["root"]:
                tags.append("ruledb:root_not_representative")
    elif m in ("random", "smallish", "ifinder") and isinstance(out, list):
        tags.append(m + (":tree" if out[0] == 1 else ":error"))
    elif m in ("prune", "iprune") and isinstance(out, list) and out[0] == 1:
        tags.append(m + (":all" if len(out[1]) == len(case["d"]) else ":none" if not out[1] else ":some"))
    elif m == "dfs" and isinstance(out, list):
        tags.append("dfs:bounded" if case["max"] is not None else "dfs:unbounded")
        tags.append("dfs:empty" if not out else "dfs:nonempty")
    return tags


def shrink(case):
    m = case["mode"]
    if m == "composed":
        ops = case["ops"]
        for i in range(len(ops) - 1, -1, -1):
            yield dict(case, ops=ops[:i] + ops[i + 1:])
        for i, op in enumerate(ops):
            if op[0] == "add" and len(op[2]) > 2:
                for j in range(len(op[2])):
                    yield dict(case, ops=ops[:i] + [["add", op[1], op[2][:j] + op[2][j + 1:], op[3], op[4]]] + ops[i + 1:])
            if op[0] == "node" and op[3]:
                yield dict(case, ops=ops[:i] + [["node", op[1], op[2], 0]] + ops[i + 1:])
        return
    if m == "ruledb":
        rules = case["rules"]
        pr = case.get("probes", [])
        for i in range(len(rules)):
            yield dict(case, rules=rules[:i] + rules[i + 1:],
                       probes=[q if q < i else q - 1 for q in pr if q != i or i > 0])
        for j in range(len(pr)):
            yield dict(case, probes=pr[:j] + pr[j + 1:])
        for i, (s, e, tw) in enumerate(rules):
            for j in range(len(e)):
                if len(e) > 2:
                    yield dict(case, rules=rules[:i] + [[s, e[:j] + e[j + 1:], tw]] + rules[i + 1:])
        if case.get("iters"):
            yield dict(case, iters=0)
        return
    dl = case["d"]
    for i in range(len(dl)):
        yield dict(case, d=dl[:i] + dl[i + 1:])
    for i, (k, rs) in enumerate(dl):
        for j in range(len(rs)):
            yield dict(case, d=dl[:i] + [[k, rs[:j] + rs[j + 1:]]] + dl[i + 1:])
    for i, (k, rs) in enumerate(dl):
        for j, r in enumerate(rs):
            for c in range(len(r)):
                yield dict(case, d=dl[:i] + [[k, rs[:j] + [r[:c] + r[c + 1:]] + rs[j + 1:]]] + dl[i + 1:])
    if case.get("iters"):
        yield dict(case, iters=0)


# source texts outside the translator's subset / with a changed shape: each must be REJECTED (fail closed)
_BAD_SNIPPETS = [
    ("prune_rule_test", "def prune(rdict):\n    changed = True\n    while changed:\n        changed = False\n"
     "        for k, rule_set in list(rdict.items()):\n            for rule in list(rule_set):\n"
     "                if any(x not in rdict for x in rule) and len(rule) > 1:\n                    rule_set.discard(rule)\n",
     "the removal statement the test is located by is gone"),
    ("prune_rule_test", "def prune(rdict):\n    for k, rule_set in list(rdict.items()):\n        for rule in list(rule_set):\n"
     "            if any(x not in rdict for x in rule):\n                rule_set.remove(rule)\n", "the enclosing while loop is gone"),
    ("prune_rule_test", "def prune(rdict):\n    changed = True\n    while changed:\n        changed = False\n"
     "        for k, rule_set in list(rdict.items()):\n            for rule in list(rule_set):\n"
     "                if any(rdict.get(x) is None for x in rule):\n                    rule_set.remove(rule)\n",
     "unsupported method call"),
    ("iterative_prune_rule_test", "def iterative_prune(rules_dict, root=None):\n    while True:\n        changed = False\n"
     "        for k, rule_set in list(rdict.items()):\n            for rule in list(rule_set):\n"
     "                if all(x in verified_labels or x == root for x in rule):\n                    changed = True\n",
     "reads a name the target does not bind"),
    ("iterative_prune_rule_test", "def iterative_prune(rules_dict):\n    return rules_dict\n", "changed signature"),
]


def extra_checks(ctx):
    from harness import gen_selftest

    return [gen_selftest.rejects(_BAD_SNIPPETS)] + gen_selftest.checks(GEN_TARGETS, ctx.seed, ID)


# translator tie (DESIGN.md 10.9): what the regenerated definitions add to the level
LEVEL_NOTE += (
    ' The per-rule tests of prune, iterative_prune and iterative_proof_tree_finder are RE-TRANSLATED from tree_searcher.py on every run and the model is proved to branch on exactly those expressions (C05_prune_test_is_source, C05_iterative_test_is_source, C05_finder_test_is_source; Tree/GenBridge.v); each regenerated definition is evaluated against the source expression on random arguments every run (harness/gen_selftest.py). The loops around the tests are tied by the correspondence only.'
)

# strengthening of the oracles (CLAUSES.md G.1 item 10)
RULE += (
    ' bfsgen: besides validity of every tree, the VALID trees must realise exactly the choice functions of the dictionary (as rule sets restricted to the labels reachable from the root) - completeness, decided whenever fewer than K trees came out; composed histories contain cache-drop operations (CDrop: _pruned_dict = None without an add, 8% of the queries).'
)

# progress of the random finder / duplicates of the bfs generator (CLAUSES.md C05 (c) items 1 and 3)
RULE += (
    ' random / smallish on pruned dictionaries: every recorded run of the real finder must be a complete run of random in the '
    'sense of the Coq predicate `legit` (re-derived by check_run from the dictionary: rule in the rule set of the popped label, '
    'children a shuffle of it, queue empty at the end) of at most pop_bound = 1 + sum of largest arities pops; the real loop is '
    'stopped at that many pops (a finder that would not terminate is a failing input); the dictionary must not be mutated. '
    'bfsgen: no VALID tree may be yielded twice.'
)
