"""
Table universes: classes are integers and every strategy reads its behaviour
(applies or not, children, flags, shifts, emptiness) from a finite table.
They have no combinatorial meaning; they exist to reach rule-graph shapes the
word universes never produce.  The same table is sent to the Coq searcher
model, so model and implementation run on literally the same data.

A universe U is a JSON-able dict:
  ncls, empty[c], start,
  strats[sid] = {kind: "S" plain | "F" factory | "V" verification | "Y" symmetry,
                 flags: [ignore_parent, inferrable, possibly_empty, workable],
                 apply: {str(c): entry}            (S, V, Y)
                        {str(c): [item, ...]}      (F)}
     entry = {children: [c..], two_way: 0/1, reversible: 0/1, shifts: [..]}
     item  = {sid: hidden plain strategy, on: class or None, lazy: 0/1}
             on = None : the factory yields the strategy itself
             on = c'   : the factory yields the ready rule sid(c') (lazy: built
                         with children=None so that rule.children may raise)
  pack = {initial: [sid], inferral: [sid], expansion: [[sid]], ver: [sid], sym: [sid], iterative: 0/1}
"""
from typing import Iterator, Optional, Tuple

from comb_spec_searcher import CombinatorialClass, StrategyPack
from comb_spec_searcher.exception import StrategyDoesNotApply
from comb_spec_searcher.strategies.rule import Rule
from comb_spec_searcher.strategies.strategy import (
    DisjointUnionStrategy,
    StrategyFactory,
    SymmetryStrategy,
    VerificationStrategy,
)

UNIVERSES = {}
LOG = []  # (kind, sid, class, result) application log, per process


def register(u):
    uid = u.setdefault("uid", "u%d" % len(UNIVERSES))
    UNIVERSES[uid] = u
    return uid


class TClass(CombinatorialClass):
    def __init__(self, uid, n):
        self.uid = uid
        self.n = n

    def __len__(self):
        return 0

    def is_empty(self):
        LOG.append(("empty", -1, self.n, None))
        return bool(UNIVERSES[self.uid]["empty"][self.n])

    @classmethod
    def from_dict(cls, d):
        return cls(d["uid"], d["n"])

    def to_jsonable(self):
        d = super().to_jsonable()
        d["uid"] = self.uid
        d["n"] = self.n
        return d

    def __eq__(self, other):
        return isinstance(other, TClass) and self.uid == other.uid and self.n == other.n

    def __hash__(self):
        return hash((self.uid, self.n))

    def __repr__(self):
        return "TClass(%r, %d)" % (self.uid, self.n)

    def __str__(self):
        return "class %d" % self.n


class TBytesClass(TClass):
    """stored compressed by ClassDB"""

    def to_bytes(self):
        return ("%s:%d" % (self.uid, self.n)).encode()

    @classmethod
    def from_bytes(cls, b):
        uid, n = b.decode().rsplit(":", 1)
        return cls(uid, int(n))


def _entry(uid, sid, c):
    return UNIVERSES[uid]["strats"][sid]["apply"].get(str(c.n))


class TStrategy(DisjointUnionStrategy):
    def __init__(self, uid, sid):
        f = UNIVERSES[uid]["strats"][sid]["flags"]
        super().__init__(ignore_parent=bool(f[0]), inferrable=bool(f[1]), possibly_empty=bool(f[2]), workable=bool(f[3]))
        self.uid = uid
        self.sid = sid

    def decomposition_function(self, comb_class):
        e = _entry(self.uid, self.sid, comb_class)
        LOG.append(("apply", self.sid, comb_class.n, None if e is None else tuple(e["children"])))
        if e is None:
            return None
        return tuple(type(comb_class)(self.uid, c) for c in e["children"])

    def is_two_way(self, comb_class):
        e = _entry(self.uid, self.sid, comb_class)
        return bool(e and e["two_way"])

    def is_reversible(self, comb_class):
        e = _entry(self.uid, self.sid, comb_class)
        return bool(e and e["reversible"])

    def shifts(self, comb_class, children=None):
        e = _entry(self.uid, self.sid, comb_class)
        if e is None:
            raise StrategyDoesNotApply("Strategy does not apply")
        return tuple(e["shifts"])

    def formal_step(self):
        return "table strategy %d" % self.sid

    def forward_map(self, comb_class, obj, children=None):
        raise NotImplementedError

    def to_jsonable(self):
        d = super().to_jsonable()
        d["uid"] = self.uid
        d["sid"] = self.sid
        return d

    @classmethod
    def from_dict(cls, d):
        return cls(d["uid"], d["sid"])

    def __repr__(self):
        return "%s(%r, %d)" % (type(self).__name__, self.uid, self.sid)

    def __str__(self):
        return self.formal_step()


class TSymmetry(SymmetryStrategy):
    def __init__(self, uid, sid):
        super().__init__()
        self.uid = uid
        self.sid = sid

    decomposition_function = TStrategy.decomposition_function
    is_two_way = TStrategy.is_two_way
    is_reversible = TStrategy.is_reversible
    shifts = TStrategy.shifts
    to_jsonable = TStrategy.to_jsonable
    __repr__ = TStrategy.__repr__

    def formal_step(self):
        return "table symmetry %d" % self.sid

    def forward_map(self, comb_class, obj, children=None):
        raise NotImplementedError

    @classmethod
    def from_dict(cls, d):
        return cls(d["uid"], d["sid"])

    def __str__(self):
        return self.formal_step()


class TVerification(VerificationStrategy):
    def __init__(self, uid, sid):
        f = UNIVERSES[uid]["strats"][sid]["flags"]
        super().__init__(ignore_parent=bool(f[0]))
        self.uid = uid
        self.sid = sid

    def verified(self, comb_class):
        return _entry(self.uid, self.sid, comb_class) is not None

    def decomposition_function(self, comb_class):
        e = _entry(self.uid, self.sid, comb_class)
        LOG.append(("verify", self.sid, comb_class.n, None if e is None else tuple(e["children"])))
        if e is None:
            return None
        return tuple(type(comb_class)(self.uid, c) for c in e["children"])

    def shifts(self, comb_class, children=None):
        e = _entry(self.uid, self.sid, comb_class)
        return tuple(e["shifts"]) if e else ()

    def formal_step(self):
        return "table verification %d" % self.sid

    def to_jsonable(self):
        d = super().to_jsonable()
        d["uid"] = self.uid
        d["sid"] = self.sid
        return d

    @classmethod
    def from_dict(cls, d):
        return cls(d["uid"], d["sid"])

    def __repr__(self):
        return "TVerification(%r, %d)" % (self.uid, self.sid)

    def __str__(self):
        return self.formal_step()


class TFactory(StrategyFactory):
    def __init__(self, uid, sid):
        self.uid = uid
        self.sid = sid

    def __call__(self, comb_class) -> Iterator:
        items = UNIVERSES[self.uid]["strats"][self.sid]["apply"].get(str(comb_class.n), [])
        LOG.append(("factory", self.sid, comb_class.n, len(items)))
        for it in items:
            strat = TStrategy(self.uid, it["sid"])
            if it["on"] is None:
                yield strat
            else:
                parent = type(comb_class)(self.uid, it["on"])
                if it.get("lazy"):
                    yield Rule(strat, parent)
                else:
                    try:
                        yield strat(parent)
                    except StrategyDoesNotApply:
                        continue

    def to_jsonable(self):
        d = super().to_jsonable()
        d["uid"] = self.uid
        d["sid"] = self.sid
        return d

    @classmethod
    def from_dict(cls, d):
        return cls(d["uid"], d["sid"])

    def __repr__(self):
        return "TFactory(%r, %d)" % (self.uid, self.sid)

    def __str__(self):
        return "table factory %d" % self.sid


KIND = {"S": TStrategy, "F": TFactory, "V": TVerification, "Y": TSymmetry}


def make_strategy(uid, sid):
    return KIND[UNIVERSES[uid]["strats"][sid]["kind"]](uid, sid)


def make_pack(uid):
    u = UNIVERSES[uid]
    p = u["pack"]
    mk = lambda l: [make_strategy(uid, s) for s in l]  # noqa: E731
    return StrategyPack(
        initial_strats=mk(p["initial"]),
        inferral_strats=mk(p["inferral"]),
        expansion_strats=[mk(x) for x in p["expansion"]],
        ver_strats=mk(p["ver"]),
        symmetries=mk(p["sym"]),
        iterative=bool(p.get("iterative")),
        name="table pack " + uid,
    )


def start_class(uid, compressed=False):
    u = UNIVERSES[uid]
    return (TBytesClass if compressed else TClass)(uid, u["start"])


# ------------------------------------------------------------------ generator
def random_universe(rng, ncls=None, richness=1.0):
    """A random table universe (JSON-able, not yet registered)."""
    n = ncls or rng.randint(2, 9)
    empty = [1 if rng.random() < 0.15 else 0 for _ in range(n)]
    start = rng.randrange(n)
    empty[start] = 0 if rng.random() < 0.95 else empty[start]
    strats = []

    def rnd_entry(c, arity=None, sym=False, ver=False):
        if sym:
            kids = [rng.randrange(n)]
        elif ver:
            kids = [] if rng.random() < 0.8 else [rng.randrange(n) for _ in range(rng.randint(1, 2))]
        else:
            ar = arity if arity is not None else rng.choice([1, 1, 2, 2, 3])
            kids = [rng.randrange(n) for _ in range(ar)]
        two_way = 1 if (sym or rng.random() < 0.6) else 0
        return {
            "children": kids,
            "two_way": two_way,
            "reversible": 1 if (two_way or rng.random() < 0.4) else 0,   # two-way rules are reversible
            "shifts": [rng.choice([0, 0, 0, 1, 1, 2, -1]) for _ in kids],
        }

    def plain(kind="S", density=0.5, arity=None, flags=None):
        ap = {}
        for c in range(n):
            if rng.random() < density:
                ap[str(c)] = rnd_entry(c, arity, sym=(kind == "Y"), ver=(kind == "V"))
        if flags is None:
            if kind == "Y":
                flags = [0, 0, 0, 0]
            elif kind == "V":
                flags = [rng.randint(0, 1), 0, 0, 0]
            else:
                flags = [1 if rng.random() < 0.2 else 0, 1 if rng.random() < 0.8 else 0,
                         1 if rng.random() < 0.7 else 0, 1 if rng.random() < 0.85 else 0]
        strats.append({"kind": kind, "flags": flags, "apply": ap})
        return len(strats) - 1

    def factory():
        hidden = [plain("S", density=0.7) for _ in range(rng.randint(1, 2))]
        ap = {}
        for c in range(n):
            if rng.random() < 0.6:
                items = []
                for _ in range(rng.randint(1, 3)):
                    h = rng.choice(hidden)
                    x = rng.random()
                    if x < 0.5:
                        items.append({"sid": h, "on": None, "lazy": 0})
                    elif x < 0.8:
                        items.append({"sid": h, "on": c, "lazy": rng.randint(0, 1)})
                    else:
                        items.append({"sid": h, "on": rng.randrange(n), "lazy": rng.randint(0, 1)})
                ap[str(c)] = items
        strats.append({"kind": "F", "flags": [0, 1, 1, 1], "apply": ap})
        return len(strats) - 1

    def some(k, mk):
        return [mk() for _ in range(k)]

    nver = rng.choice([1, 1, 2])
    ver = some(nver, lambda: plain("V", density=0.3))
    inferral = some(rng.choice([0, 0, 1, 2]), lambda: plain("S", density=0.3, arity=1, flags=[0, 1, rng.randint(0, 1), 1]))
    initial = some(rng.choice([0, 1, 1, 2]), lambda: plain("S") if rng.random() < 0.7 else factory())
    expansion = [some(rng.choice([1, 1, 2]), lambda: plain("S") if rng.random() < 0.75 else factory())
                 for _ in range(rng.choice([0, 1, 1, 2]))]
    sym = some(rng.choice([0, 0, 0, 1, 2]), lambda: plain("Y", density=0.6))
    # make the table honour the strategy contracts the engine relies on:
    # a non-empty class never decomposes into empty classes only, an empty class
    # only into empty classes, a strategy declaring possibly_empty=False has no
    # empty child, a symmetry preserves emptiness, verified classes are non-empty
    nonempty = [c for c in range(n) if not empty[c]] or [start]
    empties_ = [c for c in range(n) if empty[c]]
    for st in strats:
        if st["kind"] == "F":
            continue
        for cs, e in list(st["apply"].items()):
            c = int(cs)
            kids = e["children"]
            if st["kind"] == "V":
                if empty[c]:
                    del st["apply"][cs]
                    continue
                e["children"] = [k if not empty[k] else rng.choice(nonempty) for k in kids]
                continue
            if empty[c]:
                e["children"] = [k if empty[k] else rng.choice(empties_) for k in kids]
            else:
                if st["kind"] == "Y" or not st["flags"][2]:
                    kids = [k if not empty[k] else rng.choice(nonempty) for k in kids]
                elif kids and all(empty[k] for k in kids):
                    kids = list(kids)
                    kids[rng.randrange(len(kids))] = rng.choice(nonempty)
                e["children"] = kids
    return {
        "ncls": n,
        "empty": empty,
        "start": start,
        "strats": strats,
        "pack": {"initial": initial, "inferral": inferral, "expansion": expansion, "ver": ver, "sym": sym,
                 "iterative": 0},
    }
