"""
Universe for C08: word classes WITH STATISTICS (extra parameters), searched by the
repo's own CombinatorialSpecificationSearcher, so that random sampling runs through
DisjointUnion / CartesianProduct with non-trivial extra_parameters, `zeroes`,
`fixed_values` (EquivalencePathRule) and contradictory parameter assignments.

StatWord(prefix, patterns, alphabet, just_prefix, stats): the words of
example.AvoidingWithPrefix (imported from /repo/example.py, not copied); parameter
number i, named "k<i>_<letter>", counts the occurrences of stats[i] in the whole
word.  A letter may be listed twice (two parameters that always agree).

Strategies
  StatExpansion   disjoint union: just the prefix, or one more letter   (every parameter kept)
  StatRemoveFront Cartesian product: safe front of the prefix (atom) x rest (parameters add up)
  DropZeroStat    unary union: a parameter of a letter that is forbidden as a pattern and absent from
                  the prefix is identically 0 and dropped on the child        -> `zeroes`
  MergeDuplicate  unary union: two parameters of the same letter become one on the child
                                                                                -> contradiction skipping
  StatSplitAlphabet  Cartesian product of two non-atoms (a block over some letters, then a block over the
                  others); each parent parameter is mapped to ONE factor only
  AddStat         (only in stat_pack_add) unary union from a class tracking nothing to the same class tracking
                  one letter: the child has a statistic the parent lacks            -> `fixed_values` of
                  EquivalencePathRule (known finding "eqpath-child-statistic-untracked-by-parent-sampling")
  StatAtom        verification of a single word, with parameters (the repo's AtomStrategy refuses them)
"""
from collections import Counter, defaultdict
from itertools import product

from comb_spec_searcher import (
    AtomStrategy,
    CartesianProductStrategy,
    CombinatorialSpecificationSearcher,
    DisjointUnionStrategy,
    StrategyPack,
)
from example import AvoidingWithPrefix, RemoveFrontOfPrefix, Word


class StatWord(AvoidingWithPrefix):
    def __init__(self, prefix, patterns, alphabet, just_prefix=False, stats=()):
        super().__init__(prefix, patterns, alphabet, just_prefix)
        self.stats = tuple(stats)

    @property
    def extra_parameters(self):
        return tuple("k%d_%s" % (i, x) for i, x in enumerate(self.stats))

    def letter_of(self, parameter):
        return parameter.split("_", 1)[1]

    def get_parameters(self, obj):
        return tuple(obj.count(x) for x in self.stats)

    def get_minimum_value(self, parameter):
        return self.prefix.count(self.letter_of(parameter))

    def possible_parameters(self, n):
        for vals in product(range(n + 1), repeat=len(self.stats)):
            yield dict(zip(self.extra_parameters, vals))

    def to_jsonable(self):
        d = super().to_jsonable()
        d["stats"] = list(self.stats)
        return d

    @classmethod
    def from_dict(cls, d):
        return cls(d["prefix"], d["patterns"], d["alphabet"], bool(int(d["just_prefix"])), d["stats"])

    def __eq__(self, other):
        if not isinstance(other, StatWord):
            return NotImplemented
        return AvoidingWithPrefix.__eq__(self, other) and self.stats == other.stats

    def __hash__(self):
        return hash((AvoidingWithPrefix.__hash__(self), self.stats))

    def __repr__(self):
        return "StatWord(%r, %r, %r, %r, %r)" % (
            str(self.prefix), tuple(map(str, self.patterns)), self.alphabet, self.just_prefix, self.stats)

    def __str__(self):
        return AvoidingWithPrefix.__str__(self) + " tracking %s" % (self.stats,)

    def with_(self, prefix=None, just_prefix=None, stats=None):
        return StatWord(
            self.prefix if prefix is None else prefix,
            self.patterns,
            self.alphabet,
            self.just_prefix if just_prefix is None else just_prefix,
            self.stats if stats is None else stats,
        )


class _Base:
    def formal_step(self):
        return type(self).__name__

    def __repr__(self):
        return type(self).__name__ + "()"

    def __str__(self):
        return type(self).__name__

    @classmethod
    def from_dict(cls, d):
        return cls()


class StatExpansion(_Base, DisjointUnionStrategy):
    def decomposition_function(self, c):
        if c.just_prefix:
            return None
        return (c.with_(just_prefix=True),) + tuple(c.with_(prefix=c.prefix + a) for a in c.alphabet)

    def extra_parameters(self, comb_class, children=None):
        if children is None:
            children = self.decomposition_function(comb_class)
        return tuple({k: k for k in comb_class.extra_parameters} for _ in children)

    def forward_map(self, comb_class, word, children=None):
        if children is None:
            children = self.decomposition_function(comb_class)
        if len(word) == len(comb_class.prefix):
            return (word,) + tuple(None for _ in children[1:])
        for idx, child in enumerate(children[1:]):
            if word[: len(child.prefix)] == child.prefix:
                break
        return tuple(None for _ in range(idx + 1)) + (word,) + tuple(None for _ in range(len(children) - idx - 2))


class StatRemoveFront(_Base, CartesianProductStrategy):
    def decomposition_function(self, c):
        if c.just_prefix:
            return None
        safe = RemoveFrontOfPrefix().index_safe_to_remove_up_to(c)
        if safe <= 0:
            return None
        return (c.with_(prefix=c.prefix[:safe], just_prefix=True), c.with_(prefix=c.prefix[safe:]))

    def extra_parameters(self, comb_class, children=None):
        if children is None:
            children = self.decomposition_function(comb_class)
        return tuple({k: k for k in comb_class.extra_parameters} for _ in children)

    def backward_map(self, comb_class, words, children=None):
        yield Word(words[0] + words[1])

    def forward_map(self, comb_class, word, children=None):
        if children is None:
            children = self.decomposition_function(comb_class)
        cut = len(children[0].prefix)
        return Word(word[:cut]), Word(word[cut:])


class StatSplitAlphabet(_Base, CartesianProductStrategy):
    """SplitAlphabet of harness/universes/c08_words.py with statistics: each factor tracks the statistics of
    its own letters only, so a parent parameter is mapped to exactly one child (the other gets maximum 0)"""

    def decomposition_function(self, c):
        from harness.universes.c08_words import alphabet_split

        s = alphabet_split(c)
        if s is None:
            return None
        g1, g2, p1, p2 = s
        return tuple(
            StatWord("", pats, list(alph), False, tuple(x for x in c.stats if x in alph))
            for pats, alph in ((p1, g1), (p2, g2))
        )

    def extra_parameters(self, comb_class, children=None):
        if children is None:
            children = self.decomposition_function(comb_class)
        res = []
        for child in children:
            mine = [k for k in comb_class.extra_parameters if comb_class.letter_of(k) in child.alphabet]
            res.append(dict(zip(mine, child.extra_parameters)))
        return tuple(res)

    def backward_map(self, comb_class, words, children=None):
        yield Word(words[0] + words[1])

    def forward_map(self, comb_class, word, children=None):
        if children is None:
            children = self.decomposition_function(comb_class)
        g2 = children[1].alphabet
        cut = next((i for i, ch in enumerate(word) if ch in g2), len(word))
        return Word(word[:cut]), Word(word[cut:])


class DropZeroStat(_Base, DisjointUnionStrategy):
    """k_x = 0 on the whole class when x is itself a forbidden pattern and not in the prefix"""

    def __init__(self):
        super().__init__(ignore_parent=True, inferrable=True, possibly_empty=False, workable=True)

    @staticmethod
    def droppable(c):
        return [i for i, x in enumerate(c.stats) if x in c.patterns and x not in c.prefix]

    def decomposition_function(self, c):
        drop = self.droppable(c)
        if not drop:
            return None
        return (c.with_(stats=tuple(x for i, x in enumerate(c.stats) if i != drop[0])),)

    def extra_parameters(self, comb_class, children=None):
        drop = self.droppable(comb_class)[0]
        kept = [k for i, k in enumerate(comb_class.extra_parameters) if i != drop]
        if children is None:
            children = self.decomposition_function(comb_class)
        return (dict(zip(kept, children[0].extra_parameters)),)

    def forward_map(self, comb_class, word, children=None):
        return (word,)


class MergeDuplicate(_Base, DisjointUnionStrategy):
    """two parameters counting the same letter always agree: the child keeps one"""

    def __init__(self):
        super().__init__(ignore_parent=True, inferrable=True, possibly_empty=False, workable=True)

    @staticmethod
    def dup(c):
        for i, x in enumerate(c.stats):
            for j in range(i + 1, len(c.stats)):
                if c.stats[j] == x:
                    return i, j
        return None

    def decomposition_function(self, c):
        d = self.dup(c)
        if d is None:
            return None
        return (c.with_(stats=tuple(x for i, x in enumerate(c.stats) if i != d[1])),)

    def extra_parameters(self, comb_class, children=None):
        i, j = self.dup(comb_class)
        if children is None:
            children = self.decomposition_function(comb_class)
        names = comb_class.extra_parameters
        kept = [k for pos, k in enumerate(names) if pos != j]
        res = dict(zip(kept, children[0].extra_parameters))
        res[names[j]] = res[names[i]]
        # keep the parent's order of parameters in the dictionary
        return ({k: res[k] for k in names},)

    def forward_map(self, comb_class, word, children=None):
        return (word,)


class AddStat(_Base, DisjointUnionStrategy):
    """A class tracking nothing is the same set of words as the class tracking the number of a's: unary
    union whose child carries a statistic that NO parent statistic maps to (extra_parameters = ({},)).
    Counting handles it (DisjointUnion.get_terms sums over the child's values).  Only in `stat_pack_add`."""

    def __init__(self):
        super().__init__(ignore_parent=True, inferrable=True, possibly_empty=False, workable=True)

    def decomposition_function(self, c):
        if c.stats or c.just_prefix:
            return None
        return (c.with_(stats=(c.alphabet[0],)),)

    def extra_parameters(self, comb_class, children=None):
        return ({},)

    def forward_map(self, comb_class, word, children=None):
        return (word,)


class StatAtom(_Base, AtomStrategy):
    """AtomStrategy for classes with parameters (the repo's raises NotImplementedError there)"""

    def get_terms(self, comb_class, n):
        if n == comb_class.minimum_size_of_object():
            return Counter([comb_class.get_parameters(comb_class.prefix)])
        return Counter()

    def get_objects(self, comb_class, n):
        res = defaultdict(list)
        if n == comb_class.minimum_size_of_object():
            res[comb_class.get_parameters(comb_class.prefix)].append(Word(comb_class.prefix))
        return res

    def random_sample_object_of_size(self, comb_class, n, **parameters):
        if n != comb_class.minimum_size_of_object():
            raise ValueError("Invalid size")
        return next(comb_class.objects_of_size(n))


stat_pack = StrategyPack(
    initial_strats=[StatRemoveFront(), StatSplitAlphabet(), DropZeroStat(), MergeDuplicate()],
    inferral_strats=[],
    expansion_strats=[[StatExpansion()]],
    ver_strats=[StatAtom()],
    name="words with statistics",
)


stat_pack_add = StrategyPack(
    initial_strats=[AddStat(), StatRemoveFront(), StatSplitAlphabet(), DropZeroStat(), MergeDuplicate()],
    inferral_strats=[],
    expansion_strats=[[StatExpansion()]],
    ver_strats=[StatAtom()],
    name="words with statistics, a statistic added on the way",
)


def stat_spec(prefix, patterns, alphabet, stats, add=False):
    start = StatWord(prefix, patterns, list(alphabet), False, tuple(stats))
    searcher = CombinatorialSpecificationSearcher(start, stat_pack_add if add else stat_pack)
    return searcher.auto_search()
