"""
One-factor products on the word universes: unary re-descriptions of a word class declared as a
CartesianProductStrategy with ONE child ("the class is the product of a single factor").

A product with a single factor is a size-preserving bijection between the class and its only factor,
so the searcher treats the rule as an EQUIVALENCE (CartesianProductStrategy.can_be_equivalent, two-way
and reversible by default).  Specifications returned by the searcher then contain such rules inside
EquivalencePathRules, forwards (a plain Rule whose constructor is a CartesianProduct with one child)
and backwards (a ReverseRule whose constructor is a Quotient with one child): what the repository's
fix 25e10f1 made countable.  The maps are the ones of words_ext.py (SwapLetters, PermuteLettersOneWay,
MinimizePatterns), only the declared constructor differs.

The strategies
  swap    exchange the first two letters (an involution: every class it reaches is expanded too, so
          the steps found are forward ones)
  perm<k> relabel the letters by PERMS3[k] (three letters); optionally restricted to classes with an
          empty prefix: the orbit is then only partly covered by forward rules and paths use the rule
          BACKWARDS
  canon   relabel the letters so that the description (prefix, patterns) becomes the lexicographically
          least one of its orbit; applies to non-canonical classes only, so a path from the canonical
          class to a non-canonical one is a REVERSE step
  min     drop the patterns that contain another pattern (identity on words; reverse when the path
          leads from the minimal description to a redundant one)

Packs (names start with "of1_", resolved lazily by words_ext.PACKS; never drawn by
words_ext.random_cfg: the generators of C01 and C07 call maybe_onefactor below).
"""
from itertools import permutations

from comb_spec_searcher import AtomStrategy, StrategyPack
from comb_spec_searcher.strategies.strategy import CartesianProductStrategy
from example import AvoidingWithPrefix, ExpansionStrategy, RemoveFrontOfPrefix, Word

from harness.universes import words_ext as W


def _relabel(w, table):
    return "".join(table[x] for x in w)


def _image(c, table):
    return AvoidingWithPrefix(_relabel(c.prefix, table), [_relabel(p, table) for p in c.patterns],
                              c.alphabet, c.just_prefix)


def _descr(c, table):
    return (_relabel(c.prefix, table), tuple(sorted(_relabel(p, table) for p in c.patterns)))


class OneFactor(CartesianProductStrategy[AvoidingWithPrefix, Word]):
    """mode in {"swap", "perm0".."perm4", "canon", "min"}; `empty_prefix_only` restricts where the strategy
    applies.  One child; forward_map / backward_map are the relabelling and its inverse (identity for min)."""

    def __init__(self, mode="swap", empty_prefix_only=False, ignore_parent=False):
        super().__init__(ignore_parent=bool(ignore_parent), inferrable=False, possibly_empty=False, workable=True)
        self.mode = mode
        self.empty_prefix_only = bool(empty_prefix_only)

    # -- the relabelling used on class c (None: does not apply); a dict letter -> letter
    def _table(self, c):
        alph = list(c.alphabet)
        if self.mode == "min":
            return {x: x for x in alph}
        if self.mode == "swap":
            if len(alph) < 2:
                return None
            t = {x: x for x in alph}
            t[alph[0]], t[alph[1]] = alph[1], alph[0]
            return t
        if self.mode.startswith("perm"):
            perm = W.PERMS3[int(self.mode[4:])]
            if len(alph) != len(perm):
                return None
            return {alph[i]: alph[j] for i, j in enumerate(perm)}
        if self.mode == "canon":
            best = None
            for q in permutations(alph):
                t = dict(zip(alph, q))
                d = _descr(c, t)
                if best is None or d < best[0]:
                    best = (d, t)
            if best[0] == _descr(c, {x: x for x in alph}):
                return None      # already canonical
            return best[1]
        raise ValueError(self.mode)

    def decomposition_function(self, c):
        if self.empty_prefix_only and (c.prefix or c.just_prefix):
            return None
        if self.mode == "min":
            pats = c.patterns
            keep = tuple(p for p in pats if not any(q != p and q in p for q in pats))
            if len(keep) == len(pats):
                return None
            return (AvoidingWithPrefix(c.prefix, keep, c.alphabet, c.just_prefix),)
        t = self._table(c)
        if t is None:
            return None
        return (_image(c, t),)

    def formal_step(self):
        return "one-factor product: %s%s" % (self.mode, " (empty prefix only)" if self.empty_prefix_only else "")

    def forward_map(self, comb_class, obj, children=None):
        return (Word(_relabel(obj, self._table(comb_class))),)

    def backward_map(self, comb_class, objs, children=None):
        t = self._table(comb_class)
        inv = {v: k for k, v in t.items()}
        yield Word(_relabel(objs[0], inv))

    def to_jsonable(self):
        d = super().to_jsonable()
        d["mode"] = self.mode
        d["empty_prefix_only"] = self.empty_prefix_only
        return d

    @classmethod
    def from_dict(cls, d):
        return cls(d.get("mode", "swap"), d.get("empty_prefix_only", False), d.get("ignore_parent", False))

    def __repr__(self):
        return "OneFactor(%r, %r, %r)" % (self.mode, self.empty_prefix_only, self.ignore_parent)

    def __str__(self):
        return self.formal_step()


def _pack(name, initial, second=None):
    def make():
        exp = [[ExpansionStrategy()]] + ([list(second)] if second else [])
        return StrategyPack([RemoveFrontOfPrefix()] + list(initial), [], exp, [AtomStrategy()], name=name)

    return make


PACKS = {
    "of1_swap": _pack("of1_swap", [OneFactor("swap")]),
    "of1_swap_late": _pack("of1_swap_late", [], [OneFactor("swap")]),
    "of1_canon": _pack("of1_canon", [OneFactor("canon")]),
    "of1_canon_late": _pack("of1_canon_late", [], [OneFactor("canon")]),
    "of1_min": _pack("of1_min", [OneFactor("min")]),
    "of1_min+swap": _pack("of1_min+swap", [OneFactor("min"), OneFactor("swap")]),
    "of1_min+canon": _pack("of1_min+canon", [OneFactor("min"), OneFactor("canon")]),
    "of1_rot": _pack("of1_rot", [OneFactor("perm0")]),
    "of1_rot_e": _pack("of1_rot_e", [OneFactor("perm0", True)]),
    "of1_rot_e+swap": _pack("of1_rot_e+swap", [OneFactor("perm0", True), OneFactor("perm2")]),
    "of1_rot2_e": _pack("of1_rot2_e", [OneFactor("perm0", True), OneFactor("perm1", True)]),
}

_REDUNDANT = [i for i, sp in enumerate(W.START_SPECS)
              if any(q != p and q in p for p in sp[1] for q in sp[1])]
_THREE = [i for i, sp in enumerate(W.START_SPECS) if len(sp[2]) == 3]


def maybe_onefactor(rng, cfg, prob=0.13):
    """with probability `prob` replace the pack of a words_ext configuration by a one-factor-product pack
    (and move the start class to where that pack acts)"""
    if rng.random() >= prob:
        return cfg
    name = rng.choice(list(PACKS))
    cfg["pack"] = name
    if "rot" in name:
        cfg["start"] = rng.choice(_THREE)
    elif "min" in name and rng.random() < 0.6:
        cfg["start"] = rng.choice(_REDUNDANT)
    if cfg["ruledb"].startswith("forest") and rng.random() < 0.4:
        cfg["ruledb"] = rng.choice(["base", "forget"])
    return cfg


# ------------------------------------------------------------------ measuring
def onefactor_census(spec):
    """how the one-child product rules of a specification occur:
    dict(path_fwd, path_rev, lone_fwd, lone_rev, equiv_fwd, equiv_rev) -> count"""
    from comb_spec_searcher.strategies.rule import EquivalencePathRule, EquivalenceRule, ReverseRule, VerificationRule

    out = dict(path_fwd=0, path_rev=0, lone_fwd=0, lone_rev=0)

    def look(r, where):
        orig = r.original_rule if isinstance(r, EquivalenceRule) else r
        rev = isinstance(orig, ReverseRule)
        base = orig.original_rule if rev else orig
        if isinstance(base.strategy, CartesianProductStrategy) and len(base.children) == 1:
            out["%s_%s" % (where, "rev" if rev else "fwd")] += 1

    for rule in spec.rules_dict.values():
        if isinstance(rule, VerificationRule):
            continue
        if isinstance(rule, EquivalencePathRule):
            for r in rule.rules:
                look(r, "path")
        else:
            look(rule, "lone")
    return out


# ------------------------------------------------------------------ with statistics (c08_stats universe)
def _stat_universe():
    from harness.universes import c08_stats

    return c08_stats


class SortStats(CartesianProductStrategy):
    """A class of words with statistics (c08_stats.StatWord) whose tracked letters are not listed in
    alphabetical order is the one-factor product of the same words with the statistics listed in order:
    identity on words, the PARAMETERS are renamed (k0_b, k1_a  ->  k1_b, k0_a).  Injective renaming, so the rule
    can also be used backwards inside an equivalence path."""

    def __init__(self):
        super().__init__(ignore_parent=False, inferrable=False, possibly_empty=False, workable=True)

    @staticmethod
    def _order(c):
        return sorted(range(len(c.stats)), key=lambda i: (c.stats[i], i))

    def decomposition_function(self, c):
        order = self._order(c)
        if order == list(range(len(c.stats))):
            return None
        return (c.with_(stats=tuple(c.stats[i] for i in order)),)

    def extra_parameters(self, comb_class, children=None):
        if children is None:
            children = self.decomposition_function(comb_class)
        order = self._order(comb_class)
        pn, cn = comb_class.extra_parameters, children[0].extra_parameters
        return ({pn[i]: cn[pos] for pos, i in enumerate(order)},)

    def forward_map(self, comb_class, obj, children=None):
        return (obj,)

    def backward_map(self, comb_class, objs, children=None):
        yield objs[0]

    def formal_step(self):
        return "one-factor product: list the statistics in alphabetical order"

    def __repr__(self):
        return "SortStats()"

    def __str__(self):
        return self.formal_step()

    @classmethod
    def from_dict(cls, d):
        return cls()


def stat_spec(prefix, patterns, alphabet, stats, add=False):
    """c08_stats.stat_spec with SortStats in front of the pack's initial strategies"""
    from comb_spec_searcher import CombinatorialSpecificationSearcher

    S = _stat_universe()
    base = S.stat_pack_add if add else S.stat_pack
    pack = StrategyPack([SortStats()] + list(base.initial_strats), [], [list(x) for x in base.expansion_strats],
                        list(base.ver_strats), name=base.name + ", statistics sorted by a one-factor product")
    start = S.StatWord(prefix, patterns, list(alphabet), False, tuple(stats))
    return CombinatorialSpecificationSearcher(start, pack).auto_search()
