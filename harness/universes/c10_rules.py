"""
Universes for C10: REAL rule objects of /repo whose sub-term providers are
wrapped so that the sizes requested during get_terms(n) are recorded.

Two families, both driven through the repo's own Rule / ReverseRule /
CartesianProduct / Quotient / DisjointUnion / Complement code:

* words  — the classes of /repo/example.py (imported, not copied) with its
  ExpansionStrategy (unions) and RemoveFrontOfPrefix (products), plus
  SplitPrefix: a CartesianProductStrategy subclass cutting the prefix of a
  pattern-free word class into several atoms (products with 2-4 children,
  atoms of size 0).
* series — synthetic classes given by an expression tree (atom of size m,
  geometric class x^m/(1-gx), product, sum) whose true counts are computed
  here by convolution, so that products with several non-atom factors and
  arbitrary minimum sizes exist; SerProduct / SerUnion are the repo's
  strategy base classes with a decomposition function reading the tree.
"""
from collections import Counter
from functools import lru_cache

from comb_spec_searcher import CartesianProductStrategy, CombinatorialClass, DisjointUnionStrategy
from comb_spec_searcher.strategies.rule import AbstractRule
from example import AvoidingWithPrefix, ExpansionStrategy, RemoveFrontOfPrefix


# ------------------------------------------------------------------ series
@lru_cache(maxsize=None)
def ser_count(node, n):
    kind = node[0]
    if n < 0:
        return 0
    if kind == "atom":
        return 1 if n == node[1] else 0
    if kind == "geo":
        return node[2] ** (n - node[1]) if n >= node[1] else 0
    if kind == "sum":
        return sum(ser_count(x, n) for x in node[1])
    if kind == "prod":
        parts = node[1]
        if not parts:
            return 1 if n == 0 else 0
        head, rest = parts[0], ("prod", parts[1:])
        return sum(ser_count(head, i) * ser_count(rest, n - i) for i in range(n + 1))
    raise ValueError(kind)


def ser_min(node):
    kind = node[0]
    if kind in ("atom", "geo"):
        return node[1]
    if kind == "sum":
        return min(ser_min(x) for x in node[1])
    return sum(ser_min(x) for x in node[1])


class Ser(CombinatorialClass):
    """Class with explicitly known counting sequence (no objects)."""

    def __init__(self, node):
        self.node = node

    def get_terms(self, n):
        c = ser_count(self.node, n)
        return Counter({(): c}) if c else Counter()

    def is_atom(self):
        return self.node[0] == "atom"

    def minimum_size_of_object(self):
        return ser_min(self.node)

    def is_empty(self):
        return False

    def to_jsonable(self):
        return {"node": self.node}

    @classmethod
    def from_dict(cls, d):
        return cls(_tup(d["node"]))

    def __eq__(self, other):
        return isinstance(other, Ser) and self.node == other.node

    def __hash__(self):
        return hash(self.node)

    def __repr__(self):
        return "Ser(%r)" % (self.node,)

    def __str__(self):
        return repr(self)


def _tup(x):
    return tuple(_tup(y) for y in x) if isinstance(x, (list, tuple)) else x


class _TreeStrategyMixin:
    KIND = None

    def decomposition_function(self, comb_class):
        if comb_class.node[0] == self.KIND:
            return tuple(Ser(x) for x in comb_class.node[1])
        return None

    def formal_step(self):
        return "read the %s node" % self.KIND

    def backward_map(self, comb_class, objs, children=None):
        raise NotImplementedError

    def forward_map(self, comb_class, obj, children=None):
        raise NotImplementedError

    @classmethod
    def from_dict(cls, d):
        return cls()

    def __repr__(self):
        return type(self).__name__ + "()"

    def __str__(self):
        return self.formal_step()


class SerProduct(_TreeStrategyMixin, CartesianProductStrategy):
    KIND = "prod"


class SerUnion(_TreeStrategyMixin, DisjointUnionStrategy):
    KIND = "sum"


# ------------------------------------------------------------------ words
class SplitPrefix(CartesianProductStrategy):
    """words with prefix p and no forbidden pattern = p[:c1] x p[c1:c2] x ... x (words with prefix p[ck:])"""

    def __init__(self, cuts):
        super().__init__()
        self.cuts = tuple(cuts)

    def decomposition_function(self, comb_class):
        if comb_class.just_prefix or comb_class.patterns:
            return None
        p, alph = comb_class.prefix, comb_class.alphabet
        bounds = [0] + [min(c, len(p)) for c in self.cuts]
        if sorted(bounds) != bounds:
            return None
        kids = [AvoidingWithPrefix(p[a:b], [], alph, True) for a, b in zip(bounds, bounds[1:])]
        kids.append(AvoidingWithPrefix(p[bounds[-1]:], [], alph))
        return tuple(kids)

    def formal_step(self):
        return "split the prefix at %s" % (self.cuts,)

    def backward_map(self, comb_class, objs, children=None):
        raise NotImplementedError

    def forward_map(self, comb_class, obj, children=None):
        raise NotImplementedError

    @classmethod
    def from_dict(cls, d):
        return cls(d["cuts"])

    def __repr__(self):
        return "SplitPrefix(%r)" % (self.cuts,)

    def __str__(self):
        return self.formal_step()


_TERMS = {}


def true_terms(comb_class, n):
    """the class's own (brute force / closed form) terms, cached per process"""
    key = (comb_class, n)
    if key not in _TERMS:
        if len(_TERMS) > 200000:
            _TERMS.clear()
        _TERMS[key] = comb_class.get_terms(n)
    return _TERMS[key]


# ------------------------------------------------------------------ building rules
def build_rule(spec):
    """
    spec -> (classes described to the model, rule to count).
    Raises ValueError if the strategy does not apply / the derived form does not exist.

    spec["derived"] (optional) selects a derived form of C09:
      "equiv"      rule.to_equivalence_rule()                  (model: union with the one non-empty child)
      "equiv_rev"  rule.to_equivalence_rule().to_reverse_rule(0) (model: complement of that one-child union)
      "path"       EquivalencePathRule of a chain of unary unions (series only; model: union with the last child)
    """
    from comb_spec_searcher.strategies.rule import EquivalencePathRule

    u = spec["universe"]
    derived = spec.get("derived")
    if u == "series":
        kids = tuple(("atom", m) if atom else ("geo", m, g) for m, atom, g in spec["children"])
        if derived == "path":
            node, chain = kids[0], []
            for _ in range(spec["depth"]):
                node = ("sum", (node,))
                chain.append(Ser(node))
            rules = [SerUnion()(c).to_equivalence_rule() for c in reversed(chain)]
            rule = EquivalencePathRule(rules)
            return rule.children, rule
        if spec["form"] in (0, 2):
            parent, strat = Ser(("sum", kids)), SerUnion()
        else:
            parent, strat = Ser(("prod", kids)), SerProduct()
    elif u == "words":
        parent = AvoidingWithPrefix(spec["prefix"], spec["patterns"], list(spec["alphabet"]))
        s = spec["strategy"]
        if s == "expansion":
            strat = ExpansionStrategy()
        elif s == "remove_front":
            strat = RemoveFrontOfPrefix()
        else:
            strat = SplitPrefix(spec["cuts"])
    else:
        raise ValueError(u)
    if strat.decomposition_function(parent) is None:
        raise ValueError("strategy does not apply")
    fwd = strat(parent)
    if derived in ("equiv", "equiv_rev"):
        if spec["form"] not in (0, 2) or not fwd.is_equivalence():
            raise ValueError("not an equivalence rule")
        eq = fwd.to_equivalence_rule()
        return eq.children, (eq if derived == "equiv" else eq.to_reverse_rule(0))
    rule = fwd.to_reverse_rule(spec["idx"]) if spec["form"] in (2, 3) else fwd
    return fwd.children, rule


def descriptors(classes):
    """(minimum_size_of_object, is_atom) of the given classes (the ORIGINAL rule's children)"""
    return [[c.minimum_size_of_object(), int(bool(c.is_atom()))] for c in classes]


class NotYetAvailable(Exception):
    pass


class _Provider:
    """what a specification hands to set_subrecs for a child: the child's true terms"""

    def __init__(self, comb_class):
        self.comb_class = comb_class

    def get_terms(self, n):
        return true_terms(self.comb_class, n)

    def count_objects_of_size(self, n, **parameters):
        return sum(self.get_terms(n).values())

    def get_objects(self, n):
        raise NotImplementedError

    def random_sample_object_of_size(self, n, **parameters):
        raise NotImplementedError


def record_reads(rule, upto):
    """
    Run rule.get_terms(n) for n = 0..upto on a fresh cache and record, per n,
    the (provider index, size) of every call made to a sub-term provider and
    (-1, size) for every call to the rule's own get_terms.
    Returns (reads per level, exception text or None).
    """
    rule.set_subrecs(_Provider)
    state = {"level": 0, "log": []}

    def wrap(i, f):
        def g(n):
            state["log"].append((i, n))
            return f(n)
        return g

    rule.subterms = tuple(wrap(i, f) for i, f in enumerate(rule.subterms))

    def own(n):
        state["log"].append((-1, n))
        if n >= state["level"]:
            # the real method would recurse into computing level len(cache) again
            raise NotYetAvailable("own term %d requested while computing level %d" % (n, state["level"]))
        return AbstractRule.get_terms(rule, n)

    rule.get_terms = own  # _ensure_level passes self.get_terms to the constructor
    levels, exc = [], None
    for n in range(upto + 1):
        state["level"], state["log"] = n, []
        try:
            AbstractRule.get_terms(rule, n)
        except BaseException as ex:  # pylint: disable=broad-except
            exc = "%s at level %d: %s" % (type(ex).__name__, n, str(ex)[:200])
        levels.append(sorted(set(state["log"])))
        if exc:
            break
    return levels, exc
