"""
Universes for C10: REAL rule objects of /repo whose sub-term providers are
wrapped so that the sizes requested during get_terms(n) are recorded.

Two families, both driven through the repo's own Rule / ReverseRule /
CartesianProduct / Quotient / DisjointUnion / Complement code:

* words  — the classes of /repo/example.py (imported, not copied) with its
  ExpansionStrategy (unions) and RemoveFrontOfPrefix (products), plus
  SplitPrefix: a CartesianProductStrategy subclass cutting the prefix of a
  pattern-free word class into several atoms (products with 2-4 children,
  atoms of size 0).
* series — synthetic classes given by an expression tree (atom of size m,
  geometric class x^m/(1-gx), product, sum) whose true counts are computed
  here by convolution, so that products with several non-atom factors and
  arbitrary minimum sizes exist; SerProduct / SerUnion are the repo's
  strategy base classes with a decomposition function reading the tree.
  A node ("empty",) is a class without objects (Ser.is_empty() is True), used
  as the empty siblings of the one non-empty child of an equivalence rule.

Derived rule forms (EquivalenceRule, its reverse, EquivalencePathRule) are built
by build_derived from both universes: see its docstring.  Since fix 25e10f1 of
/repo a CartesianProductStrategy rule with ONE factor counts as an equivalence
step and in reverse; paths may also be made of RAW one-child Rule / ReverseRule
objects (spec["raw"]), which is what specification_extrator.py puts in a path.
"""
from collections import Counter
from functools import lru_cache

from comb_spec_searcher import CartesianProductStrategy, CombinatorialClass, DisjointUnionStrategy
from comb_spec_searcher.strategies.rule import AbstractRule
from example import AvoidingWithPrefix, ExpansionStrategy, RemoveFrontOfPrefix


# ------------------------------------------------------------------ series
@lru_cache(maxsize=None)
def ser_count(node, n):
    kind = node[0]
    if n < 0:
        return 0
    if kind == "empty":
        return 0
    if kind == "atom":
        return 1 if n == node[1] else 0
    if kind == "geo":
        return node[2] ** (n - node[1]) if n >= node[1] else 0
    if kind == "sum":
        return sum(ser_count(x, n) for x in node[1])
    if kind == "prod":
        parts = node[1]
        if not parts:
            return 1 if n == 0 else 0
        head, rest = parts[0], ("prod", parts[1:])
        return sum(ser_count(head, i) * ser_count(rest, n - i) for i in range(n + 1))
    raise ValueError(kind)


def ser_min(node):
    kind = node[0]
    if kind in ("atom", "geo"):
        return node[1]
    if kind == "empty":
        return 0  # no object at all: any answer honours the contract; only asked as a factor of a product
    if kind == "sum":
        live = [ser_min(x) for x in node[1] if not ser_empty(x)]
        return min(live) if live else 0
    return sum(ser_min(x) for x in node[1])


def ser_empty(node):
    kind = node[0]
    if kind == "empty":
        return True
    if kind == "sum":
        return all(ser_empty(x) for x in node[1])
    if kind == "prod":
        return any(ser_empty(x) for x in node[1])
    return False


class Ser(CombinatorialClass):
    """Class with explicitly known counting sequence (no objects)."""

    def __init__(self, node):
        self.node = node

    def get_terms(self, n):
        c = ser_count(self.node, n)
        return Counter({(): c}) if c else Counter()

    def is_atom(self):
        return self.node[0] == "atom"

    def minimum_size_of_object(self):
        return ser_min(self.node)

    def is_empty(self):
        return ser_empty(self.node)

    def to_jsonable(self):
        return {"node": self.node}

    @classmethod
    def from_dict(cls, d):
        return cls(_tup(d["node"]))

    def __eq__(self, other):
        return isinstance(other, Ser) and self.node == other.node

    def __hash__(self):
        return hash(self.node)

    def __repr__(self):
        return "Ser(%r)" % (self.node,)

    def __str__(self):
        return repr(self)


def _tup(x):
    return tuple(_tup(y) for y in x) if isinstance(x, (list, tuple)) else x


class _TreeStrategyMixin:
    KIND = None

    def decomposition_function(self, comb_class):
        if comb_class.node[0] == self.KIND:
            return tuple(Ser(x) for x in comb_class.node[1])
        return None

    def formal_step(self):
        return "read the %s node" % self.KIND

    def backward_map(self, comb_class, objs, children=None):
        raise NotImplementedError

    def forward_map(self, comb_class, obj, children=None):
        raise NotImplementedError

    @classmethod
    def from_dict(cls, d):
        return cls()

    def __repr__(self):
        return type(self).__name__ + "()"

    def __str__(self):
        return self.formal_step()


class SerProduct(_TreeStrategyMixin, CartesianProductStrategy):
    KIND = "prod"


class SerUnion(_TreeStrategyMixin, DisjointUnionStrategy):
    KIND = "sum"


# ------------------------------------------------------------------ words
class SplitPrefix(CartesianProductStrategy):
    """words with prefix p and no forbidden pattern = p[:c1] x p[c1:c2] x ... x (words with prefix p[ck:])"""

    def __init__(self, cuts):
        super().__init__()
        self.cuts = tuple(cuts)

    def decomposition_function(self, comb_class):
        if comb_class.just_prefix or comb_class.patterns:
            return None
        p, alph = comb_class.prefix, comb_class.alphabet
        bounds = [0] + [min(c, len(p)) for c in self.cuts]
        if sorted(bounds) != bounds:
            return None
        kids = [AvoidingWithPrefix(p[a:b], [], alph, True) for a, b in zip(bounds, bounds[1:])]
        kids.append(AvoidingWithPrefix(p[bounds[-1]:], [], alph))
        return tuple(kids)

    def formal_step(self):
        return "split the prefix at %s" % (self.cuts,)

    def backward_map(self, comb_class, objs, children=None):
        raise NotImplementedError

    def forward_map(self, comb_class, obj, children=None):
        raise NotImplementedError

    @classmethod
    def from_dict(cls, d):
        return cls(d["cuts"])

    def __repr__(self):
        return "SplitPrefix(%r)" % (self.cuts,)

    def __str__(self):
        return self.formal_step()


_TERMS = {}


def true_terms(comb_class, n):
    """the class's own (brute force / closed form) terms, cached per process"""
    key = (comb_class, n)
    if key not in _TERMS:
        if len(_TERMS) > 200000:
            _TERMS.clear()
        _TERMS[key] = comb_class.get_terms(n)
    return _TERMS[key]


# ------------------------------------------------------------------ building rules
def _ser_kids(children):
    """[m, atom, g] -> node; atom < 0 stands for a class without objects"""
    return tuple(("empty",) if atom < 0 else ("atom", m) if atom else ("geo", m, g) for m, atom, g in children)


def build_rule(spec):
    """
    spec -> (classes described to the model, rule to count).
    Raises ValueError if the strategy does not apply / the derived form does not exist.

    For a plain or reversed rule the classes are the ORIGINAL rule's children.  With
    spec["derived"] in {"equiv", "equiv_rev", "path"} the rule is one of the derived forms (see
    build_derived) and the one class returned is the class the rule hands to strategy.shifts.
    """
    if spec.get("derived"):
        info = build_derived(spec)
        return (info["handed"],), info["rule"]
    u = spec["universe"]
    if u == "series":
        kids = _ser_kids(spec["children"])
        if spec["form"] in (0, 2):
            parent, strat = Ser(("sum", kids)), SerUnion()
        else:
            parent, strat = Ser(("prod", kids)), SerProduct()
    elif u == "words":
        parent, strat = _words_parent(spec)
    else:
        raise ValueError(u)
    if strat.decomposition_function(parent) is None:
        raise ValueError("strategy does not apply")
    fwd = strat(parent)
    rule = fwd.to_reverse_rule(spec["idx"]) if spec["form"] in (2, 3) else fwd
    return fwd.children, rule


def _words_parent(spec):
    parent = AvoidingWithPrefix(spec["prefix"], spec["patterns"], list(spec["alphabet"]))
    s = spec["strategy"]
    if s == "expansion":
        strat = ExpansionStrategy()
    elif s == "remove_front":
        strat = RemoveFrontOfPrefix()
    else:
        strat = SplitPrefix(spec["cuts"])
    return parent, strat


def _wrap(node, w):
    """a unary-up-to-empty-siblings node over `node`: w = [number of empty siblings, position of node, kind]
    kind 0 a sum (DisjointUnionStrategy), 1 a product (CartesianProductStrategy)"""
    ne, pos, kind = (list(w) + [0, 0, 0])[:3]
    if kind and ne:
        raise ValueError("a product with an empty factor is itself empty: only ONE-child products")
    pos = max(0, min(pos, ne))
    empties = (("empty",),) * ne
    return ("prod" if kind else "sum", empties[:pos] + (node,) + empties[pos:])


def _equivalence(strat, parent, expect_child):
    """the EquivalenceRule of strat(parent); AssertionError if /repo does not see the planned one non-empty child"""
    fwd = strat(parent)
    live = [c for c in fwd.children if not c.is_empty()]
    assert live == [expect_child], "non-empty children %r, planned %r" % (live, expect_child)
    assert fwd.is_equivalence(), "not an equivalence rule"
    return fwd.to_equivalence_rule()


def derived_plan(spec):
    """
    What a derived-form spec describes, decided from the SPEC alone: no rule or strategy code of /repo runs here
    (only class constructors), so that generating, encoding and shrinking cases never depend on the code under test.
    ValueError if the spec describes no derived rule.  Returns a dict
      form      4 EquivalenceRule(rule), 5 EquivalenceRule(ReverseRule(rule, child_idx)), 6 EquivalencePathRule
      strat     0 if the strategy object the rule inherits is a DisjointUnionStrategy, 1 a CartesianProductStrategy
      handed    the ONE class the rule hands to strategy.shifts: 4 the non-empty child, 5 the original parent,
                6 the last class of the path
      readable  False iff some REVERSE step over a ONE-factor product is wrapped in an EquivalenceRule
                (EquivalenceRule(ReverseRule(product)): the only configuration whose constructor property still
                raises NotImplementedError after fix 25e10f1, so get_terms cannot run and only shifts() is
                observable).  Forward product steps, and raw product steps in either direction, count.
      nsteps, reverse_steps, siblings   (input statistics)
      raw_steps, product_steps, raw_reverse_product_steps   (input statistics: steps taken with a RAW one-child
                rule, steps over a product, reverse steps over a raw product i.e. a Quotient without sibling)
      stack, kinds, raws, start, moves  classes X_0.., kind of the wrapper X_{j+1} over X_j, whether the steps
                between X_j and X_{j+1} use the raw rule, the walk

    spec["derived"]:
      "equiv", "equiv_rev"  series: children [m, atom, g] with atom = -1 for an empty class, exactly one
                            non-empty; form 0/2 a union, 1/3 a ONE-child product.  words: ExpansionStrategy on a
                            non-empty class all of whose one-letter extensions contain a pattern.
      "path"   series: "children" = [leaf], "tower" = wrappers w_0.. (see _wrap) giving the classes
               X_0 = leaf, X_{j+1} = wrap(X_j, w_j); the path starts at X_start and "moves" walks: 0 = down
               (the equivalence rule X_j -> X_{j-1}), 1 = up (its reverse, X_j -> X_{j+1}).
               optional "raw" = one 0/1 per wrapper: 1 on a wrapper WITHOUT empty siblings makes the steps over it
               the RAW one-child rule strat(X_{j+1}) resp. its to_reverse_rule(0) (a plain Rule / ReverseRule,
               constructor DisjointUnion / CartesianProduct resp. Complement / Quotient) instead of
               to_equivalence_rule() — what specification_extrator.py:104/113 does for one-child rules.
               (old format: "depth" = that many down moves from the top of a tower of plain unary sums)
               words: X_0 = the word `prefix`, X_1 = the class; same "start"/"moves".
    """
    u, derived = spec["universe"], spec["derived"]
    if derived not in ("equiv", "equiv_rev", "path"):
        raise ValueError(derived)
    if u == "series":
        if derived == "path":
            leaf = _ser_kids(spec["children"])[0]
            if "tower" in spec:
                tower, start, moves = [list(w) for w in spec["tower"]], spec["start"], list(spec["moves"])
            else:
                tower, start, moves = [[0, 0, 0]] * spec["depth"], spec["depth"], [0] * spec["depth"]
        else:
            kids = _ser_kids(spec["children"])
            live = [i for i, x in enumerate(kids) if not ser_empty(x)]
            if len(live) != 1:
                raise ValueError("not exactly one non-empty child")
            leaf = kids[live[0]]
            tower = [[len(kids) - 1, live[0], spec["form"] % 2]]
            start, moves = (1, [0]) if derived == "equiv" else (0, [1])
        if ser_empty(leaf):
            raise ValueError("empty leaf")
        nodes = [leaf]
        for w in tower:
            nodes.append(_wrap(nodes[-1], w))
        stack = [Ser(x) for x in nodes]
        kinds = [(list(w) + [0, 0, 0])[2] for w in tower]
        siblings = tower[0][0] if derived != "path" else 0
        rawspec = list(spec.get("raw") or []) if derived == "path" else []
        raws = [bool(j < len(rawspec) and rawspec[j] and not (list(w) + [0])[0]) for j, w in enumerate(tower)]
    elif u == "words":
        if spec["strategy"] != "expansion":
            raise ValueError("not a union")
        p, pats, alph = spec["prefix"], list(spec["patterns"]), list(spec["alphabet"])
        if any(q in p for q in pats) or not all(any(q in p + x for q in pats) for x in alph):
            raise ValueError("not exactly one non-empty child")
        stack = [AvoidingWithPrefix(p, pats, alph, True), AvoidingWithPrefix(p, pats, alph)]
        kinds, siblings, raws = [0], len(alph), [False]
        if derived == "path":
            start, moves = spec["start"], list(spec["moves"])
        else:
            start, moves = (1, [0]) if derived == "equiv" else (0, [1])
    else:
        raise ValueError(u)
    if not moves or not 0 <= start < len(stack):
        raise ValueError("empty path")
    j, used = start, []
    for mv in moves:
        j += 1 if mv else -1
        if not 0 <= j < len(stack):
            raise ValueError("walk leaves the tower")
        lvl = j - 1 if mv else j
        used.append((kinds[lvl], mv, raws[lvl]))
    if derived == "path":
        form, handed = 6, stack[j]
    elif derived == "equiv":
        form, handed = 4, stack[0]
    else:
        form, handed = 5, stack[1]
    readable = not any(kind and mv and not raw for kind, mv, raw in used)
    return {"form": form, "strat": used[0][0], "handed": handed, "readable": readable, "nsteps": len(moves),
            "reverse_steps": sum(moves), "siblings": siblings, "stack": stack, "kinds": kinds, "raws": raws,
            "start": start, "moves": moves,
            "raw_steps": sum(1 for _, _, raw in used if raw),
            "product_steps": sum(1 for kind, _, _ in used if kind),
            "raw_reverse_product_steps": sum(1 for kind, mv, raw in used if kind and mv and raw)}


def build_derived(spec):
    """
    derived_plan(spec) plus "rule": the derived rule itself, built through the repo's own to_equivalence_rule /
    to_reverse_rule(0) / EquivalencePathRule (raw steps: the strategy's own one-child rule and its
    to_reverse_rule(0)).  AssertionError if /repo does not build what the plan describes.
    """
    from comb_spec_searcher.strategies.rule import EquivalencePathRule

    plan = derived_plan(spec)
    stack, kinds, raws = plan["stack"], plan["kinds"], plan["raws"]

    def step(j):
        if spec["universe"] == "words":
            strat = ExpansionStrategy()
        else:
            strat = SerProduct() if kinds[j] else SerUnion()
        if raws[j]:
            fwd = strat(stack[j + 1])
            assert tuple(fwd.children) == (stack[j],), "children %r, planned %r" % (fwd.children, stack[j])
            assert fwd.is_equivalence(), "not an equivalence rule"
            return fwd
        return _equivalence(strat, stack[j + 1], stack[j])

    j, rules = plan["start"], []
    for mv in plan["moves"]:
        if mv == 0:
            j -= 1
            rules.append(step(j))
        else:
            rules.append(step(j).to_reverse_rule(0))
            j += 1
    if spec["derived"] == "path":
        rule = EquivalencePathRule(rules)
    else:
        rule = rules[0]
    return dict(plan, rule=rule)


def descriptors(classes):
    """(minimum_size_of_object, is_atom) of the given classes (the ORIGINAL rule's children)"""
    return [[c.minimum_size_of_object(), int(bool(c.is_atom()))] for c in classes]


class NotYetAvailable(Exception):
    pass


class _Provider:
    """what a specification hands to set_subrecs for a child: the child's true terms"""

    def __init__(self, comb_class):
        self.comb_class = comb_class

    def get_terms(self, n):
        return true_terms(self.comb_class, n)

    def count_objects_of_size(self, n, **parameters):
        return sum(self.get_terms(n).values())

    def get_objects(self, n):
        raise NotImplementedError

    def random_sample_object_of_size(self, n, **parameters):
        raise NotImplementedError


def record_reads(rule, upto):
    """
    Run rule.get_terms(n) for n = 0..upto on a fresh cache and record, per n,
    the (provider index, size) of every call made to a sub-term provider and
    (-1, size) for every call to the rule's own get_terms.
    Returns (reads per level, exception text or None).
    """
    rule.set_subrecs(_Provider)
    state = {"level": 0, "log": []}

    def wrap(i, f):
        def g(n):
            state["log"].append((i, n))
            return f(n)
        return g

    rule.subterms = tuple(wrap(i, f) for i, f in enumerate(rule.subterms))

    def own(n):
        state["log"].append((-1, n))
        if n >= state["level"]:
            # the real method would recurse into computing level len(cache) again
            raise NotYetAvailable("own term %d requested while computing level %d" % (n, state["level"]))
        return AbstractRule.get_terms(rule, n)

    rule.get_terms = own  # _ensure_level passes self.get_terms to the constructor
    levels, exc = [], None
    for n in range(upto + 1):
        state["level"], state["log"] = n, []
        try:
            AbstractRule.get_terms(rule, n)
        except BaseException as ex:  # pylint: disable=broad-except
            exc = "%s at level %d: %s" % (type(ex).__name__, n, str(ex)[:200])
        levels.append(sorted(set(state["log"])))
        if exc:
            break
    return levels, exc
