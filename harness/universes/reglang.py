"""
Regular-language universes with tagged copies (built for C13, usable by any searcher-level check).

A universe is a (partial) DFA over a small alphabet plus a seed.  Classes:

    RClass(uid, pre, state, tag, atom=False)   the words  pre . w  with w accepted from `state`
                                               (state None: the EMPTY class)
    RClass(uid, pre, None, tag, atom=True)     the single word `pre` (an atom)

`tag` has NO meaning for the set of objects: classes that differ only in their tag are distinct
classes (distinct labels) with the same objects.  Every strategy below is a true statement about the
sets of words whatever tags its children carry, so a universe may offer one class many rules that
differ in shape (one-letter / two-letter expansion, prefix removed at once / letter by letter) and in
the copies they point to.  This gives the parallel finder what the plain word universes lack: many
candidate rules per label, many pairs of labels that match, repeated children, labels matched with
several partners.  All counts and objects are available by brute force from the DFA.

JSON-able description (register() stores it under a uid):
    {"alphabet": "ab", "delta": [[q_a, q_b], ...] (None = no transition), "final": [0/1, ...],
     "tags": T, "seed": s, "start": [pre, state, tag],
     "expand": [[depth, prob_applies], ...]   expansion strategies (disjoint unions)
     "peel":   [[letterwise, rest_pos, prob_applies], ...]  prefix removal (cartesian products)
     "retag":  [[two_way, prob_applies, as, noneq]]  unary rules to another copy; as = "sym"|"inf"|"exp"|"ini";
               noneq = 1 (optional, not for "sym"): the strategy declares can_be_equivalent() False, so its rules are
               NOT equivalence rules although the rule database joins the two classes (what
               EqPathParallelSpecFinder exists for)
     "atom_tags": 0/1  whether atoms carry tags too, "dead": 0/1 keep children of dead transitions}
Which copy a child points to, and whether a strategy applies to a class, are pseudo-random functions
of (seed, strategy, class, child index): the same description always gives the same universe.
"""
import hashlib
from itertools import product
from typing import Iterator, Optional, Tuple

from comb_spec_searcher import (
    AtomStrategy,
    CartesianProductStrategy,
    CombinatorialClass,
    CombinatorialObject,
    CombinatorialSpecificationSearcher,
    DisjointUnionStrategy,
    StrategyPack,
)
from comb_spec_searcher.strategies.strategy import SymmetryStrategy

UNIVERSES = {}


def register(u):
    uid = u.get("uid")
    if uid is None:
        uid = "r" + hashlib.sha1(repr(sorted(u.items())).encode()).hexdigest()[:10]
        u = dict(u, uid=uid)
    UNIVERSES[uid] = u
    return uid


def _h(uid, *key):
    """pseudo-random number in [0,1) determined by the universe's seed and the key"""
    u = UNIVERSES[uid]
    s = repr((u["seed"],) + key).encode()
    return int(hashlib.sha1(s).hexdigest()[:12], 16) / float(1 << 48)


class RWord(str, CombinatorialObject):
    def size(self):
        return str.__len__(self)


class RClass(CombinatorialClass[RWord]):
    def __init__(self, uid, pre, state, tag, atom=False):
        self.uid = uid
        self.pre = pre
        self.state = state
        self.tag = tag
        self.atom = bool(atom)
        super().__init__()

    # -- semantics (independent of every strategy)
    def _u(self):
        return UNIVERSES[self.uid]

    def accepts_from(self, q, w):
        u = self._u()
        for x in w:
            if q is None:
                return False
            q = u["delta"][q][u["alphabet"].index(x)]
        return q is not None and bool(u["final"][q])

    def contains(self, w):
        if self.atom:
            return w == self.pre
        if self.state is None or not w.startswith(self.pre):
            return False
        return self.accepts_from(self.state, w[len(self.pre):])

    def is_empty(self):
        return (not self.atom) and self.state is None

    def is_atom(self):
        return self.atom

    def minimum_size_of_object(self):
        if self.atom:
            return len(self.pre)
        u = self._u()
        seen, layer, d = {self.state}, [self.state], 0
        while layer:
            if any(u["final"][q] for q in layer):
                return len(self.pre) + d
            nxt = []
            for q in layer:
                for r in u["delta"][q]:
                    if r is not None and r not in seen:
                        seen.add(r)
                        nxt.append(r)
            layer, d = nxt, d + 1
        raise ValueError("class without objects")

    def objects_of_size(self, n):  # type: ignore
        if self.atom:
            if n == len(self.pre):
                yield RWord(self.pre)
            return
        if self.state is None or n < len(self.pre):
            return
        for letters in product(self._u()["alphabet"], repeat=n - len(self.pre)):
            w = "".join(letters)
            if self.accepts_from(self.state, w):
                yield RWord(self.pre + w)

    # -- plumbing
    def to_jsonable(self):
        d = super().to_jsonable()
        d.update(uid=self.uid, pre=self.pre, state=self.state, tag=self.tag, atom=int(self.atom),
                 universe=self._u())
        return d

    @classmethod
    def from_dict(cls, d):
        if d["uid"] not in UNIVERSES and "universe" in d:
            UNIVERSES[d["uid"]] = d["universe"]
        return cls(d["uid"], d["pre"], d["state"], d["tag"], bool(d["atom"]))

    def _key(self):
        return (self.uid, self.pre, self.state, self.tag, self.atom)

    def __eq__(self, other):
        return isinstance(other, RClass) and self._key() == other._key()

    def __hash__(self):
        return hash(self._key())

    def __repr__(self):
        return "RClass(%r, %r, %r, %r, %r)" % self._key()

    def __str__(self):
        if self.atom:
            return "the word %r (copy %d)" % (self.pre, self.tag)
        if self.state is None:
            return "empty class after %r (copy %d)" % (self.pre, self.tag)
        return "%r . L_%d (copy %d)" % (self.pre, self.state, self.tag)


def _ckey(c):
    return (c.pre, c.state, c.tag, c.atom)


class _RStrat:
    """mixin: parameters, pseudo-random applicability and child tags"""

    def _init(self, uid, name, idx):
        self.uid = uid
        self.name = name
        self.idx = idx

    def _applies(self, c, prob, must=False):
        return must or _h(self.uid, "applies", self.name, self.idx, _ckey(c)) < prob

    def _tag(self, c, i):
        T = UNIVERSES[self.uid]["tags"]
        return int(_h(self.uid, "tag", self.name, self.idx, _ckey(c), i) * T) % T

    def _atom(self, c, w, i):
        u = UNIVERSES[self.uid]
        return RClass(self.uid, w, None, self._tag(c, ("atom", i)) if u.get("atom_tags") else 0, True)

    def to_jsonable(self):
        d = super().to_jsonable()  # type: ignore
        d.update(uid=self.uid, idx=self.idx, universe=UNIVERSES[self.uid])
        return d

    @classmethod
    def from_dict(cls, d):
        if d["uid"] not in UNIVERSES and "universe" in d:
            UNIVERSES[d["uid"]] = d["universe"]
        return cls(d["uid"], d["idx"])

    def __repr__(self):
        return "%s(%r, %d)" % (type(self).__name__, self.uid, self.idx)

    def __str__(self):
        return self.formal_step()  # type: ignore


class RExpand(_RStrat, DisjointUnionStrategy[RClass, RWord]):
    """pre="" classes: split by the first `depth` letters (shorter accepted words are atoms)."""

    def __init__(self, uid, idx):
        DisjointUnionStrategy.__init__(self)
        self._init(uid, "expand", idx)

    def decomposition_function(self, c):
        u = UNIVERSES[self.uid]
        depth, prob = u["expand"][self.idx]
        if c.atom or c.state is None or c.pre != "":
            return None
        # the first expansion strategy is the fall-back when no other one applies to the class
        others = any(
            _h(self.uid, "applies", "expand", j, _ckey(c)) < u["expand"][j][1]
            for j in range(len(u["expand"])) if j != 0
        )
        if not self._applies(c, prob, must=(self.idx == 0 and not others)):
            return None
        kids, i = [], 0
        for k in range(depth + 1):
            for letters in product(u["alphabet"], repeat=k):
                w = "".join(letters)
                q = c.state
                for x in w:
                    q = None if q is None else u["delta"][q][u["alphabet"].index(x)]
                if k < depth:
                    if q is not None and u["final"][q]:
                        kids.append(self._atom(c, w, i))
                        i += 1
                else:
                    if q is None and not u.get("dead"):
                        continue
                    kids.append(RClass(self.uid, w, q, self._tag(c, i)))
                    i += 1
        return tuple(kids)

    def formal_step(self):
        return "split by the first %d letters (#%d)" % (UNIVERSES[self.uid]["expand"][self.idx][0], self.idx)

    def forward_map(self, comb_class, obj, children=None):
        if children is None:
            children = self.decomposition_function(comb_class)
        got = False
        out = []
        for ch in children:
            if not got and ch.contains(obj):
                out.append(RWord(obj))
                got = True
            else:
                out.append(None)
        assert got
        return tuple(out)


class RPeel(_RStrat, CartesianProductStrategy[RClass, RWord]):
    """pre != "" classes: the prefix (as one atom or letter by letter) times the rest."""

    def __init__(self, uid, idx):
        CartesianProductStrategy.__init__(self)
        self._init(uid, "peel", idx)

    def _where(self, k):
        rest_pos = UNIVERSES[self.uid]["peel"][self.idx][1]
        return {0: k, 1: 0}.get(rest_pos, k // 2)

    def _parts(self, c):
        letterwise = UNIVERSES[self.uid]["peel"][self.idx][0]
        return list(c.pre) if letterwise else [c.pre]

    def decomposition_function(self, c):
        u = UNIVERSES[self.uid]
        prob = u["peel"][self.idx][2]
        if c.atom or c.state is None or c.pre == "":
            return None
        others = any(
            _h(self.uid, "applies", "peel", j, _ckey(c)) < u["peel"][j][2]
            for j in range(len(u["peel"])) if j != 0
        )
        if not self._applies(c, prob, must=(self.idx == 0 and not others)):
            return None
        parts = self._parts(c)
        atoms = [self._atom(c, w, i) for i, w in enumerate(parts)]
        rest = RClass(self.uid, "", c.state, self._tag(c, "rest"))
        w = self._where(len(atoms))
        return tuple(atoms[:w] + [rest] + atoms[w:])

    def formal_step(self):
        p = UNIVERSES[self.uid]["peel"][self.idx]
        return "remove the prefix %s, rest at %d (#%d)" % ("letter by letter" if p[0] else "at once", p[1], self.idx)

    def backward_map(self, comb_class, objs, children=None):
        k = len(objs) - 1
        w = self._where(k)
        letters = [x for i, x in enumerate(objs) if i != w]
        yield RWord("".join(letters) + objs[w])

    def forward_map(self, comb_class, obj, children=None):
        parts = self._parts(comb_class)
        k = len(parts)
        w = self._where(k)
        pos, letters = 0, []
        for p in parts:
            letters.append(RWord(obj[pos:pos + len(p)]))
            pos += len(p)
        return tuple(letters[:w] + [RWord(obj[pos:])] + letters[w:])


class _RetagMixin(_RStrat):
    def decomposition_function(self, c):
        u = UNIVERSES[self.uid]
        prob = u["retag"][self.idx][1]
        if c.atom:
            return None  # strategies are not applied to atoms
        if (not c.atom) and c.state is None:
            return None
        if not self._applies(c, prob):
            return None
        r = u["retag"][self.idx]
        if len(r) > 3 and r[3] and not _two_words(u, c.state):
            # a class with a single word is joined with an atom by equivalence rules; the path check of
            # EqPathParallelSpecFinder does not cover pairs of atoms (its hook _atom_path_match is for
            # that), so non-equivalence unary rules are kept away from such classes
            return None
        t = self._tag(c, 0)
        if t == c.tag:
            t = (t + 1) % u["tags"]
        if t == c.tag:
            return None
        return (RClass(self.uid, c.pre, c.state, t, c.atom),)

    def is_two_way(self, comb_class):
        return bool(UNIVERSES[self.uid]["retag"][self.idx][0])

    def is_reversible(self, comb_class):
        return bool(UNIVERSES[self.uid]["retag"][self.idx][0])

    def formal_step(self):
        return "the same words, another copy (#%d)" % self.idx

    def forward_map(self, comb_class, obj, children=None):
        return (RWord(obj),)


class RRetag(_RetagMixin, DisjointUnionStrategy[RClass, RWord]):
    def __init__(self, uid, idx):
        inf = UNIVERSES[uid]["retag"][idx][2] == "inf"
        DisjointUnionStrategy.__init__(self, ignore_parent=inf, inferrable=True, possibly_empty=False, workable=True)
        self._init(uid, "retag", idx)

    def can_be_equivalent(self):
        r = UNIVERSES[self.uid]["retag"][self.idx]
        return not (len(r) > 3 and r[3])


class RRetagSym(_RetagMixin, SymmetryStrategy[RClass, RWord]):
    def __init__(self, uid, idx):
        SymmetryStrategy.__init__(self)
        self._init(uid, "retag", idx)

    def is_two_way(self, comb_class):
        return True

    def is_reversible(self, comb_class):
        return True

    def backward_map(self, comb_class, objs, children=None):
        yield RWord(objs[0])


def _two_words(u, q):
    """does the language accepted from state q have at least two words?"""
    m = len(u["delta"])
    layer, n = {q: 1}, 0
    for _ in range(m + 2):
        n += sum(k for r, k in layer.items() if u["final"][r])
        if n >= 2:
            return True
        nxt = {}
        for r, k in layer.items():
            for t in u["delta"][r]:
                if t is not None:
                    nxt[t] = nxt.get(t, 0) + k
        layer = nxt
    return False


def make_pack(uid):
    u = UNIVERSES[uid]
    initial = [RPeel(uid, i) for i in range(len(u["peel"]))]
    expansion = [[RExpand(uid, i) for i in range(len(u["expand"]))]]
    inferral, sym = [], []
    for i, r in enumerate(u.get("retag", [])):
        how = r[2]
        if how == "sym":
            sym.append(RRetagSym(uid, i))
        elif how == "inf":
            inferral.append(RRetag(uid, i))
        elif how == "ini":
            initial.append(RRetag(uid, i))
        else:
            expansion[0].append(RRetag(uid, i))
    return StrategyPack(initial, inferral, expansion, [AtomStrategy()], name="reglang " + uid, symmetries=sym)


def start_class(uid):
    pre, state, tag = UNIVERSES[uid]["start"]
    return RClass(uid, pre, state, tag)


def searcher(u):
    uid = register(dict(u))
    return CombinatorialSpecificationSearcher(start_class(uid), make_pack(uid))


def true_counts(cls, upto):
    return [sum(1 for _ in cls.objects_of_size(n)) for n in range(upto + 1)]


# ------------------------------------------------------------------ generator
def _productive(delta, final):
    ok = [bool(f) for f in final]
    changed = True
    while changed:
        changed = False
        for q, row in enumerate(delta):
            if not ok[q] and any(r is not None and ok[r] for r in row):
                ok[q] = True
                changed = True
    return ok


def random_dfa(rng, nstates=None, alphabet="ab", p_missing=0.25):
    m = nstates or rng.choice([1, 1, 2, 2, 3])
    while True:
        delta = [[None if rng.random() < p_missing else rng.randrange(m) for _ in alphabet] for _ in range(m)]
        final = [1 if rng.random() < 0.6 else 0 for _ in range(m)]
        if not any(final):
            final[rng.randrange(m)] = 1
        ok = _productive(delta, final)
        # transitions into unproductive states are removed (such classes would be empty without
        # is_empty knowing it); unproductive states themselves are never reached then
        delta = [[r if (r is not None and ok[r]) else None for r in row] for row in delta]
        if ok[0]:
            return {"alphabet": alphabet, "delta": delta, "final": final}


def permuted_dfa(rng, d):
    """an isomorphic DFA: letters permuted (states keep their numbers, start state 0)"""
    k = len(d["alphabet"])
    perm = list(range(k))
    rng.shuffle(perm)
    return {"alphabet": d["alphabet"], "delta": [[row[perm[i]] for i in range(k)] for row in d["delta"]],
            "final": list(d["final"])}


def random_options(rng, noneq=False):
    expand = [[1, 1.0]]
    if rng.random() < 0.7:
        expand.append([2, rng.choice([0.3, 0.6, 1.0])])
    if rng.random() < 0.3:
        expand.append([1, rng.choice([0.5, 1.0])])
    if rng.random() < 0.3:
        expand[0][1] = rng.choice([0.4, 0.7])
    peel = [[rng.randint(0, 1), rng.randint(0, 2), 1.0]]
    if rng.random() < 0.5:
        peel.append([rng.randint(0, 1), rng.randint(0, 2), rng.choice([0.4, 1.0])])
        if rng.random() < 0.4:
            peel[0][2] = 0.6
    retag = []
    for _ in range(rng.choice([0, 0, 1, 1, 2])):
        retag.append([1 if rng.random() < 0.7 else 0, rng.choice([0.3, 0.6, 1.0]), rng.choice(["sym", "inf", "exp", "ini"])])
    if noneq and rng.random() < 0.6:
        retag.append([1, rng.choice([0.3, 0.6, 1.0]), rng.choice(["inf", "exp", "ini"]), 1])
    return {
        "tags": rng.choice([1, 2, 2, 3]),
        "seed": rng.randrange(1 << 20),
        "expand": expand,
        "peel": peel,
        "retag": retag,
        "atom_tags": 1 if rng.random() < 0.25 else 0,   # atoms exist in several copies too
        "dead": 1 if rng.random() < 0.4 else 0,
    }


def random_universe(rng, dfa=None, noneq=False):
    d = dict(dfa or random_dfa(rng))
    d.update(random_options(rng, noneq))
    pre = rng.choice(["", "", "", "a", "b", "ab"])
    pre = "".join(x for x in pre if x in d["alphabet"])
    q = 0
    for x in pre:
        q = None if q is None else d["delta"][q][d["alphabet"].index(x)]
    if q is None:
        if rng.random() < 0.7:
            pre, q = "", 0
    d["start"] = [pre, q, rng.randrange(d["tags"])]
    return d
