"""
Universes for C18 (JSON round trips).

Word part: the classes and strategies of /repo/example.py (imported, not copied)
plus strategies that HAVE settings and honour the documented from_dict contract
(`return cls(**d)`): a union with a setting, a product with two settings, a
generic (subscriptable) union, a symmetry, an inferral (one child) strategy, a
verification strategy with settings and a strategy factory with a setting.  All
of them are combinatorially genuine, so specifications count / generate
correctly.

Table part: the table universe of harness/universes/table.py (reverse rules,
equivalence of reverse rules, verification rules with children) with a
to_jsonable for its symmetry class that works.
"""
import random
import signal
from collections import Counter, defaultdict
from typing import Generic, Iterator, Optional, Tuple

import sympy

from comb_spec_searcher import (
    AtomStrategy,
    CombinatorialSpecificationSearcher,
    DisjointUnionStrategy,
    StrategyFactory,
    StrategyPack,
    VerificationStrategy,
)
from comb_spec_searcher.combinatorial_class import CombinatorialClassType, CombinatorialObjectType
from comb_spec_searcher.exception import NoMoreClassesToExpandError
from comb_spec_searcher.rule_db import RuleDB, RuleDBForest, RuleDBForgetStrategy
from comb_spec_searcher.strategies.strategy import EmptyStrategy, SymmetryStrategy
from example import AvoidingWithPrefix, ExpansionStrategy, RemoveFrontOfPrefix, Word
from harness.universes import table as T


# ------------------------------------------------------------------ word strategies with settings
class ExpandOrdered(ExpansionStrategy):
    """ExpansionStrategy whose letter children come in descending order when asked."""

    def __init__(self, descending=False, ignore_parent=False, inferrable=True, possibly_empty=True, workable=True):
        super().__init__(ignore_parent=ignore_parent, inferrable=inferrable, possibly_empty=possibly_empty,
                         workable=workable)
        self.descending = descending

    def decomposition_function(self, avoiding_with_prefix):
        ch = super().decomposition_function(avoiding_with_prefix)
        if ch is None:
            return None
        if self.descending:
            return (ch[0],) + tuple(reversed(ch[1:]))
        return ch

    def formal_step(self):
        return "prefix or append a letter (%s)" % ("descending" if self.descending else "ascending")

    def to_jsonable(self):
        d = super().to_jsonable()
        d["descending"] = self.descending
        return d

    @classmethod
    def from_dict(cls, d):
        return cls(**d)

    def __repr__(self):
        return "ExpandOrdered(descending=%r, ignore_parent=%r, inferrable=%r, possibly_empty=%r, workable=%r)" % (
            self.descending, self.ignore_parent, self.inferrable, self.possibly_empty, self.workable)


class PermExpand(ExpansionStrategy):
    """ExpansionStrategy whose letter children come in the order `perm` (a list: a permutation of the
    letter indices, ignored when it is not one); `meta` is carried along untouched.  Both settings are
    CONTAINERS (list / dict with nested lists), stored exactly as given (JSON values)."""

    def __init__(self, perm=None, meta=None, ignore_parent=False, inferrable=True, possibly_empty=True,
                 workable=True):
        super().__init__(ignore_parent=ignore_parent, inferrable=inferrable, possibly_empty=possibly_empty,
                         workable=workable)
        self.perm = [] if perm is None else perm
        self.meta = {} if meta is None else meta

    def decomposition_function(self, avoiding_with_prefix):
        ch = super().decomposition_function(avoiding_with_prefix)
        if ch is None:
            return None
        letters = ch[1:]
        if isinstance(self.perm, list) and all(type(i) is int for i in self.perm) and \
                sorted(self.perm) == list(range(len(letters))):
            letters = tuple(letters[i] for i in self.perm)
        return (ch[0],) + tuple(letters)

    def formal_step(self):
        return "prefix or append a letter (order %r)" % (self.perm,)

    def to_jsonable(self):
        d = super().to_jsonable()
        d["perm"] = self.perm
        d["meta"] = self.meta
        return d

    @classmethod
    def from_dict(cls, d):
        return cls(**d)

    def __repr__(self):
        return "PermExpand(perm=%r, meta=%r, ignore_parent=%r, inferrable=%r, possibly_empty=%r, workable=%r)" % (
            self.perm, self.meta, self.ignore_parent, self.inferrable, self.possibly_empty, self.workable)


class GenExpand(DisjointUnionStrategy[CombinatorialClassType, CombinatorialObjectType]):
    """The same union as a GENERIC class: GenExpand[A, B](...) is a legal way to create it."""

    def __init__(self, descending=False, ignore_parent=False, inferrable=True, possibly_empty=True, workable=True):
        super().__init__(ignore_parent=ignore_parent, inferrable=inferrable, possibly_empty=possibly_empty,
                         workable=workable)
        self.descending = descending

    def decomposition_function(self, avoiding_with_prefix):
        ch = ExpansionStrategy.decomposition_function(self, avoiding_with_prefix)
        if ch is None:
            return None
        if self.descending:
            return (ch[0],) + tuple(reversed(ch[1:]))
        return ch

    def formal_step(self):
        return "generic prefix or append a letter (%s)" % ("descending" if self.descending else "ascending")

    forward_map = ExpansionStrategy.forward_map

    def to_jsonable(self):
        d = super().to_jsonable()
        d["descending"] = self.descending
        return d

    @classmethod
    def from_dict(cls, d):
        return cls(**d)

    def __repr__(self):
        return "GenExpand(descending=%r, ignore_parent=%r, inferrable=%r, possibly_empty=%r, workable=%r)" % (
            self.descending, self.ignore_parent, self.inferrable, self.possibly_empty, self.workable)

    def __str__(self):
        return self.formal_step()


class RemoveFront(RemoveFrontOfPrefix):
    """RemoveFrontOfPrefix that removes at most `max_remove` letters (still safe)."""

    def __init__(self, max_remove=1, tag="", ignore_parent=True, inferrable=False, possibly_empty=False,
                 workable=True):
        super().__init__(ignore_parent=ignore_parent, inferrable=inferrable, possibly_empty=possibly_empty,
                         workable=workable)
        self.max_remove = max_remove
        self.tag = tag

    def index_safe_to_remove_up_to(self, avoiding_with_prefix):
        return min(super().index_safe_to_remove_up_to(avoiding_with_prefix), self.max_remove)

    def formal_step(self):
        return "removing at most %d letters of redundant prefix%s" % (self.max_remove, self.tag)

    def to_jsonable(self):
        d = super().to_jsonable()
        d["max_remove"] = self.max_remove
        d["tag"] = self.tag
        return d

    @classmethod
    def from_dict(cls, d):
        return cls(**d)

    def __repr__(self):
        return "RemoveFront(max_remove=%r, tag=%r, ignore_parent=%r, inferrable=%r, possibly_empty=%r, workable=%r)" % (
            self.max_remove, self.tag, self.ignore_parent, self.inferrable, self.possibly_empty, self.workable)


def _swap(w, a, b):
    return "".join(b if x == a else a if x == b else x for x in w)


class SwapLetters(SymmetryStrategy[AvoidingWithPrefix, Word]):
    """Exchange the two smallest letters (a symmetry of the factor order)."""

    def __init__(self, only_empty_prefix=True, ignore_parent=False, inferrable=False, possibly_empty=False,
                 workable=False):
        super().__init__(ignore_parent=ignore_parent, inferrable=inferrable, possibly_empty=possibly_empty,
                         workable=workable)
        self.only_empty_prefix = only_empty_prefix

    def decomposition_function(self, c):
        if c.just_prefix or len(c.alphabet) < 2 or (self.only_empty_prefix and c.prefix):
            return None
        a, b = c.alphabet[0], c.alphabet[1]
        return (type(c)(_swap(c.prefix, a, b), [_swap(p, a, b) for p in c.patterns], c.alphabet),)

    def formal_step(self):
        return "exchange the two smallest letters"

    def forward_map(self, comb_class, obj, children=None):
        a, b = comb_class.alphabet[0], comb_class.alphabet[1]
        return (Word(_swap(obj, a, b)),)

    def backward_map(self, comb_class, objs, children=None):
        a, b = comb_class.alphabet[0], comb_class.alphabet[1]
        yield Word(_swap(objs[0], a, b))

    def to_jsonable(self):
        d = super().to_jsonable()
        d["only_empty_prefix"] = self.only_empty_prefix
        return d

    @classmethod
    def from_dict(cls, d):
        return cls(**d)

    def __repr__(self):
        return "SwapLetters(only_empty_prefix=%r, ignore_parent=%r, inferrable=%r, possibly_empty=%r, workable=%r)" % (
            self.only_empty_prefix, self.ignore_parent, self.inferrable, self.possibly_empty, self.workable)

    def __str__(self):
        return self.formal_step()


class DropRedundantPatterns(DisjointUnionStrategy[AvoidingWithPrefix, Word]):
    """Inferral: forget every pattern that contains another pattern (same set of words)."""

    def __init__(self, min_patterns=2, ignore_parent=True, inferrable=True, possibly_empty=False, workable=True):
        super().__init__(ignore_parent=ignore_parent, inferrable=inferrable, possibly_empty=possibly_empty,
                         workable=workable)
        self.min_patterns = min_patterns

    def decomposition_function(self, c):
        if c.just_prefix or len(c.patterns) < self.min_patterns:
            return None
        keep = [p for p in c.patterns if not any(q != p and q in p for q in c.patterns)]
        if len(keep) == len(c.patterns):
            return None
        return (type(c)(c.prefix, keep, c.alphabet),)

    def formal_step(self):
        return "drop redundant patterns"

    def forward_map(self, comb_class, obj, children=None):
        return (obj,)

    def to_jsonable(self):
        d = super().to_jsonable()
        d["min_patterns"] = self.min_patterns
        return d

    @classmethod
    def from_dict(cls, d):
        return cls(**d)

    def __repr__(self):
        return "DropRedundantPatterns(min_patterns=%r, ignore_parent=%r, inferrable=%r, possibly_empty=%r, workable=%r)" % (
            self.min_patterns, self.ignore_parent, self.inferrable, self.possibly_empty, self.workable)

    def __str__(self):
        return self.formal_step()


class BruteVerified(VerificationStrategy[AvoidingWithPrefix, Word]):
    """Verifies every non-atom class whose prefix has at least `min_prefix` letters; counts by brute force."""

    def __init__(self, min_prefix=3, note="brute", exact=False, ignore_parent=False):
        super().__init__(ignore_parent=ignore_parent)
        self.min_prefix = min_prefix
        self.note = note
        self.exact = exact

    def verified(self, comb_class):
        if comb_class.just_prefix or comb_class.is_empty():
            return False
        if self.exact:
            return len(comb_class.prefix) == self.min_prefix
        return len(comb_class.prefix) >= self.min_prefix

    def formal_step(self):
        return "brute force (%s, %d)" % (self.note, self.min_prefix)

    def get_terms(self, comb_class, n):
        res = Counter()
        k = sum(1 for _ in comb_class.objects_of_size(n))
        if k:
            res[tuple()] = k
        return res

    def get_objects(self, comb_class, n):
        res = defaultdict(list)
        objs = list(comb_class.objects_of_size(n))
        if objs:
            res[tuple()] = objs
        return res

    def get_genf(self, comb_class, funcs=None):
        x = sympy.var("x")
        return sum(sum(1 for _ in comb_class.objects_of_size(n)) * x ** n for n in range(12))

    def random_sample_object_of_size(self, comb_class, n, **parameters):
        return random.choice(list(comb_class.objects_of_size(n)))

    def to_jsonable(self):
        d = super().to_jsonable()
        d["min_prefix"] = self.min_prefix
        d["note"] = self.note
        d["exact"] = self.exact
        return d

    @classmethod
    def from_dict(cls, d):
        return cls(**d)

    def __repr__(self):
        return "BruteVerified(min_prefix=%r, note=%r, exact=%r, ignore_parent=%r)" % (
            self.min_prefix, self.note, self.exact, self.ignore_parent)

    def __str__(self):
        return self.formal_step()


class ExpandFactory(StrategyFactory[AvoidingWithPrefix]):
    """Yields the expansion as a strategy (or as a ready rule) for short prefixes."""

    def __init__(self, max_prefix=9, as_rule=False):
        self.max_prefix = max_prefix
        self.as_rule = as_rule

    def __call__(self, comb_class) -> Iterator:
        if len(comb_class.prefix) <= self.max_prefix and not comb_class.just_prefix:
            strat = ExpandOrdered(descending=False)
            yield strat(comb_class) if self.as_rule else strat

    def to_jsonable(self):
        d = super().to_jsonable()
        d["max_prefix"] = self.max_prefix
        d["as_rule"] = self.as_rule
        return d

    @classmethod
    def from_dict(cls, d):
        return cls(**d)

    def __repr__(self):
        return "ExpandFactory(max_prefix=%r, as_rule=%r)" % (self.max_prefix, self.as_rule)

    def __str__(self):
        return "expansion factory"


class ParentExpandFactory(StrategyFactory[AvoidingWithPrefix]):
    """Yields the expansion rule of the class with one letter less in the prefix (a rule whose
    parent is another class): the class itself can then only be counted by a reverse rule."""

    def __init__(self, descending=False):
        self.descending = descending

    def __call__(self, comb_class) -> Iterator:
        if comb_class.prefix and not comb_class.just_prefix:
            parent = type(comb_class)(comb_class.prefix[:-1], comb_class.patterns, comb_class.alphabet)
            yield ExpandOrdered(descending=self.descending)(parent)

    def to_jsonable(self):
        d = super().to_jsonable()
        d["descending"] = self.descending
        return d

    @classmethod
    def from_dict(cls, d):
        return cls(**d)

    def __repr__(self):
        return "ParentExpandFactory(descending=%r)" % (self.descending,)

    def __str__(self):
        return "parent expansion factory"


# name -> (class, from_dict mode).  mode 0: from_dict ignores the dictionary (example.py), 1: cls(**d)
STRATS = {
    "ExpansionStrategy": (ExpansionStrategy, 0),
    "RemoveFrontOfPrefix": (RemoveFrontOfPrefix, 0),
    "AtomStrategy": (AtomStrategy, 0),
    "EmptyStrategy": (EmptyStrategy, 0),
    "ExpandOrdered": (ExpandOrdered, 1),
    "PermExpand": (PermExpand, 1),
    "GenExpand": (GenExpand, 1),
    "RemoveFront": (RemoveFront, 1),
    "SwapLetters": (SwapLetters, 1),
    "DropRedundantPatterns": (DropRedundantPatterns, 1),
    "BruteVerified": (BruteVerified, 1),
    "ExpandFactory": (ExpandFactory, 1),
    "ParentExpandFactory": (ParentExpandFactory, 1),
}
# defaults written as None in a signature that denote a fresh empty container
EFFECTIVE_DEFAULTS = {"PermExpand": {"perm": [], "meta": {}}}
# classes that can be created through a subscripted alias (they are still generic)
GENERIC = {"EmptyStrategy": EmptyStrategy, "GenExpand": GenExpand}
CLASSES = {"AvoidingWithPrefix": AvoidingWithPrefix}


def make_strategy(spec):
    """spec = [name, kwargs, alias]"""
    name, kwargs, alias = spec
    cls = STRATS[name][0]
    if alias:
        return GENERIC[name][AvoidingWithPrefix, Word](**kwargs)
    return cls(**kwargs)


def make_class(spec):
    """spec = [clsname, prefix, patterns, alphabet, just_prefix]"""
    return CLASSES[spec[0]](spec[1], spec[2], list(spec[3]), bool(spec[4]))


def make_pack(ps):
    """ps = {initial, inferral, expansion, ver, sym, iterative, name}: lists of strategy specs"""
    mk = lambda l: [make_strategy(s) for s in l]  # noqa: E731
    return StrategyPack(
        initial_strats=mk(ps["initial"]),
        inferral_strats=mk(ps["inferral"]),
        expansion_strats=[mk(x) for x in ps["expansion"]],
        ver_strats=mk(ps["ver"]),
        name=ps["name"],
        symmetries=mk(ps["sym"]),
        iterative=bool(ps["iterative"]),
    )


# ------------------------------------------------------------------ table universe, JSON-able
class TSymmetryJ(T.TSymmetry):
    def to_jsonable(self):
        d = SymmetryStrategy.to_jsonable(self)
        d["uid"] = self.uid
        d["sid"] = self.sid
        return d

    def __repr__(self):
        return "TSymmetryJ(%r, %d)" % (self.uid, self.sid)


TKIND = {"S": T.TStrategy, "F": T.TFactory, "V": T.TVerification, "Y": TSymmetryJ}
TSTRATS = {c.__name__: c for c in TKIND.values()}


def table_pack(uid):
    u = T.UNIVERSES[uid]
    p = u["pack"]
    mk = lambda l: [TKIND[u["strats"][s]["kind"]](uid, s) for s in l]  # noqa: E731
    return StrategyPack(
        initial_strats=mk(p["initial"]),
        inferral_strats=mk(p["inferral"]),
        expansion_strats=[mk(x) for x in p["expansion"]],
        ver_strats=mk(p["ver"]),
        symmetries=mk(p["sym"]),
        iterative=bool(p.get("iterative")),
        name="table pack " + uid,
    )


# ------------------------------------------------------------------ deterministic searches
class SearchTimeout(Exception):
    pass


def _alarm(*_):
    raise SearchTimeout()


def _ruledb(db):
    if db == 0:
        return RuleDB()
    if db == 1:
        return RuleDBForgetStrategy()
    return RuleDBForest(reverse=(db == 2))


def search(start, pack, db, seed, max_levels=10, seconds=4):
    """
    Level by level, asking for a specification after every level, extraction
    without timed minimisation: the same recipe gives the same specification in
    every process (given PYTHONHASHSEED).  None when nothing is found.
    """
    random.seed(seed)
    # CPU time of this process, not wall-clock time: the same recipe must give the same result in the
    # model-side and the implementation-side worker even when the machine is loaded
    old = signal.signal(signal.SIGVTALRM, _alarm)
    signal.setitimer(signal.ITIMER_VIRTUAL, seconds)
    try:
        css = CombinatorialSpecificationSearcher(start, pack, ruledb=_ruledb(db))
        for _ in range(max_levels):
            if css.has_specification():
                return css.get_specification(minimization_time_limit=0)
            try:
                css.do_level()
            except NoMoreClassesToExpandError:
                break
        if css.has_specification():
            return css.get_specification(minimization_time_limit=0)
        return None
    finally:
        signal.setitimer(signal.ITIMER_VIRTUAL, 0)
        signal.signal(signal.SIGVTALRM, old)


def find_bijection(c1, c2, pack1, pack2, seed, seconds=8):
    from comb_spec_searcher.bijection import ParallelSpecFinder
    from comb_spec_searcher.isomorphism import Bijection

    random.seed(seed)
    # CPU time of this process, not wall-clock time: the same recipe must give the same result in the
    # model-side and the implementation-side worker even when the machine is loaded
    old = signal.signal(signal.SIGVTALRM, _alarm)
    signal.setitimer(signal.ITIMER_VIRTUAL, seconds)
    try:
        specs = ParallelSpecFinder(
            CombinatorialSpecificationSearcher(c1, pack1), CombinatorialSpecificationSearcher(c2, pack2)
        ).find()
        if specs is None:
            return None
        return Bijection.construct(*specs)
    finally:
        signal.setitimer(signal.ITIMER_VIRTUAL, 0)
        signal.signal(signal.SIGVTALRM, old)
