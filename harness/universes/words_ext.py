"""
Semantic universes: the repo's own word classes (example.py, imported) with
extra strategies so that real searches exercise symmetries, inferral chains,
factories (yielding strategies and ready rules, also for another parent),
non-atom verification strategies with packs, iterative packs.  True counts and
objects are available by brute force.
"""
from itertools import product
from typing import Iterator, Optional, Tuple

from comb_spec_searcher import (
    AtomStrategy,
    CombinatorialSpecificationSearcher,
    StrategyPack,
)
from comb_spec_searcher.exception import StrategyDoesNotApply
from comb_spec_searcher.strategies.strategy import (
    DisjointUnionStrategy,
    StrategyFactory,
    SymmetryStrategy,
    VerificationStrategy,
)
from example import AvoidingWithPrefix, ExpansionStrategy, RemoveFrontOfPrefix, Word


# ------------------------------------------------------------------ truth
def words_of(cls: AvoidingWithPrefix, n: int):
    return list(cls.objects_of_size(n))


def true_counts(cls: AvoidingWithPrefix, upto: int):
    return [sum(1 for _ in cls.objects_of_size(n)) for n in range(upto + 1)]


# ------------------------------------------------------------------ strategies
class MinimizePatterns(DisjointUnionStrategy[AvoidingWithPrefix, Word]):
    """Inferral: drop patterns that contain another pattern (same set of words)."""

    def __init__(self):
        super().__init__(ignore_parent=True, inferrable=True, possibly_empty=False, workable=True)

    def decomposition_function(self, c):
        pats = c.patterns
        keep = tuple(p for p in pats if not any(q != p and q in p for q in pats))
        if len(keep) == len(pats):
            return None
        return (AvoidingWithPrefix(c.prefix, keep, c.alphabet, c.just_prefix),)

    def formal_step(self):
        return "remove redundant patterns"

    def forward_map(self, comb_class, obj, children=None):
        return (obj,)

    def __repr__(self):
        return "MinimizePatterns()"

    def __str__(self):
        return self.formal_step()

    @classmethod
    def from_dict(cls, d):
        return cls()


class SwapLetters(SymmetryStrategy[AvoidingWithPrefix, Word]):
    """Symmetry: exchange the first two letters of the alphabet everywhere."""

    @staticmethod
    def _swap(w, alphabet):
        a, b = alphabet[0], alphabet[1]
        return "".join(b if x == a else a if x == b else x for x in w)

    def decomposition_function(self, c):
        if len(c.alphabet) < 2:
            return None
        return (
            AvoidingWithPrefix(
                self._swap(c.prefix, c.alphabet),
                [self._swap(p, c.alphabet) for p in c.patterns],
                c.alphabet,
                c.just_prefix,
            ),
        )

    def formal_step(self):
        return "swap the first two letters"

    def forward_map(self, comb_class, obj, children=None):
        return (Word(self._swap(obj, comb_class.alphabet)),)

    def backward_map(self, comb_class, objs, children=None):
        yield Word(self._swap(objs[0], comb_class.alphabet))

    def __repr__(self):
        return "SwapLetters()"

    def __str__(self):
        return self.formal_step()

    @classmethod
    def from_dict(cls, d):
        return cls()


class SwapLettersOneWay(DisjointUnionStrategy[AvoidingWithPrefix, Word]):
    """The same map as SwapLetters offered as an ordinary ONE-WAY unary rule (is_two_way
    False): cycles of such rules only become equivalences through connect_cycles."""

    def __init__(self):
        super().__init__(ignore_parent=False, inferrable=False, possibly_empty=False, workable=True)

    def decomposition_function(self, c):
        if len(c.alphabet) < 2:
            return None
        sw = SwapLetters._swap
        return (AvoidingWithPrefix(sw(c.prefix, c.alphabet), [sw(p, c.alphabet) for p in c.patterns],
                                   c.alphabet, c.just_prefix),)

    def is_two_way(self, comb_class):
        return False

    def is_reversible(self, comb_class):
        return False

    def formal_step(self):
        return "swap the first two letters (one way)"

    def forward_map(self, comb_class, obj, children=None):
        return (Word(SwapLetters._swap(obj, comb_class.alphabet)),)

    def backward_map(self, comb_class, objs, children=None):
        yield Word(SwapLetters._swap(objs[0], comb_class.alphabet))

    def __repr__(self):
        return "SwapLettersOneWay()"

    def __str__(self):
        return self.formal_step()

    @classmethod
    def from_dict(cls, d):
        return cls()


class PermuteLettersOneWay(DisjointUnionStrategy[AvoidingWithPrefix, Word]):
    """A relabelling of the alphabet (letter i of the alphabet becomes letter perm[i]) offered as an
    ordinary ONE-WAY unary rule.  Two such strategies with different permutations (a 3-cycle and a
    transposition on three letters) produce overlapping DIRECTED cycles of one-way rules — classes
    that are equivalent only through connect_cycles merging several cycles that share vertices
    (seed C02b needed them to manifest)."""

    def __init__(self, perm=(1, 2, 0), first_letters=None, empty_prefix_only=False):
        super().__init__(ignore_parent=False, inferrable=False, possibly_empty=False, workable=True)
        self.perm = tuple(perm)
        # restrictions on where the strategy applies (a strategy need not apply everywhere: the
        # directed graph of one-way rules is then only PART of the orbit graph, which is what gives
        # depth-first cycle detection its difficult shapes)
        self.first_letters = first_letters        # None, or the allowed first letters of the first pattern
        self.empty_prefix_only = bool(empty_prefix_only)

    def _map(self, w, alphabet):
        if len(alphabet) != len(self.perm):
            return None
        table = {alphabet[i]: alphabet[j] for i, j in enumerate(self.perm)}
        return "".join(table[x] for x in w)

    def decomposition_function(self, c):
        if len(c.alphabet) != len(self.perm):
            return None
        if self.empty_prefix_only and (c.prefix or c.just_prefix):
            return None
        if self.first_letters is not None and not (c.patterns and c.patterns[0][:1] in self.first_letters):
            return None
        return (AvoidingWithPrefix(self._map(c.prefix, c.alphabet), [self._map(p, c.alphabet) for p in c.patterns],
                                   c.alphabet, c.just_prefix),)

    def is_two_way(self, comb_class):
        return False

    def is_reversible(self, comb_class):
        return False

    def formal_step(self):
        return "relabel the letters by %s (one way)" % (self.perm,)

    def forward_map(self, comb_class, obj, children=None):
        return (Word(self._map(obj, comb_class.alphabet)),)

    def backward_map(self, comb_class, objs, children=None):
        inv = [0] * len(self.perm)
        for i, j in enumerate(self.perm):
            inv[j] = i
        table = {comb_class.alphabet[i]: comb_class.alphabet[j] for i, j in enumerate(inv)}
        yield Word("".join(table[x] for x in objs[0]))

    def to_jsonable(self):
        d = super().to_jsonable()
        d["perm"] = list(self.perm)
        d["first_letters"] = self.first_letters
        d["empty_prefix_only"] = self.empty_prefix_only
        return d

    @classmethod
    def from_dict(cls, d):
        return cls(tuple(d.get("perm", (1, 2, 0))), d.get("first_letters"), d.get("empty_prefix_only", False))

    def __repr__(self):
        return "PermuteLettersOneWay(%r, %r, %r)" % (self.perm, self.first_letters, self.empty_prefix_only)

    def __str__(self):
        return self.formal_step()


class RemoveFrontLetterwise(RemoveFrontOfPrefix):
    """RemoveFrontOfPrefix with ONE FACTOR PER REMOVED LETTER: a product of k atoms and the
    remaining class (k + 1 >= 3 children as soon as two letters can be removed), the non-atom
    child placed last (rest_pos 0), first (1) or in the middle (2).  Exercises bounded
    compositions with three and more parts, atoms after a non-atom, and reverse rules of such
    products."""

    def __init__(self, rest_pos: int = 0):
        super().__init__()
        self.rest_pos = rest_pos

    def _where(self, k):
        return {0: k, 1: 0}.get(self.rest_pos, k // 2)

    def decomposition_function(self, c):
        pair = super().decomposition_function(c)
        if pair is None:
            return None
        start, end = pair
        atoms = [AvoidingWithPrefix(ch, c.patterns, c.alphabet, True) for ch in start.prefix]
        w = self._where(len(atoms))
        return tuple(atoms[:w] + [end] + atoms[w:])

    def formal_step(self):
        return "removing redundant prefix letter by letter (rest at %d)" % self.rest_pos

    def backward_map(self, comb_class, words, children=None):
        if children is None:
            children = self.decomposition_function(comb_class)
        k = len(children) - 1
        w = self._where(k)
        letters = [x for i, x in enumerate(words) if i != w]
        yield Word("".join(letters) + words[w])

    def forward_map(self, comb_class, word, children=None):
        if children is None:
            children = self.decomposition_function(comb_class)
        k = len(children) - 1
        w = self._where(k)
        letters = [Word(ch) for ch in word[:k]]
        return tuple(letters[:w] + [Word(word[k:])] + letters[w:])

    def to_jsonable(self):
        d = super().to_jsonable()
        d["rest_pos"] = self.rest_pos
        return d

    @classmethod
    def from_dict(cls, d):
        return cls(d.get("rest_pos", 0))

    def __repr__(self):
        return "RemoveFrontLetterwise(%d)" % self.rest_pos

    def __str__(self):
        return self.formal_step()


class WordFactory(StrategyFactory[AvoidingWithPrefix]):
    """Yields a strategy, a ready rule, and (mode 2) the expansion rule of the
    class whose prefix is one letter shorter (a rule with another parent)."""

    def __init__(self, mode: int = 0):
        self.mode = mode

    def __call__(self, comb_class) -> Iterator:
        yield RemoveFrontOfPrefix()
        if self.mode >= 1:
            try:
                yield ExpansionStrategy()(comb_class)
            except StrategyDoesNotApply:
                pass
        if self.mode >= 2 and comb_class.prefix and not comb_class.just_prefix:
            shorter = AvoidingWithPrefix(comb_class.prefix[:-1], comb_class.patterns, comb_class.alphabet)
            yield ExpansionStrategy()(shorter)

    def to_jsonable(self):
        d = super().to_jsonable()
        d["mode"] = self.mode
        return d

    @classmethod
    def from_dict(cls, d):
        return cls(d["mode"])

    def __repr__(self):
        return "WordFactory(%d)" % self.mode

    def __str__(self):
        return "word factory %d" % self.mode


class ShortPatternsVerified(VerificationStrategy[AvoidingWithPrefix, Word]):
    """Verifies non-atom classes all of whose patterns are single letters
    (words over a sub-alphabet); supplies a pack to expand them."""

    def verified(self, c):
        return (not c.just_prefix) and all(len(p) <= 1 for p in c.patterns) and not c.is_empty()

    def pack(self, comb_class):
        return base_pack()

    def formal_step(self):
        return "words over a sub-alphabet"

    @classmethod
    def from_dict(cls, d):
        return cls()

    def __repr__(self):
        return "ShortPatternsVerified()"

    def __str__(self):
        return self.formal_step()


# ------------------------------------------------------------------ packs
def base_pack():
    return StrategyPack(
        initial_strats=[RemoveFrontOfPrefix()],
        inferral_strats=[],
        expansion_strats=[[ExpansionStrategy()]],
        ver_strats=[AtomStrategy()],
        name="base",
    )


PERMS3 = [(1, 2, 0), (2, 0, 1), (1, 0, 2), (0, 2, 1), (2, 1, 0)]


class _Packs(dict):
    """The named packs below, plus a parametric family  ow3|<perm><letters><e>|<perm><letters><e>|<where>
    of packs with two restricted one-way relabellings: <perm> indexes PERMS3, <letters> is a subset of
    'abc' written as a word or '*' for no restriction, <e> is 'e' (classes with empty prefix only) or
    '-', <where> is 'i' (both initial strategies) or 'x' (second expansion set)."""

    def __missing__(self, name):
        if name.startswith("of1_"):
            # one-factor-product packs (harness/universes/words_onefactor.py); never drawn by random_cfg
            from harness.universes import words_onefactor

            return words_onefactor.PACKS[name]
        if not name.startswith("ow3|"):
            raise KeyError(name)
        _, s1, s2, where = name.split("|")

        def strat(sp):
            perm = PERMS3[int(sp[0])]
            letters = None if sp[1:-1] == "*" else sp[1:-1]
            return PermuteLettersOneWay(perm, letters, sp[-1] == "e")

        def make():
            a, b = strat(s1), strat(s2)
            if where == "i":
                return StrategyPack([RemoveFrontOfPrefix(), a, b], [], [[ExpansionStrategy()]], [AtomStrategy()],
                                    name=name)
            return StrategyPack([RemoveFrontOfPrefix()], [], [[ExpansionStrategy()], [a, b]], [AtomStrategy()],
                                name=name)

        return make


def random_ow3_pack_name(rng):
    def sp():
        letters = rng.choice(["*", "*", "a", "b", "c", "ab", "bc", "ac"])
        return "%d%s%s" % (rng.randrange(len(PERMS3)), letters, rng.choice("e-"))

    return "ow3|%s|%s|%s" % (sp(), sp(), rng.choice("iiix"))


PACKS = _Packs({
    "base": base_pack,
    "sym": lambda: StrategyPack([RemoveFrontOfPrefix()], [], [[ExpansionStrategy()]], [AtomStrategy()],
                                name="sym", symmetries=[SwapLetters()]),
    "inferral": lambda: StrategyPack([RemoveFrontOfPrefix()], [MinimizePatterns()], [[ExpansionStrategy()]],
                                     [AtomStrategy()], name="inferral"),
    "sym+inferral": lambda: StrategyPack([RemoveFrontOfPrefix()], [MinimizePatterns()], [[ExpansionStrategy()]],
                                         [AtomStrategy()], name="sym+inferral", symmetries=[SwapLetters()]),
    "factory0": lambda: StrategyPack([WordFactory(0)], [], [[ExpansionStrategy()]], [AtomStrategy()], name="factory0"),
    "factory1": lambda: StrategyPack([WordFactory(1)], [], [[ExpansionStrategy()]], [AtomStrategy()], name="factory1"),
    "factory2": lambda: StrategyPack([], [], [[WordFactory(2)], [ExpansionStrategy()]], [AtomStrategy()],
                                     name="factory2"),
    "verif": lambda: StrategyPack([RemoveFrontOfPrefix()], [], [[ExpansionStrategy()]],
                                  [AtomStrategy(), ShortPatternsVerified()], name="verif"),
    "two_sets": lambda: StrategyPack([], [], [[RemoveFrontOfPrefix()], [ExpansionStrategy()]], [AtomStrategy()],
                                     name="two_sets"),
    "oneway": lambda: StrategyPack([RemoveFrontOfPrefix(), SwapLettersOneWay()], [], [[ExpansionStrategy()]],
                                   [AtomStrategy()], name="oneway"),
    "iterative": lambda: StrategyPack([RemoveFrontOfPrefix()], [], [[ExpansionStrategy()]], [AtomStrategy()],
                                      name="iterative", iterative=True),
    # overlapping directed cycles of one-way unary rules (a 3-cycle and a transposition of the letters)
    "oneway3": lambda: StrategyPack([RemoveFrontOfPrefix(), PermuteLettersOneWay((1, 2, 0)),
                                     PermuteLettersOneWay((1, 0, 2))], [], [[ExpansionStrategy()]],
                                    [AtomStrategy()], name="oneway3"),
    "oneway3_rot": lambda: StrategyPack([RemoveFrontOfPrefix(), PermuteLettersOneWay((1, 2, 0)),
                                         PermuteLettersOneWay((2, 0, 1))], [], [[ExpansionStrategy()]],
                                        [AtomStrategy()], name="oneway3_rot"),
    "oneway3_rot_sets": lambda: StrategyPack([PermuteLettersOneWay((1, 2, 0))], [],
                                             [[RemoveFrontOfPrefix(), PermuteLettersOneWay((2, 0, 1))],
                                              [ExpansionStrategy()]],
                                             [AtomStrategy()], name="oneway3_rot_sets"),
    "oneway3_late": lambda: StrategyPack([RemoveFrontOfPrefix()], [],
                                         [[ExpansionStrategy()],
                                          [PermuteLettersOneWay((1, 0, 2)), PermuteLettersOneWay((2, 0, 1))]],
                                         [AtomStrategy()], name="oneway3_late"),
    # products with three and more factors (seed C01a needed them to manifest)
    "letterwise": lambda: StrategyPack([RemoveFrontLetterwise(0)], [], [[ExpansionStrategy()]], [AtomStrategy()],
                                       name="letterwise"),
    "letterwise_first": lambda: StrategyPack([RemoveFrontLetterwise(1)], [], [[ExpansionStrategy()]],
                                             [AtomStrategy()], name="letterwise_first"),
    "letterwise_mid": lambda: StrategyPack([RemoveFrontLetterwise(2)], [], [[ExpansionStrategy()]],
                                           [AtomStrategy()], name="letterwise_mid"),
})

START_SPECS = [
    ("", ["ab"], "ab"),
    ("", ["aa", "bb"], "ab"),
    ("", ["bb"], "ab"),
    ("", ["aba"], "ab"),
    ("", ["a", "b"], "ab"),
    ("", ["abb", "ba"], "ab"),
    ("", ["aab", "b"], "ab"),      # redundant pattern: aab contains... no; b kills everything with b
    ("", ["ab", "aab"], "ab"),     # aab redundant (contains ab)
    ("", ["ababa", "babb"], "ab"),
    ("", ["abc", "ca"], "abc"),
    ("", ["aa"], "abc"),
    ("a", ["aba"], "ab"),
    ("ba", ["bb"], "ab"),
    ("", [], "ab"),
    ("", ["a"], "ab"),
    ("", ["b", "aa"], "ab"),
    ("", ["ab", "ba"], "ab"),      # swap-invariant
    ("", ["aab", "bba"], "ab"),    # swap-invariant
    ("aa", ["aa"], "ab"),          # EMPTY start class
    ("ba", ["aab", "ab", "ba"], "ab"),   # EMPTY start class
    # long prefixes: several letters are removed at once (products with >= 3 factors under the
    # letterwise packs)
    ("bbba", ["aa"], "ab"),
    ("abab", ["bb"], "ab"),
    ("cabc", ["aa", "cb"], "abc"),
    ("bab", ["aab"], "ab"),
    # three letters: the relabelling packs (oneway3*) act on these
    ("", ["ab"], "abc"),
    ("", ["ab", "bc"], "abc"),
    ("a", ["ab", "ca"], "abc"),
    ("", ["abc"], "abc"),
]


def start(i):
    p, pats, alph = START_SPECS[i]
    return AvoidingWithPrefix(p, pats, list(alph))


def make_ruledb(name):
    from comb_spec_searcher.rule_db import RuleDB, RuleDBForest, RuleDBForgetStrategy

    if name == "base":
        return RuleDB()
    if name == "forget":
        return RuleDBForgetStrategy()
    if name == "forest":
        return RuleDBForest(reverse=True)
    if name == "forest_noreverse":
        return RuleDBForest(reverse=False)
    raise ValueError(name)


RULEDBS = ["base", "forget", "forest", "forest_noreverse"]


def searcher(cfg):
    """cfg = {start: index, pack: name, ruledb: name, expand_verified: bool}"""
    return CombinatorialSpecificationSearcher(
        start(cfg["start"]),
        PACKS[cfg["pack"]](),
        ruledb=make_ruledb(cfg["ruledb"]),
        expand_verified=bool(cfg.get("expand_verified")),
    )


def random_cfg(rng):
    cfg = {
        "start": rng.randrange(len(START_SPECS)),
        "pack": rng.choice(list(PACKS)),
        "ruledb": rng.choice(RULEDBS),
        "expand_verified": rng.random() < 0.2,
        "smallest": rng.random() < 0.2,
        "tree_seed": rng.randrange(1 << 30),
    }
    if cfg["pack"] == "iterative" or cfg["ruledb"].startswith("forest"):
        cfg["smallest"] = False
    if rng.random() < 0.12:
        cfg["pack"] = random_ow3_pack_name(rng)
        if cfg["ruledb"].startswith("forest") and rng.random() < 0.6:
            cfg["ruledb"] = rng.choice(["base", "forget"])
    if cfg["pack"].startswith(("oneway3", "ow3|")) and rng.random() < 0.85:
        # the relabelling packs only act on three-letter alphabets
        cfg["start"] = rng.choice([i for i, sp in enumerate(START_SPECS) if len(sp[2]) == 3])
    # how many work packets are processed between two has_specification() calls (auto_search's
    # time slicing makes this arbitrary): cycles of one-way rules are merged by connect_cycles at
    # those calls only, so several new cycles may or may not be seen for the first time together
    cfg["check_every"] = rng.choice([1, 1, 2, 3, 5, 8, 13, 30])
    return cfg
