"""
Word universes for C19 (expanding verified classes).

A case names a start class, a flavour of the searching pack, a rule database, and a TABLE OF
VERIFICATION ENTRIES: `verif = [[prefix, pack_id], ...]` verifies the (non-atom, non-empty) class
with that prefix; pack_id >= 0 names the pack `packs[pack_id]` that `VerificationStrategy.pack`
supplies for it, pack_id = -1 means the strategy supplies NO pack (the class stays verified,
counted by brute force).  `packs[i] = {"flavour": name, "verif": [[prefix, pack_id], ...]}` with
pack_id < i: the supplied pack may itself verify classes with a pack of a lower level (nested
verification) — levels make the "simpler verification strategies" contract of
VerificationStrategy.pack hold, so expand_verified terminates.

Flavours of packs:
  base, letterwise, factory1, inferral, sym, two_sets, oneway  — as in words_ext
  prepend   — ONLY a factory that yields, for the class with prefix p, the rule
              RemoveFrontOfPrefix()(class with prefix c+p) = atom(c) x class(p) of ANOTHER parent:
              the class itself gets no rule, so the reverse-free attempt fails and the class is
              only specified by the REVERSE of that rule (expand_verified's retry)
  shorter   — ONLY a factory that yields ExpansionStrategy()(class with the prefix one letter
              shorter): the class is specified by the reverse of a disjoint union
"""
from collections import Counter, defaultdict
import random as _random

from comb_spec_searcher import AtomStrategy, CombinatorialSpecificationSearcher, StrategyPack
from comb_spec_searcher.exception import InvalidOperationError, StrategyDoesNotApply
from itertools import product

from comb_spec_searcher.strategies.strategy import DisjointUnionStrategy, StrategyFactory, VerificationStrategy
from example import AvoidingWithPrefix, ExpansionStrategy, RemoveFrontOfPrefix, Word

from harness.universes import words_ext as W


def _freeze(x):
    if isinstance(x, (list, tuple)):
        return tuple(_freeze(y) for y in x)
    if isinstance(x, dict):
        return tuple(sorted((k, _freeze(v)) for k, v in x.items()))
    return x


def _thaw_packs(fp):
    return [{"flavour": dict(p)["flavour"], "verif": [list(e) for e in dict(p)["verif"]]} for p in fp]


def _minimal(c):
    """no pattern of the class contains another one (MinimizePatterns does not apply)"""
    return not any(q != p and q in p for p in c.patterns for q in c.patterns)


class VerifySet(VerificationStrategy[AvoidingWithPrefix, Word]):
    """Verifies the non-atom, non-empty classes whose prefix is listed; supplies the listed pack."""

    def __init__(self, entries, packs):
        super().__init__(ignore_parent=False)
        self.entries = _freeze(entries)       # ((prefix, pack_id[, only_if_patterns_minimal]), ...)
        self.packs = _freeze(packs)           # frozen description of the whole table of packs

    def _pid(self, c):
        if c.just_prefix or c.is_empty():
            return None
        for e in self.entries:
            if e[0] == c.prefix and (len(e) < 3 or not e[2] or _minimal(c)):
                return e[1]
        return None

    def verified(self, comb_class):
        return self._pid(comb_class) is not None

    def pack(self, comb_class):
        i = self._pid(comb_class)
        if i is None or i < 0:
            raise InvalidOperationError("no pack for %s" % (comb_class,))
        return make_pack(_thaw_packs(self.packs), i)

    # brute force: genuine by construction, fast
    def get_terms(self, comb_class, n):
        k = sum(1 for _ in comb_class.objects_of_size(n))
        return Counter({(): k}) if k else Counter()

    def get_objects(self, comb_class, n):
        res = defaultdict(list)
        objs = list(comb_class.objects_of_size(n))
        if objs:
            res[()] = objs
        return res

    def random_sample_object_of_size(self, comb_class, n, **parameters):
        return _random.choice(list(comb_class.objects_of_size(n)))

    def get_genf(self, comb_class, funcs=None):
        raise NotImplementedError

    def formal_step(self):
        return "verified by table %r" % (self.entries,)

    def to_jsonable(self):
        d = super().to_jsonable()
        d["entries"] = [list(e) for e in self.entries]
        d["packs"] = _thaw_packs(self.packs)
        return d

    @classmethod
    def from_dict(cls, d):
        return cls(d["entries"], d["packs"])

    def __repr__(self):
        return "VerifySet(%r)" % (self.entries,)

    def __str__(self):
        return self.formal_step()


class ExpandK(DisjointUnionStrategy[AvoidingWithPrefix, Word]):
    """Append up to k letters at once: the words p+w with |w| < k as atoms and the classes with
    prefix p+w, |w| = k.  Makes long prefixes appear next to classes that reach their shorter
    prefixes by other rules (needed for the reverse of a disjoint union, see ShorterFactory)."""

    def __init__(self, k=3):
        super().__init__()
        self.k = k

    def _parts(self, c):
        out = []
        for n in range(self.k):
            for w in product(c.alphabet, repeat=n):
                out.append(AvoidingWithPrefix(c.prefix + "".join(w), c.patterns, c.alphabet, True))
        for w in product(c.alphabet, repeat=self.k):
            out.append(AvoidingWithPrefix(c.prefix + "".join(w), c.patterns, c.alphabet))
        return tuple(out)

    def decomposition_function(self, c):
        if c.just_prefix:
            return None
        return self._parts(c)

    def formal_step(self):
        return "append up to %d letters" % self.k

    def forward_map(self, comb_class, word, children=None):
        if children is None:
            children = self.decomposition_function(comb_class)
        for i, ch in enumerate(children):
            if (ch.just_prefix and word == ch.prefix) or (not ch.just_prefix and word.startswith(ch.prefix)):
                return tuple(word if j == i else None for j in range(len(children)))
        raise ValueError("word not in class")

    def to_jsonable(self):
        d = super().to_jsonable()
        d["k"] = self.k
        return d

    @classmethod
    def from_dict(cls, d):
        return cls(d.get("k", 3))

    def __repr__(self):
        return "ExpandK(%d)" % self.k

    def __str__(self):
        return self.formal_step()


class PrependFactory(StrategyFactory[AvoidingWithPrefix]):
    """For the class with prefix p: the product rules of the classes with prefix c+p that strip
    exactly the letter c (rules of another parent)."""

    def __call__(self, comb_class):
        if comb_class.just_prefix:
            return
        for c in comb_class.alphabet:
            parent = AvoidingWithPrefix(c + comb_class.prefix, comb_class.patterns, comb_class.alphabet)
            if parent.is_empty():
                continue
            try:
                rule = RemoveFrontOfPrefix()(parent)
                ch = rule.children
            except StrategyDoesNotApply:
                continue
            if len(ch) == 2 and ch[1] == comb_class:
                yield rule

    @classmethod
    def from_dict(cls, d):
        return cls()

    def __repr__(self):
        return "PrependFactory()"

    def __str__(self):
        return "prepend a letter"


class ShorterFactory(StrategyFactory[AvoidingWithPrefix]):
    """For the class with prefix p+c: the expansion rule of the class with prefix p."""

    def __call__(self, comb_class):
        if comb_class.just_prefix or not comb_class.prefix:
            return
        shorter = AvoidingWithPrefix(comb_class.prefix[:-1], comb_class.patterns, comb_class.alphabet)
        if not shorter.is_empty():
            yield ExpansionStrategy()(shorter)

    @classmethod
    def from_dict(cls, d):
        return cls()

    def __repr__(self):
        return "ShorterFactory()"

    def __str__(self):
        return "expansion of the shorter prefix"


FLAVOURS = {
    # name: (initial, inferral, expansion sets, symmetries)
    "base": lambda: ([RemoveFrontOfPrefix()], [], [[ExpansionStrategy()]], []),
    "letterwise": lambda: ([W.RemoveFrontLetterwise(0)], [], [[ExpansionStrategy()]], []),
    "letterwise_mid": lambda: ([W.RemoveFrontLetterwise(2)], [], [[ExpansionStrategy()]], []),
    "factory1": lambda: ([W.WordFactory(1)], [], [[ExpansionStrategy()]], []),
    "factory2": lambda: ([], [], [[W.WordFactory(2)], [ExpansionStrategy()]], []),
    "inferral": lambda: ([RemoveFrontOfPrefix()], [W.MinimizePatterns()], [[ExpansionStrategy()]], []),
    "sym": lambda: ([RemoveFrontOfPrefix()], [], [[ExpansionStrategy()]], [W.SwapLetters()]),
    "two_sets": lambda: ([], [], [[RemoveFrontOfPrefix()], [ExpansionStrategy()]], []),
    "oneway": lambda: ([RemoveFrontOfPrefix(), W.SwapLettersOneWay()], [], [[ExpansionStrategy()]], []),
    "expand_only": lambda: ([], [], [[ExpansionStrategy()], [RemoveFrontOfPrefix()]], []),
    "expand3": lambda: ([RemoveFrontOfPrefix()], [], [[ExpandK(3)], [ExpansionStrategy()]], []),
    "expand2": lambda: ([RemoveFrontOfPrefix()], [], [[ExpandK(2)], [ExpansionStrategy()]], []),
    "prepend": lambda: ([], [], [[PrependFactory()]], []),
    "shorter": lambda: ([], [], [[ShorterFactory()]], []),
    "prepend+base": lambda: ([], [], [[PrependFactory()], [RemoveFrontOfPrefix(), ExpansionStrategy()]], []),
}
SEARCH_FLAVOURS = ["base", "letterwise", "factory1", "inferral", "sym", "two_sets", "oneway", "expand_only",
                   "letterwise_mid", "factory2", "expand3", "expand2"]
EXPAND_FLAVOURS = ["base", "base", "base", "letterwise", "letterwise", "factory1", "factory1", "inferral", "inferral",
                   "sym", "sym", "two_sets", "two_sets", "expand_only", "expand_only", "factory2", "factory2",
                   "letterwise_mid", "expand2", "prepend", "shorter", "prepend+base"]


def _pack(flavour, entries, packs, name):
    ini, inf, exp, sym = FLAVOURS[flavour]()
    ver = [AtomStrategy()]
    if entries:
        ver.append(VerifySet(entries, packs))
    return StrategyPack(ini, inf, exp, ver, name=name, symmetries=sym)


def make_pack(packs, i):
    """the pack supplied for classes verified with pack_id i"""
    p = packs[i]
    return _pack(p["flavour"], p["verif"], packs, "level%d:%s" % (i, p["flavour"]))


def search_pack(case):
    return _pack(case["opack"], case["verif"], case["packs"], "search:" + case["opack"])


def start(case):
    p, pats, alph = case["start"]
    return AvoidingWithPrefix(p, pats, list(alph))


def searcher(case):
    return CombinatorialSpecificationSearcher(start(case), search_pack(case), ruledb=W.make_ruledb(case["ruledb"]))


STARTS = [
    ("", ["aa", "bb"], "ab"),
    ("", ["bb"], "ab"),
    ("", ["aba"], "ab"),
    ("", ["ab"], "ab"),
    ("", ["abb", "ba"], "ab"),
    ("", ["ababa", "babb"], "ab"),
    ("", ["abc", "ca"], "abc"),
    ("", ["aa"], "abc"),
    ("", ["aab"], "ab"),
    ("", ["aab", "bba"], "ab"),
    ("a", ["aba"], "ab"),
    ("ba", ["bb"], "ab"),
    ("", ["ab", "aab"], "ab"),
    ("", ["aaa", "bb"], "ab"),
    ("", ["aa", "bb", "cc"], "abc"),
    ("bab", ["aab"], "ab"),
    ("", [], "ab"),
    ("", ["a"], "ab"),
    # redundant patterns: the inferral strategy makes equivalence steps
    ("", ["aa", "aab", "bb"], "ab"),
    ("", ["bb", "abb"], "ab"),
    ("", ["ab", "abb", "ba"], "ab"),
    ("", ["aba", "aabab"], "ab"),
    ("b", ["aa", "baa"], "ab"),
]
REDUNDANT = [i for i, st_ in enumerate(STARTS) if any(q != p_ and q in p_ for p_ in st_[1] for q in st_[1])]


def prefixes_of_base_spec(st, cache={}):  # pylint: disable=dangerous-default-value
    """prefixes of the non-atom classes met by a base-pack search from the start class (candidates
    for verification entries), in a deterministic order"""
    k = _freeze(st)
    if k not in cache:
        css = CombinatorialSpecificationSearcher(
            AvoidingWithPrefix(st[0], st[1], list(st[2])), W.base_pack())
        css._expand_classes_for(1e9, None, 0, 0)  # pylint: disable=protected-access
        seen = []
        for lab in range(len(css.classdb.label_to_info)):
            c = css.classdb.get_class(lab)
            if not c.just_prefix and not c.is_empty() and c.prefix not in seen and len(c.prefix) <= 5:
                seen.append(c.prefix)
        cache[k] = seen
    return cache[k]


def random_entries(rng, prefs, max_pack, n_lo=1, n_hi=4):
    n = rng.randint(n_lo, n_hi)
    out = []
    for p in rng.sample(prefs, min(n, len(prefs))):
        if max_pack < 0 or rng.random() < 0.2:
            out.append([p, -1])
        else:
            out.append([p, rng.randint(0, max_pack)])
    return out


def _search_flavour(rng, st):
    fl = rng.choice(SEARCH_FLAVOURS)
    if fl == "expand3" and (len(st[2]) > 2 or rng.random() < 0.5):      # costly: binary alphabets only, rarer
        fl = "expand2"
    return fl


def random_case(rng):
    st = list(rng.choice(STARTS))
    st = [st[0], list(st[1]), st[2]]
    prefs = prefixes_of_base_spec(st)
    # longer prefixes too: classes met only by other flavours / deeper expansions
    extra = [p + c for p in prefs for c in st[2] if len(p) <= 3]
    pool = prefs + [p for p in extra if p not in prefs]
    npacks = rng.choice([1, 1, 2, 2, 3])
    packs = []
    for i in range(npacks):
        fl = rng.choice(EXPAND_FLAVOURS)
        ver = []
        if i > 0 and rng.random() < 0.8:
            ver = [e for e in random_entries(rng, pool, i - 1, 1, 3)]
        elif rng.random() < 0.15:
            ver = [[p, -1] for p in rng.sample(pool, 1)]
        packs.append({"flavour": fl, "verif": ver})
    r = rng.random()
    if r < 0.12:
        verif = [["" if not st[0] else st[0], npacks - 1]]          # the root itself is verified
    else:
        verif = random_entries(rng, pool if rng.random() < 0.3 else prefs, npacks - 1, 1, 4)
    return {
        "start": st,
        "opack": _search_flavour(rng, st),
        "ruledb": rng.choice(W.RULEDBS),
        "verif": verif,
        "packs": packs,
        "tree_seed": rng.randrange(1 << 30),
    }


def reverse_candidates(st, cache={}):  # pylint: disable=dangerous-default-value
    """(flavour, parent prefix, child prefix): rules of the base universe whose reverse specifies the
    child from the parent: W = atom x X with a one-letter atom (prepend), T = {T} + Ta + Tb (shorter)"""
    k = _freeze(st)
    if k not in cache:
        css = CombinatorialSpecificationSearcher(
            AvoidingWithPrefix(st[0], st[1], list(st[2])), W.base_pack())
        css._expand_classes_for(1e9, None, 0, 0)  # pylint: disable=protected-access
        out = []
        for lab in range(len(css.classdb.label_to_info)):
            c = css.classdb.get_class(lab)
            if c.just_prefix or c.is_empty() or len(c.prefix) > 5:
                continue
            try:
                ch = RemoveFrontOfPrefix()(c).children
                if len(ch[0].prefix) == 1:
                    out.append(("prepend", c.prefix, ch[1].prefix))
            except StrategyDoesNotApply:
                pass
            for x in ExpansionStrategy()(c).children[1:]:
                if not x.is_empty():
                    out.append(("shorter", c.prefix, x.prefix))
        cache[k] = out
    return cache[k]


def spec_prefixes(st, opack, cache={}):  # pylint: disable=dangerous-default-value
    """prefixes of the non-atom, non-empty classes of the specification the searching pack finds
    without any verification entry (where entries will bite)"""
    k = (_freeze(st), opack)
    if k not in cache:
        case = {"start": st, "opack": opack, "ruledb": "forest", "verif": [], "packs": []}
        css = searcher(case)
        while not css.has_specification():
            if not css._expand_classes_for(-1, None, 0, 0)[0]:  # pylint: disable=protected-access
                break
        out = []
        if css.has_specification():
            for r in css.ruledb.get_specification_rules():
                for c in (r.comb_class,) + tuple(r.children):
                    if not c.just_prefix and not c.is_empty() and c.prefix not in out:
                        out.append(c.prefix)
        cache[k] = sorted(out)
    return cache[k]


def directed_reverse_case(rng):
    """the class is only specified by the REVERSE of a rule of another parent:
    prepend — W = atom x X with W verified without a pack (reverse of a product: Quotient);
    shorter — T = {T} + Ta + Tb with T specified by other rules (reverse of a union: Complement),
              the searching pack appends several letters at once so that Ta is met next to T"""
    case = random_case(rng)
    if rng.random() < 0.5:
        for _ in range(30):
            st = list(rng.choice(STARTS))
            st = [st[0], list(st[1]), st[2]]
            cands = [c for c in reverse_candidates(st) if c[0] == "prepend"]
            if cands:
                break
        else:
            return case
        fl, parent, child = rng.choice(cands)
        case["start"] = st
        case["opack"] = rng.choice(["base", "two_sets", "factory1", "expand_only", "inferral", "letterwise"])
        base = [[parent, -1], [child, None]]
        pool = prefixes_of_base_spec(st)
    else:
        for _ in range(30):
            st = list(rng.choice(STARTS))
            st = [st[0], list(st[1]), st[2]]
            opack = "expand3" if (len(st[2]) == 2 and rng.random() < 0.3) else "expand2"
            pool = [p for p in spec_prefixes(st, opack) if p]
            if pool:
                break
        else:
            return case
        fl = "shorter"
        case["start"] = st
        case["opack"] = opack
        base = [[rng.choice(pool), None]]
    k = len(case["packs"])
    nested = []
    if rng.random() < 0.3:
        nested = random_entries(rng, pool, k - 1, 1, 2)
    case["packs"] = case["packs"] + [{"flavour": fl, "verif": nested}]
    for e in base:
        if e[1] is None:
            e[1] = k
    extra = []
    if rng.random() < 0.5:
        taken = {e[0] for e in base}
        extra = [e for e in random_entries(rng, pool, k, 1, 2) if e[0] not in taken]
    case["verif"] = base + extra
    rng.shuffle(case["verif"])
    return case


def directed_path_case(rng):
    """specifications with equivalence paths: redundant patterns + inferral / symmetries / one-way
    unary rules in the searching pack; a verified class right behind an equivalence step"""
    st = list(STARTS[rng.choice(REDUNDANT)]) if rng.random() < 0.7 else list(rng.choice(STARTS))
    st = [st[0], list(st[1]), st[2]]
    case = random_case(rng)
    case["start"] = st
    case["opack"] = rng.choice(["inferral", "inferral", "sym", "oneway"])
    prefs = prefixes_of_base_spec(st)
    k = len(case["packs"]) - 1
    ents = []
    for p in rng.sample(prefs, min(len(prefs), rng.randint(1, 3))):
        ents.append([p, rng.randint(0, k) if rng.random() < 0.85 else -1, int(rng.random() < 0.6)])
    if rng.random() < 0.4:
        ents.append([st[0], rng.randint(0, k), 1])      # the start class behind its inferral step
    case["verif"] = ents
    return case
