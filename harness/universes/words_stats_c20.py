"""
Word classes with STATISTICS (extra parameters) for C20.

StatWord = the repo's AvoidingWithPrefix (imported) + a tuple of statistics
((name, letter), ...): parameter `name` of a word is the number of occurrences of
`letter`.  Several names may track the same letter (so that a rule can map several
parent parameters onto one child parameter), names are arbitrary sympy symbol names.

Strategies (the repo's DisjointUnionStrategy / CartesianProductStrategy base classes):

StatExpansion(mode)   example.ExpansionStrategy with parameters.
   mode 0 "keep"    children carry the parent's statistics under the same names; the
                    one-word child (just the prefix) only keeps statistics of letters that
                    occur in the prefix (the others are 0 on it: not mapped).
   mode 1 "merge"   children keep ONE name per letter (the first): several parent
                    parameters are mapped onto one child parameter.
   mode 2 "rename"  like keep, but every child parameter gets a new name (suffix "_r").
   mode 3 "extra"   like keep, but the children track one more statistic (a letter the
                    parent does not track): a child parameter not mapped from any parent
                    parameter (get_terms sums it out).
StatRemoveFront(mode) example.RemoveFrontOfPrefix with parameters (letter counts add up
                    over the concatenation).  mode 0 keep, mode 1 merge, mode 2 rename.
StatAtom            verification strategy for one-word classes with parameters
                    (the library's AtomStrategy refuses classes with parameters).

True terms: brute force through the class's own objects_of_size / get_parameters.
"""
from collections import Counter
from typing import Optional, Tuple

from comb_spec_searcher import CartesianProductStrategy, DisjointUnionStrategy, StrategyPack
from comb_spec_searcher.strategies.strategy import VerificationStrategy
from example import AvoidingWithPrefix, ExpansionStrategy, RemoveFrontOfPrefix


class StatWord(AvoidingWithPrefix):
    def __init__(self, prefix, patterns, alphabet, just_prefix=False, stats=()):
        super().__init__(prefix, patterns, alphabet, just_prefix)
        self.stats = tuple((str(n), str(l)) for n, l in stats)

    @property
    def extra_parameters(self) -> Tuple[str, ...]:
        return tuple(n for n, _ in self.stats)

    def get_parameters(self, obj):
        return tuple(obj.count(l) for _, l in self.stats)

    def get_minimum_value(self, parameter):
        for n, l in self.stats:
            if n == parameter:
                return self.prefix.count(l)
        raise KeyError(parameter)

    def possible_parameters(self, n):
        def rec(i):
            if i == len(self.stats):
                yield {}
                return
            for rest in rec(i + 1):
                for v in range(n + 1):
                    d = {self.stats[i][0]: v}
                    d.update(rest)
                    yield d
        yield from rec(0)

    def objects_of_size(self, size, **parameters):
        for w in super().objects_of_size(size):
            if all(w.count(l) == parameters[n] for n, l in self.stats if n in parameters):
                yield w

    def to_jsonable(self):
        d = super().to_jsonable()
        d["stats"] = [list(s) for s in self.stats]
        return d

    @classmethod
    def from_dict(cls, d):
        return cls(d["prefix"], d["patterns"], d["alphabet"], bool(int(d["just_prefix"])), d["stats"])

    def __eq__(self, other):
        if not isinstance(other, StatWord):
            return NotImplemented
        return AvoidingWithPrefix.__eq__(self, other) and self.stats == other.stats

    def __hash__(self):
        return hash((AvoidingWithPrefix.__hash__(self), self.stats))

    def __repr__(self):
        return "StatWord(%r, %r, %r, %r, %r)" % (
            str(self.prefix), tuple(map(str, self.patterns)), self.alphabet, self.just_prefix, self.stats)

    def __str__(self):
        return AvoidingWithPrefix.__str__(self) + " tracking %s" % (self.stats,)


def _child_stats(stats, mode, keep_letters=None, extra_letter=None):
    """-> (child stats, extra_parameters dict parent name -> child name)"""
    out, ep, first = [], {}, {}
    for n, l in stats:
        if keep_letters is not None and l not in keep_letters:
            continue
        if mode == 1:
            if l not in first:
                first[l] = n
                out.append((n, l))
            ep[n] = first[l]
        elif mode == 2:
            out.append((n + "_r", l))
            ep[n] = n + "_r"
        else:
            out.append((n, l))
            ep[n] = n
    if mode == 3 and extra_letter is not None and (keep_letters is None or extra_letter in keep_letters):
        out.append(("e_" + extra_letter, extra_letter))
    return tuple(out), ep


def _with_stats(c, stats):
    return StatWord(c.prefix, c.patterns, c.alphabet, c.just_prefix, stats)


class _StatMixin:
    BASE = None

    def __init__(self, mode=0, **kw):
        super().__init__(**kw)
        self.mode = mode

    def _extra_letter(self, comb_class):
        tracked = {l for _, l in comb_class.stats}
        rest = [l for l in comb_class.alphabet if l not in tracked]
        return rest[0] if rest else None

    def _children(self, comb_class):
        plain = self.BASE.decomposition_function(self, comb_class)
        if plain is None:
            return None
        kids, eps = [], []
        for c in plain:
            keep = set(c.prefix) if c.just_prefix else None
            st, ep = _child_stats(comb_class.stats, self.mode, keep, self._extra_letter(comb_class))
            kids.append(_with_stats(c, st))
            eps.append(ep)
        return tuple(kids), tuple(eps)

    def decomposition_function(self, comb_class):
        r = self._children(comb_class)
        return None if r is None else r[0]

    def extra_parameters(self, comb_class, children=None):
        return self._children(comb_class)[1]

    def to_jsonable(self):
        d = super().to_jsonable()
        d["mode"] = self.mode
        return d

    @classmethod
    def from_dict(cls, d):
        return cls(d.get("mode", 0))

    def __repr__(self):
        return "%s(%d)" % (type(self).__name__, self.mode)

    def __str__(self):
        return "%s, statistics mode %d" % (self.BASE.formal_step(self), self.mode)

    def formal_step(self):
        return "%s (statistics mode %d)" % (self.BASE.formal_step(self), self.mode)


class StatExpansion(_StatMixin, ExpansionStrategy):
    BASE = ExpansionStrategy


class StatRemoveFront(_StatMixin, RemoveFrontOfPrefix):
    BASE = RemoveFrontOfPrefix

    def _extra_letter(self, comb_class):
        return None


class StatRelabel(DisjointUnionStrategy):
    """Unary union (an equivalence): the same words, statistics re-named (mode 2) or
    merged per letter (mode 1).  Used for equivalence rules, their reverses and
    equivalence paths with parameters."""

    def __init__(self, mode=2):
        super().__init__(ignore_parent=False, inferrable=True, possibly_empty=False, workable=True)
        self.mode = mode

    def decomposition_function(self, comb_class):
        st, _ = _child_stats(comb_class.stats, self.mode)
        if st == comb_class.stats:
            return None
        return (_with_stats(comb_class, st),)

    def extra_parameters(self, comb_class, children=None):
        return (_child_stats(comb_class.stats, self.mode)[1],)

    def formal_step(self):
        return "relabel statistics (mode %d)" % self.mode

    def forward_map(self, comb_class, obj, children=None):
        return (obj,)

    def to_jsonable(self):
        d = super().to_jsonable()
        d["mode"] = self.mode
        return d

    @classmethod
    def from_dict(cls, d):
        return cls(d.get("mode", 2))

    def __repr__(self):
        return "StatRelabel(%d)" % self.mode

    def __str__(self):
        return self.formal_step()


class StatAtom(VerificationStrategy):
    """one-word classes, with parameters"""

    def __init__(self):
        super().__init__(ignore_parent=True)

    def verified(self, comb_class):
        return bool(comb_class.is_atom())

    def get_terms(self, comb_class, n):
        if n == len(comb_class.prefix) and not comb_class.is_empty():
            return Counter([comb_class.get_parameters(comb_class.prefix)])
        return Counter()

    def get_genf(self, comb_class, funcs=None):
        import sympy

        res = sympy.var("x") ** len(comb_class.prefix)
        for n, l in comb_class.stats:
            res *= sympy.var(n) ** comb_class.prefix.count(l)
        return res

    def pack(self, comb_class):
        raise NotImplementedError

    def formal_step(self):
        return "is atom (with statistics)"

    @classmethod
    def from_dict(cls, d):
        return cls()

    def __repr__(self):
        return "StatAtom()"

    def __str__(self):
        return self.formal_step()


def stat_pack():
    return StrategyPack(
        initial_strats=[StatRemoveFront(0)],
        inferral_strats=[],
        expansion_strats=[[StatExpansion(0)]],
        ver_strats=[StatAtom()],
        name="stats",
    )


# start classes for whole searches with statistics (mode 0 strategies only: the
# universe of classes stays finite)
STAT_STARTS = [
    ("", ["ab"], "ab", [("k", "a")]),
    ("", ["aa", "bb"], "ab", [("k", "a"), ("m", "b")]),
    ("", ["bb"], "ab", [("k", "b")]),
    ("", ["aba"], "ab", [("k", "a"), ("j", "a")]),
    ("", ["abc", "ca"], "abc", [("k", "c")]),
    ("", ["aa"], "abc", [("k", "a"), ("m", "c")]),
    ("", [], "ab", [("k", "a")]),
    ("", ["abb", "ba"], "ab", [("u", "b"), ("v", "a")]),
]


def stat_start(i):
    p, pats, alph, stats = STAT_STARTS[i]
    return StatWord(p, pats, list(alph), False, stats)


def true_terms(comb_class, n):
    """brute force: Counter parameters -> number of words"""
    return comb_class.get_terms(n)


# ---------------------------------------------------------------------------
# Trees: a universe whose specifications have NON-LINEAR equation systems
# (products of non-atom classes), so that sympy.solve returns several branches
# and get_genf really has to select one by initial conditions.
#   Tree(arities)   plane trees whose internal nodes have an arity in `arities`
#                   (all >= 2), written in Polish notation: 'l' leaf, digit k =
#                   internal node of arity k; SIZE = number of leaves.
#   Node(arities,k) the trees of Tree(arities) whose root has arity k.
#   Leaf            the one-leaf tree (atom).
# ---------------------------------------------------------------------------
from functools import lru_cache  # noqa: E402

from comb_spec_searcher import CombinatorialClass, CombinatorialObject  # noqa: E402
from comb_spec_searcher import AtomStrategy  # noqa: E402


class TreeWord(str, CombinatorialObject):
    def size(self):
        return self.count("l")


@lru_cache(maxsize=None)
def _trees(arities, n):
    """all trees with n leaves"""
    if n <= 0:
        return ()
    out = ["l"] if n == 1 else []
    for k in arities:
        out.extend(str(k) + w for w in _forests(arities, k, n))
    return tuple(out)


@lru_cache(maxsize=None)
def _forests(arities, k, n):
    """concatenations of k trees with n leaves in total"""
    if k == 0:
        return ("",) if n == 0 else ()
    out = []
    for i in range(1, n - (k - 1) + 1):
        for a in _trees(arities, i):
            for b in _forests(arities, k - 1, n - i):
                out.append(a + b)
    return tuple(out)


class Tree(CombinatorialClass):
    """kind: 'tree' | 'leaf' | ('node', k) | ('planted', j): j leaves followed by a tree"""

    def __init__(self, arities, kind="tree"):
        self.arities = tuple(sorted(arities))
        self.kind = tuple(kind) if isinstance(kind, (list, tuple)) else kind

    def is_empty(self):
        return False

    def is_atom(self):
        return self.kind == "leaf"

    def minimum_size_of_object(self):
        if self.kind in ("tree", "leaf"):
            return 1
        if self.kind[0] == "planted":
            return self.kind[1] + 1
        return self.kind[1]

    def objects_of_size(self, n, **parameters):
        if self.kind == "leaf":
            if n == 1:
                yield TreeWord("l")
        elif self.kind == "tree":
            for w in _trees(self.arities, n):
                yield TreeWord(w)
        elif self.kind[0] == "planted":
            j = self.kind[1]
            for w in _trees(self.arities, n - j):
                yield TreeWord("l" * j + w)
        else:
            k = self.kind[1]
            for w in _forests(self.arities, k, n):
                yield TreeWord(str(k) + w)

    def to_jsonable(self):
        d = super().to_jsonable()
        d["arities"] = list(self.arities)
        d["kind"] = list(self.kind) if isinstance(self.kind, tuple) else self.kind
        return d

    @classmethod
    def from_dict(cls, d):
        return cls(d["arities"], d["kind"])

    def __eq__(self, other):
        return isinstance(other, Tree) and (self.arities, self.kind) == (other.arities, other.kind)

    def __hash__(self):
        return hash((self.arities, self.kind))

    def __repr__(self):
        return "Tree(%r, %r)" % (self.arities, self.kind)

    def __str__(self):
        return repr(self)


class TreeUnion(DisjointUnionStrategy):
    def __init__(self):
        super().__init__(ignore_parent=True, inferrable=False, possibly_empty=False, workable=True)

    def decomposition_function(self, c):
        if c.kind != "tree":
            return None
        return (Tree(c.arities, "leaf"),) + tuple(Tree(c.arities, ("node", k)) for k in c.arities)

    def formal_step(self):
        return "a leaf or a root of some arity"

    def forward_map(self, comb_class, obj, children=None):
        kids = self.decomposition_function(comb_class)
        idx = 0 if obj == "l" else 1 + comb_class.arities.index(int(obj[0]))
        return tuple(obj if i == idx else None for i in range(len(kids)))

    @classmethod
    def from_dict(cls, d):
        return cls()

    def __repr__(self):
        return "TreeUnion()"

    def __str__(self):
        return self.formal_step()


class TreeProduct(CartesianProductStrategy):
    def decomposition_function(self, c):
        if not isinstance(c.kind, tuple):
            return None
        if c.kind[0] == "planted":
            return tuple(Tree(c.arities, "leaf") for _ in range(c.kind[1])) + (Tree(c.arities, "tree"),)
        return tuple(Tree(c.arities, "tree") for _ in range(c.kind[1]))

    def formal_step(self):
        return "the subtrees of the root"

    def backward_map(self, comb_class, objs, children=None):
        if comb_class.kind[0] == "planted":
            yield TreeWord("".join(objs))
        else:
            yield TreeWord(str(comb_class.kind[1]) + "".join(objs))

    def forward_map(self, comb_class, obj, children=None):
        raise NotImplementedError

    @classmethod
    def from_dict(cls, d):
        return cls()

    def __repr__(self):
        return "TreeProduct()"

    def __str__(self):
        return self.formal_step()


def tree_pack():
    return StrategyPack(
        initial_strats=[],
        inferral_strats=[],
        expansion_strats=[[TreeUnion(), TreeProduct()]],
        ver_strats=[AtomStrategy()],
        name="trees",
    )


TREE_STARTS = [(2,), (3,), (2, 3), (2, 4)]
