"""
Word classes with STATISTICS (extra parameters) for C20.

StatWord = the repo's AvoidingWithPrefix (imported) + a tuple of statistics
((name, letter), ...): parameter `name` of a word is the number of occurrences of
`letter`.  Several names may track the same letter (so that a rule can map several
parent parameters onto one child parameter), names are arbitrary sympy symbol names.

Strategies (the repo's DisjointUnionStrategy / CartesianProductStrategy base classes):

StatExpansion(mode)   example.ExpansionStrategy with parameters.
   mode 0 "keep"    children carry the parent's statistics under the same names; the
                    one-word child (just the prefix) only keeps statistics of letters that
                    occur in the prefix (the others are 0 on it: not mapped).
   mode 1 "merge"   children keep ONE name per letter (the first): several parent
                    parameters are mapped onto one child parameter.
   mode 2 "rename"  like keep, but every child parameter gets a new name (suffix "_r").
   mode 3 "extra"   like keep, but the children track one more statistic (a letter the
                    parent does not track): a child parameter not mapped from any parent
                    parameter (get_terms sums it out).
   NAME-PERMUTING modes (a child name equals the name of a DIFFERENT parent parameter, so
   that the substitution child name := parent variable inside get_equation must be
   simultaneous; n_0 .. n_{k-1} are the names of the statistics the child keeps):
   mode 4 "cycle"   the child's i-th statistic is called n_{i+1 mod k}.
   mode 5 "swap"    the first two names are exchanged, the others kept.
   mode 6 "down"    the i-th statistic is called n_{i-1}, the first one gets a new name
                    (n_0 + "_s"): chain n_1 -> n_0, n_2 -> n_1 (partial overlap).
   mode 7 "up"      the i-th statistic is called n_{i+1}, the last one gets a new name.
   mode 8 "merge+cycle"  one name per letter as in mode 1, the surviving names cycled: several
                    parent parameters onto one child parameter that carries the name of another
                    parent parameter.
   mode 9 "reorder" names kept, the child LISTS its statistics in reverse order (the
                    positions of the function's arguments change, the names do not).
   mode 10          cycle + reverse order.
   mode 11 "reindex" if every name is <base>_<d> with d >= 1 all indices are lowered by one
                    (k_1 -> k_0, k_2 -> k_1), otherwise keep: a finite universe for searches.
   ZERO statistics: a statistic (name, "#") counts the letter "#", which is in no alphabet: it is 0
   on every word (a parameter whose minimum and only value is 0).
   mode 12 "drop-zero"  the child drops every zero statistic (no dictionary entry for it: the parent
                    parameter is one of DisjointUnion.zeroes); names kept.  Reversed (Complement) the
                    END class of an equivalence path tracks a statistic the start class does not:
                    EquivalencePathRule.constructor passes fixed_values = {z: 0}.
   mode 13 "add-zero"   names kept, the child tracks one MORE statistic ("zz", "#") that no parent
                    parameter is mapped to and that is 0 on every object (the benign unmapped case).
   (mode 3 on StatRelabel: the child tracks one more GENUINE statistic e_<letter>: the unmapped
   child parameter of the open finding, as an equivalence / equivalence path.)
   A LIST of modes gives one mode per child (cycled): one factor re-indexes, the other keeps.
   A DICT {"maps": [[name or "" per PARENT statistic] ...], "rev": [0/1 ...]} (both cycled
   over the children) names every child statistic explicitly ("" = keep) -- arbitrary
   injections into parent names + new names, and merges; a map that gives one name to
   statistics of different letters is not a rule: the strategy does not apply.
StatExpansionLast(mode)  the same with the one-word child listed last (equivalences whose non-empty child
                    is not child 0).
StatRemoveFront(mode) example.RemoveFrontOfPrefix with parameters (letter counts add up
                    over the concatenation).  Same modes (mode 3: the factors track one more statistic).
StatRemoveFrontLW(mode, rest_pos)  words_ext.RemoveFrontLetterwise with parameters: products
                    with three and more factors, the non-atom factor last / first / in the middle.
StatRelabel(mode)   unary union onto the same words with re-named statistics (any mode above).
StatUnaryProduct(mode)  the same as a product with a SINGLE factor (an equivalence since fix 25e10f1).
StatAtom            verification strategy for one-word classes with parameters
                    (the library's AtomStrategy refuses classes with parameters).

True terms: brute force through the class's own objects_of_size / get_parameters.
"""
import re
from collections import Counter
from typing import Optional, Tuple

from comb_spec_searcher import AtomStrategy, CartesianProductStrategy, DisjointUnionStrategy, StrategyPack
from comb_spec_searcher.exception import StrategyDoesNotApply
from comb_spec_searcher.strategies.strategy import StrategyFactory
from comb_spec_searcher.strategies.strategy import VerificationStrategy
from example import AvoidingWithPrefix, ExpansionStrategy, RemoveFrontOfPrefix
from harness.universes.words_ext import RemoveFrontLetterwise


class StatWord(AvoidingWithPrefix):
    def __init__(self, prefix, patterns, alphabet, just_prefix=False, stats=()):
        super().__init__(prefix, patterns, alphabet, just_prefix)
        self.stats = tuple((str(n), str(l)) for n, l in stats)

    @property
    def extra_parameters(self) -> Tuple[str, ...]:
        return tuple(n for n, _ in self.stats)

    def get_parameters(self, obj):
        return tuple(obj.count(l) for _, l in self.stats)

    def get_minimum_value(self, parameter):
        for n, l in self.stats:
            if n == parameter:
                return self.prefix.count(l)
        raise KeyError(parameter)

    def possible_parameters(self, n):
        def rec(i):
            if i == len(self.stats):
                yield {}
                return
            for rest in rec(i + 1):
                for v in range(n + 1):
                    d = {self.stats[i][0]: v}
                    d.update(rest)
                    yield d
        yield from rec(0)

    def objects_of_size(self, size, **parameters):
        for w in super().objects_of_size(size):
            if all(w.count(l) == parameters[n] for n, l in self.stats if n in parameters):
                yield w

    def to_jsonable(self):
        d = super().to_jsonable()
        d["stats"] = [list(s) for s in self.stats]
        return d

    @classmethod
    def from_dict(cls, d):
        return cls(d["prefix"], d["patterns"], d["alphabet"], bool(int(d["just_prefix"])), d["stats"])

    def __eq__(self, other):
        if not isinstance(other, StatWord):
            return NotImplemented
        return AvoidingWithPrefix.__eq__(self, other) and self.stats == other.stats

    def __hash__(self):
        return hash((AvoidingWithPrefix.__hash__(self), self.stats))

    def __repr__(self):
        return "StatWord(%r, %r, %r, %r, %r)" % (
            str(self.prefix), tuple(map(str, self.patterns)), self.alphabet, self.just_prefix, self.stats)

    def __str__(self):
        return AvoidingWithPrefix.__str__(self) + " tracking %s" % (self.stats,)


_INDEXED = re.compile(r"^(.*)_(\d+)$")
ZERO_LETTER = "#"      # in no alphabet: a statistic counting it is 0 on every word


def _mode_of_child(mode, idx):
    if isinstance(mode, (list, tuple)):
        return mode[idx % len(mode)] if mode else 0
    return mode


def _child_names(kept, mode, idx):
    """kept = [(position in the parent's statistics, name, letter)] -> (child name per entry, reverse order?)"""
    names = [n for _, n, _ in kept]
    k = len(names)
    if isinstance(mode, dict):
        maps = mode.get("maps") or [[]]
        m = maps[idx % len(maps)]
        revs = mode.get("rev") or [0]
        return [(m[j] if j < len(m) and m[j] else n) for j, n, _ in kept], bool(revs[idx % len(revs)])
    if mode in (1, 8):
        first, surv = {}, []
        for _, n, l in kept:
            if l not in first:
                first[l] = n
                surv.append(n)
        ren = {n: (surv[(i + 1) % len(surv)] if mode == 8 else n) for i, n in enumerate(surv)}
        return [ren[first[l]] for _, _, l in kept], False
    if mode == 2:
        return [n + "_r" for n in names], False
    if mode in (4, 10):
        return [names[(i + 1) % k] for i in range(k)], mode == 10
    if mode == 5:
        return ([names[1], names[0]] + names[2:] if k >= 2 else names), False
    if mode == 6:
        return [names[i - 1] if i else names[0] + "_s" for i in range(k)], False
    if mode == 7:
        return [names[i + 1] if i + 1 < k else names[-1] + "_s" for i in range(k)], False
    if mode == 9:
        return names, True
    if mode == 11:
        ms = [_INDEXED.match(n) for n in names]
        if k and all(m and int(m.group(2)) >= 1 for m in ms):
            return ["%s_%d" % (m.group(1), int(m.group(2)) - 1) for m in ms], False
        return names, False
    return names, False


def _child_stats(stats, mode, keep_letters=None, extra_letter=None, idx=0):
    """-> (child stats, extra_parameters dict parent name -> child name), or None when the mode
    does not describe a rule on these statistics"""
    mode = _mode_of_child(mode, idx)
    kept = [(j, n, l) for j, (n, l) in enumerate(stats)
            if (keep_letters is None or l in keep_letters or (l == ZERO_LETTER and mode == 13))
            and not (mode == 12 and l == ZERO_LETTER)]
    new, rev = _child_names(kept, mode, idx)
    out, ep, letter = [], {}, {}
    for (_, n, l), c in zip(kept, new):
        if letter.setdefault(c, l) != l:
            return None             # one child statistic cannot count two letters
        if (c, l) not in out:
            out.append((c, l))
        ep[n] = c
    if rev:
        out.reverse()
    if mode == 3 and extra_letter is not None and (keep_letters is None or extra_letter in keep_letters):
        out.append(("e_" + extra_letter, extra_letter))
    if mode == 13 and ("zz", ZERO_LETTER) not in out and "zz" not in [c for c, _ in out]:
        out.append(("zz", ZERO_LETTER))
    return tuple(out), ep


def _with_stats(c, stats):
    return StatWord(c.prefix, c.patterns, c.alphabet, c.just_prefix, stats)


class _StatMixin:
    BASE = None

    def __init__(self, mode=0, **kw):
        super().__init__(**kw)
        self.mode = mode

    def _extra_letter(self, comb_class):
        tracked = {l for _, l in comb_class.stats}
        rest = [l for l in comb_class.alphabet if l not in tracked]
        return rest[0] if rest else None

    def _children(self, comb_class):
        plain = self.BASE.decomposition_function(self, comb_class)
        if plain is None:
            return None
        kids, eps = [], []
        for i, c in enumerate(plain):
            keep = set(c.prefix) if c.just_prefix else None
            r = _child_stats(comb_class.stats, self.mode, keep, self._extra_letter(comb_class), i)
            if r is None:
                return None
            kids.append(_with_stats(c, r[0]))
            eps.append(r[1])
        return tuple(kids), tuple(eps)

    def decomposition_function(self, comb_class):
        r = self._children(comb_class)
        return None if r is None else r[0]

    def extra_parameters(self, comb_class, children=None):
        return self._children(comb_class)[1]

    def to_jsonable(self):
        d = super().to_jsonable()
        d["mode"] = self.mode
        return d

    @classmethod
    def from_dict(cls, d):
        return cls(d.get("mode", 0))

    def __repr__(self):
        return "%s(%r)" % (type(self).__name__, self.mode)

    def __str__(self):
        return "%s, statistics mode %s" % (self.BASE.formal_step(self), self.mode)

    def formal_step(self):
        return "%s (statistics mode %s)" % (self.BASE.formal_step(self), self.mode)


class StatExpansion(_StatMixin, ExpansionStrategy):
    BASE = ExpansionStrategy


class StatExpansionLast(StatExpansion):
    """StatExpansion with the one-word child listed LAST instead of first: when the rule is an equivalence
    (every extension of the prefix is empty) the non-empty child is not child 0, so that
    EquivalenceRule.child_idx and the index used for the reversed rule's dictionary differ from 0"""

    def _children(self, comb_class):
        plain = self.BASE.decomposition_function(self, comb_class)
        if plain is None:
            return None
        plain = tuple(plain[1:]) + (plain[0],)
        kids, eps = [], []
        for i, c in enumerate(plain):
            keep = set(c.prefix) if c.just_prefix else None
            r = _child_stats(comb_class.stats, self.mode, keep, self._extra_letter(comb_class), i)
            if r is None:
                return None
            kids.append(_with_stats(c, r[0]))
            eps.append(r[1])
        return tuple(kids), tuple(eps)

    def forward_map(self, comb_class, obj, children=None):
        first = ExpansionStrategy.forward_map(self, comb_class, obj, None)
        return tuple(first[1:]) + (first[0],)


class StatRemoveFront(_StatMixin, RemoveFrontOfPrefix):
    """mode 3: both factors track one more (genuine) statistic that no parent parameter is mapped to -- the
    unmapped child parameter of the open finding in a PRODUCT (get_terms sums it out as well)"""
    BASE = RemoveFrontOfPrefix


class StatRemoveFrontLW(_StatMixin, RemoveFrontLetterwise):
    """products with three and more factors: one atom per removed letter and the rest"""
    BASE = RemoveFrontLetterwise

    def __init__(self, mode=0, rest_pos=0):
        super().__init__(mode, rest_pos=rest_pos)

    def _extra_letter(self, comb_class):
        return None

    def to_jsonable(self):
        d = super().to_jsonable()
        d["rest_pos"] = self.rest_pos
        return d

    @classmethod
    def from_dict(cls, d):
        return cls(d.get("mode", 0), d.get("rest_pos", 0))

    def __repr__(self):
        return "StatRemoveFrontLW(%r, %d)" % (self.mode, self.rest_pos)


class StatRelabel(DisjointUnionStrategy):
    """Unary union (an equivalence): the same words, statistics re-named (mode 2) or
    merged per letter (mode 1).  Used for equivalence rules, their reverses and
    equivalence paths with parameters."""

    def __init__(self, mode=2):
        super().__init__(ignore_parent=False, inferrable=True, possibly_empty=False, workable=True)
        self.mode = mode

    @staticmethod
    def _extra_letter(comb_class):
        tracked = {l for _, l in comb_class.stats}
        rest = [l for l in comb_class.alphabet if l not in tracked]
        return rest[0] if rest else None

    def _stats(self, comb_class):
        return _child_stats(comb_class.stats, self.mode, None, self._extra_letter(comb_class))

    def decomposition_function(self, comb_class):
        r = self._stats(comb_class)
        if r is None or r[0] == comb_class.stats:
            return None
        return (_with_stats(comb_class, r[0]),)

    def extra_parameters(self, comb_class, children=None):
        return (self._stats(comb_class)[1],)

    def formal_step(self):
        return "relabel statistics (mode %s)" % (self.mode,)

    def forward_map(self, comb_class, obj, children=None):
        return (obj,)

    def to_jsonable(self):
        d = super().to_jsonable()
        d["mode"] = self.mode
        return d

    @classmethod
    def from_dict(cls, d):
        return cls(d.get("mode", 2))

    def __repr__(self):
        return "StatRelabel(%r)" % (self.mode,)

    def __str__(self):
        return self.formal_step()


class StatUnaryProduct(CartesianProductStrategy):
    """A product with a SINGLE factor: the same words with re-named statistics, as StatRelabel but through
    the CartesianProduct constructor.  Such a rule is an equivalence (fix 25e10f1): EquivalenceRule gives it
    a one-child DisjointUnion constructor, an EquivalencePathRule composes it like a union step and its
    reverse (Quotient) like a Complement step; EquivalenceRule of its reverse has no constructor at all."""

    def __init__(self, mode=2):
        super().__init__(ignore_parent=False, inferrable=True, possibly_empty=False, workable=True)
        self.mode = mode

    def decomposition_function(self, comb_class):
        r = _child_stats(comb_class.stats, self.mode)
        if r is None or r[0] == comb_class.stats:
            return None
        return (_with_stats(comb_class, r[0]),)

    def extra_parameters(self, comb_class, children=None):
        return (_child_stats(comb_class.stats, self.mode)[1],)

    def formal_step(self):
        return "relabel statistics as a one-factor product (mode %s)" % (self.mode,)

    def backward_map(self, comb_class, objs, children=None):
        yield objs[0]

    def forward_map(self, comb_class, obj, children=None):
        return (obj,)

    def to_jsonable(self):
        d = super().to_jsonable()
        d["mode"] = self.mode
        return d

    @classmethod
    def from_dict(cls, d):
        return cls(d.get("mode", 2))

    def __repr__(self):
        return "StatUnaryProduct(%r)" % (self.mode,)

    def __str__(self):
        return self.formal_step()


class StatAtom(VerificationStrategy):
    """one-word classes, with parameters"""

    def __init__(self):
        super().__init__(ignore_parent=True)

    def verified(self, comb_class):
        return bool(comb_class.is_atom())

    def get_terms(self, comb_class, n):
        if n == len(comb_class.prefix) and not comb_class.is_empty():
            return Counter([comb_class.get_parameters(comb_class.prefix)])
        return Counter()

    def get_genf(self, comb_class, funcs=None):
        import sympy

        res = sympy.var("x") ** len(comb_class.prefix)
        for n, l in comb_class.stats:
            res *= sympy.var(n) ** comb_class.prefix.count(l)
        return res

    def pack(self, comb_class):
        raise NotImplementedError

    def formal_step(self):
        return "is atom (with statistics)"

    @classmethod
    def from_dict(cls, d):
        return cls()

    def __repr__(self):
        return "StatAtom()"

    def __str__(self):
        return self.formal_step()


class StatFactory(StrategyFactory):
    """words_ext.WordFactory(2) with statistics: yields the product strategy and, for a class with a
    non-empty prefix, the READY expansion rule of the class whose prefix is one letter shorter (same
    statistics) -- a rule with another parent, which a forest may have to use in reverse."""

    def __init__(self, front_mode=0, expansion_mode=0):
        self.front_mode, self.expansion_mode = front_mode, expansion_mode

    def __call__(self, comb_class):
        if self.front_mode is not None:
            yield StatRemoveFront(self.front_mode)
        if comb_class.prefix and not comb_class.just_prefix:
            # name the shorter class's statistics so that comb_class itself is one of the children
            # (the inverse of the re-naming of expansion_mode, an integer mode that permutes names)
            stats = comb_class.stats
            for _ in range(6):
                nxt = _child_stats(stats, self.expansion_mode)[0]
                if nxt == comb_class.stats:
                    break
                stats = nxt
            else:
                stats = comb_class.stats
            shorter = StatWord(comb_class.prefix[:-1], comb_class.patterns, comb_class.alphabet, False, stats)
            try:
                yield StatExpansion(self.expansion_mode)(shorter)
            except StrategyDoesNotApply:
                pass

    def to_jsonable(self):
        d = super().to_jsonable()
        d["front_mode"], d["expansion_mode"] = self.front_mode, self.expansion_mode
        return d

    @classmethod
    def from_dict(cls, d):
        return cls(d.get("front_mode", 0), d.get("expansion_mode", 0))

    def __repr__(self):
        return "StatFactory(%r, %r)" % (self.front_mode, self.expansion_mode)

    def __str__(self):
        return "stat factory %s %s" % (self.front_mode, self.expansion_mode)


def stat_pack(name="keep"):
    return STAT_PACKS[name]()


def _pack(name, initial, expansion):
    return StrategyPack(initial_strats=initial, inferral_strats=[], expansion_strats=[expansion],
                        ver_strats=[StatAtom()], name="stats-" + name)


# packs for whole searches with statistics.  Only modes under which the set of names stays
# finite (0 keep, 4 cycle, 5 swap, 9/10 reorder, 11 reindex): the universe of classes stays finite.
STAT_PACKS = {
    "keep": lambda: _pack("keep", [StatRemoveFront(0)], [StatExpansion(0)]),
    # every rule permutes the names
    "cycle": lambda: _pack("cycle", [StatRemoveFront(4)], [StatExpansion(4)]),
    # only the product permutes / only some children of the union permute
    "swap_front": lambda: _pack("swap_front", [StatRemoveFront([0, 5])], [StatExpansion(0)]),
    "swap_expansion": lambda: _pack("swap_expansion", [StatRemoveFront(0)], [StatExpansion([0, 5, 4])]),
    # the same words under exchanged names as an equivalence: equivalence paths whose composed map permutes
    "symmetry": lambda: _pack("symmetry", [StatRemoveFront(0), StatRelabel(5)], [StatExpansion(0)]),
    "symmetry_cycle": lambda: _pack("symmetry_cycle", [StatRemoveFront(5), StatRelabel(4)], [StatExpansion(0)]),
    # positions change, names do not / both
    "reorder": lambda: _pack("reorder", [StatRemoveFront(9)], [StatExpansion(10)]),
    # k_1, k_2 -> k_0, k_1 in the factors of a product
    "reindex": lambda: _pack("reindex", [StatRemoveFront([11, 0])], [StatExpansion(0)]),
    "reindex_all": lambda: _pack("reindex_all", [StatRemoveFront(0)], [StatExpansion([11, 0, 11])]),
    # rules with a foreign parent (used in reverse by RuleDBForest(reverse=True)): the fallback equation
    "factory_swap": lambda: StrategyPack([], [], [[StatFactory(None, 5)], [StatExpansion(5), StatRemoveFront([5, 0])]],
                                         [StatAtom()], name="stats-factory_swap"),
    "factory_cycle": lambda: StrategyPack([], [], [[StatFactory(None, 4)], [StatExpansion(4), StatRemoveFront(4)]],
                                          [StatAtom()], name="stats-factory_cycle"),
    "factory_keep": lambda: StrategyPack([], [], [[StatFactory(None, 0)], [StatExpansion(0), StatRemoveFront(0)]],
                                         [StatAtom()], name="stats-factory_keep"),
    # the LIBRARY's AtomStrategy on one-word classes that carry statistics: AtomStrategy.get_genf refuses them
    # (NotImplementedError), so the specification's get_equations() has to emit its placeholder equations
    "lib_atom": lambda: StrategyPack([StatRemoveFront(0)], [], [[StatExpansion(0)]], [AtomStrategy()], name="stats-lib_atom"),
    "lib_atom_swap": lambda: StrategyPack([StatRemoveFront(5)], [], [[StatExpansion([0, 5])]], [AtomStrategy()],
                                          name="stats-lib_atom_swap"),
    # products with >= 3 factors
    "letterwise_cycle": lambda: _pack("letterwise_cycle", [StatRemoveFrontLW(4, 0)], [StatExpansion(0)]),
    "letterwise_mid_swap": lambda: _pack("letterwise_mid_swap", [StatRemoveFrontLW([5, 0], 2)], [StatExpansion(5)]),
}


# start classes for whole searches with statistics
STAT_STARTS = [
    ("", ["ab"], "ab", [("k", "a")]),
    ("", ["aa", "bb"], "ab", [("k", "a"), ("m", "b")]),
    ("", ["bb"], "ab", [("k", "b")]),
    ("", ["aba"], "ab", [("k", "a"), ("j", "a")]),
    ("", ["abc", "ca"], "abc", [("k", "c")]),
    ("", ["aa"], "abc", [("k", "a"), ("m", "c")]),
    ("", [], "ab", [("k", "a")]),
    ("", ["abb", "ba"], "ab", [("u", "b"), ("v", "a")]),
    # two and three statistics of different letters, names in both alphabetical orders, indexed names
    ("", ["ab"], "ab", [("p", "a"), ("q", "b")]),
    ("", ["bb"], "ab", [("q", "a"), ("p", "b")]),
    ("", ["aba"], "ab", [("k_1", "a"), ("k_2", "b")]),
    ("", ["aa", "bb"], "ab", [("k_3", "a"), ("k_2", "b")]),
    ("", ["abc", "ca"], "abc", [("k_1", "a"), ("k_2", "b"), ("k_3", "c")]),
    ("bbba", ["aa"], "ab", [("p", "a"), ("q", "b")]),
    ("abab", ["bb"], "ab", [("k_2", "a"), ("k_1", "b")]),
    ("", ["abb", "ba"], "ab", [("b", "a"), ("a", "b")]),
    ("bab", ["aab"], "ab", [("k_1", "a"), ("k_2", "a"), ("k_3", "b")]),
]


def stat_start(i):
    p, pats, alph, stats = STAT_STARTS[i]
    return StatWord(p, pats, list(alph), False, stats)


def true_terms(comb_class, n):
    """brute force: Counter parameters -> number of words"""
    return comb_class.get_terms(n)


# ---------------------------------------------------------------------------
# Trees: a universe whose specifications have NON-LINEAR equation systems
# (products of non-atom classes), so that sympy.solve returns several branches
# and get_genf really has to select one by initial conditions.
#   Tree(arities, kind, weights)
#                   plane trees whose internal nodes have an arity in `arities`,
#                   written in Polish notation: 'l' leaf, digit k followed by w_k dots =
#                   internal node of arity k; SIZE = number of leaves + number of dots, i.e.
#                   an internal node of arity k weighs weights[i] (default 0) where
#                   arities[i] = k.  Arity 1 needs weight >= 1 (finitely many trees per size).
#                   T = x + sum_k x^(w_k) T^k : rational for arities (1,), quadratic (square-root
#                   closed forms, two branches) for arities within {1, 2}, degree >= 3 otherwise.
#   kind 'tree' | 'leaf' | 'dot' (the atom a weighted node carries) | ('node', k): the trees
#   whose root has arity k | ('planted', j): j leaves followed by a tree.
# ---------------------------------------------------------------------------
from functools import lru_cache  # noqa: E402

from comb_spec_searcher import CombinatorialClass, CombinatorialObject  # noqa: E402
from comb_spec_searcher import AtomStrategy  # noqa: E402


class TreeWord(str, CombinatorialObject):
    def size(self):
        return self.count("l") + self.count(".")


@lru_cache(maxsize=None)
def _trees(shape, n):
    """all trees of size n; shape = ((arity, weight), ...)"""
    if n <= 0:
        return ()
    out = ["l"] if n == 1 else []
    for k, w in shape:
        out.extend(str(k) + "." * w + f for f in _forests(shape, k, n - w))
    return tuple(out)


@lru_cache(maxsize=None)
def _forests(shape, k, n):
    """concatenations of k trees of total size n"""
    if k == 0:
        return ("",) if n == 0 else ()
    out = []
    for i in range(1, n - (k - 1) + 1):
        for a in _trees(shape, i):
            for b in _forests(shape, k - 1, n - i):
                out.append(a + b)
    return tuple(out)


class Tree(CombinatorialClass):
    """kind: 'tree' | 'leaf' | 'dot' | ('node', k) | ('planted', j): j leaves followed by a tree"""

    def __init__(self, arities, kind="tree", weights=()):
        pairs = sorted(zip(arities, list(weights) + [0] * (len(arities) - len(weights))))
        self.arities = tuple(k for k, _ in pairs)
        self.weights = tuple(w for _, w in pairs)
        assert all(k >= 2 or (k == 1 and w >= 1) for k, w in pairs), "finitely many trees per size"
        self.shape = tuple(pairs)
        self.kind = tuple(kind) if isinstance(kind, (list, tuple)) else kind

    def weight(self, k):
        return self.weights[self.arities.index(k)]

    def is_empty(self):
        return False

    def is_atom(self):
        return self.kind in ("leaf", "dot")

    def minimum_size_of_object(self):
        if self.kind in ("tree", "leaf", "dot"):
            return 1
        if self.kind[0] == "planted":
            return self.kind[1] + 1
        return self.kind[1] + self.weight(self.kind[1])

    def objects_of_size(self, n, **parameters):
        if self.kind == "leaf":
            if n == 1:
                yield TreeWord("l")
        elif self.kind == "dot":
            if n == 1:
                yield TreeWord(".")
        elif self.kind == "tree":
            for w in _trees(self.shape, n):
                yield TreeWord(w)
        elif self.kind[0] == "planted":
            j = self.kind[1]
            for w in _trees(self.shape, n - j):
                yield TreeWord("l" * j + w)
        else:
            k = self.kind[1]
            wt = self.weight(k)
            for w in _forests(self.shape, k, n - wt):
                yield TreeWord(str(k) + "." * wt + w)

    def to_jsonable(self):
        d = super().to_jsonable()
        d["arities"] = list(self.arities)
        d["weights"] = list(self.weights)
        d["kind"] = list(self.kind) if isinstance(self.kind, tuple) else self.kind
        return d

    @classmethod
    def from_dict(cls, d):
        return cls(d["arities"], d["kind"], d.get("weights", ()))

    def __eq__(self, other):
        return isinstance(other, Tree) and (self.shape, self.kind) == (other.shape, other.kind)

    def __hash__(self):
        return hash((self.shape, self.kind))

    def __repr__(self):
        if any(self.weights):
            return "Tree(%r, %r, %r)" % (self.arities, self.kind, self.weights)
        return "Tree(%r, %r)" % (self.arities, self.kind)

    def __str__(self):
        return repr(self)

    def sibling(self, kind):
        return Tree(self.arities, kind, self.weights)


def tree_counts(arities, weights, kind, nmax):
    """number of objects of Tree(arities, kind, weights) per size 0..nmax by a recurrence on the
    counts (no objects are built; independent of the library and of objects_of_size)"""
    shape = Tree(arities, "tree", weights).shape

    def conv(a, b):
        out = [0] * (nmax + 1)
        for i, x in enumerate(a):
            if x:
                for j, y in enumerate(b):
                    if i + j > nmax:
                        break
                    out[i + j] += x * y
        return out

    def shift(a, j):
        return ([0] * j + a)[: nmax + 1]

    t = [0] * (nmax + 1)
    for n in range(1, nmax + 1):
        # t[n] only needs t[< n] (every internal node has >= 2 subtrees or weight >= 1)
        tot = 1 if n == 1 else 0
        for k, w in shape:
            p = [1] + [0] * nmax
            cur = [x if i < n else 0 for i, x in enumerate(t)]
            for _ in range(k):
                p = conv(p, cur)
            if n - w >= 0:
                tot += p[n - w]
        t[n] = tot
    kind = tuple(kind) if isinstance(kind, (list, tuple)) else kind
    if kind == "tree":
        return t
    if kind in ("leaf", "dot"):
        return [int(n == 1) for n in range(nmax + 1)]
    if kind[0] == "planted":
        return shift(t, kind[1])
    k = kind[1]
    p = [1] + [0] * nmax
    for _ in range(k):
        p = conv(p, t)
    return shift(p, dict(shape)[k])


class TreeUnion(DisjointUnionStrategy):
    def __init__(self):
        super().__init__(ignore_parent=True, inferrable=False, possibly_empty=False, workable=True)

    def decomposition_function(self, c):
        if c.kind != "tree":
            return None
        return (c.sibling("leaf"),) + tuple(c.sibling(("node", k)) for k in c.arities)

    def formal_step(self):
        return "a leaf or a root of some arity"

    def forward_map(self, comb_class, obj, children=None):
        kids = self.decomposition_function(comb_class)
        idx = 0 if obj == "l" else 1 + comb_class.arities.index(int(obj[0]))
        return tuple(obj if i == idx else None for i in range(len(kids)))

    @classmethod
    def from_dict(cls, d):
        return cls()

    def __repr__(self):
        return "TreeUnion()"

    def __str__(self):
        return self.formal_step()


class TreeProduct(CartesianProductStrategy):
    def decomposition_function(self, c):
        if not isinstance(c.kind, tuple):
            return None
        if c.kind[0] == "planted":
            return tuple(c.sibling("leaf") for _ in range(c.kind[1])) + (c.sibling("tree"),)
        k = c.kind[1]
        return tuple(c.sibling("dot") for _ in range(c.weight(k))) + tuple(c.sibling("tree") for _ in range(k))

    def formal_step(self):
        return "the subtrees of the root"

    def backward_map(self, comb_class, objs, children=None):
        if comb_class.kind[0] == "planted":
            yield TreeWord("".join(objs))
        else:
            yield TreeWord(str(comb_class.kind[1]) + "".join(objs))

    def forward_map(self, comb_class, obj, children=None):
        raise NotImplementedError

    @classmethod
    def from_dict(cls, d):
        return cls()

    def __repr__(self):
        return "TreeProduct()"

    def __str__(self):
        return self.formal_step()


def tree_pack():
    return StrategyPack(
        initial_strats=[],
        inferral_strats=[],
        expansion_strats=[[TreeUnion(), TreeProduct()]],
        ver_strats=[AtomStrategy()],
        name="trees",
    )


TREE_STARTS = [(2,), (3,), (2, 3), (2, 4)]
# (arities, weights) whose equation system has degree <= 2: get_genf can return a closed form.
# arities (1,): T = x + x^w T, rational; the others: square roots, two branches
GENF_TREES = [
    ((2,), (0,)), ((2,), (1,)), ((2,), (2,)), ((1,), (1,)), ((1,), (2,)), ((1,), (3,)),
    ((1, 2), (1, 0)), ((1, 2), (1, 1)), ((1, 2), (2, 0)), ((1, 2), (2, 1)), ((1, 2), (1, 2)),
]


def word_counts(cls, nmax):
    """number of words of an AvoidingWithPrefix / StatWord class per size 0..nmax by a transfer
    recurrence on (last letters -> number of words): no word is built, nothing of the library and
    nothing of the class's own objects_of_size is used (only prefix, patterns, alphabet,
    just_prefix).  Patterns are avoided as consecutive factors."""
    prefix, pats, alphabet = str(cls.prefix), [str(p) for p in cls.patterns], list(cls.alphabet)
    out = [0] * (nmax + 1)
    if any(p in prefix for p in pats) or len(prefix) > nmax:
        return out
    out[len(prefix)] = 1
    if cls.just_prefix:
        return out
    k = max([len(p) for p in pats] + [1]) - 1
    state = {(prefix[-k:] if k else ""): 1}
    for n in range(len(prefix) + 1, nmax + 1):
        new = {}
        for suf, c in state.items():
            for a in alphabet:
                w = suf + a
                if any(w.endswith(p) for p in pats):
                    continue
                key = w[-k:] if k else ""
                new[key] = new.get(key, 0) + c
        state = new
        out[n] = sum(state.values())
    return out


def independent_counts(cls, nmax):
    """counts of a univariate class of this universe that use neither the library nor brute force"""
    if isinstance(cls, Tree):
        return tree_counts(cls.arities, cls.weights, cls.kind, nmax)
    return word_counts(cls, nmax)
