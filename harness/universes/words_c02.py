"""
Word packs for C02 only: the repository's own expansion strategy declared ONE-WAY (is_two_way False, still
possibly_empty and able to be an equivalence).  Its rules with one non-empty child and empty siblings are filed in
rule_to_strategy under a unary key, and SpecificationRuleExtractor hands them out unconverted - the open finding
`oneway-equivalence-with-empty-sibling` (findings/oneway_equivalence_with_empty_sibling.py).
The packs are registered in words_ext.PACKS when this module is imported (harness/props/c02.py does), so that
runs.search finds them by name.
"""
from comb_spec_searcher import AtomStrategy, StrategyPack
from example import ExpansionStrategy, RemoveFrontOfPrefix

from harness.universes import words_ext as W


class OneWayExpansion(ExpansionStrategy):
    def is_two_way(self, comb_class):
        return False

    def is_reversible(self, comb_class):
        return False

    def __repr__(self):
        return "OneWayExpansion()"

    @classmethod
    def from_dict(cls, d):
        return cls()


PACK_NAMES = ["c02_oneway_expansion", "c02_oneway_expansion_sym"]


def register():
    W.PACKS.setdefault(
        "c02_oneway_expansion",
        lambda: StrategyPack([RemoveFrontOfPrefix()], [], [[OneWayExpansion()]], [AtomStrategy()],
                             name="c02_oneway_expansion"))
    W.PACKS.setdefault(
        "c02_oneway_expansion_sym",
        lambda: StrategyPack([RemoveFrontOfPrefix()], [], [[OneWayExpansion()]], [AtomStrategy()],
                             name="c02_oneway_expansion_sym", symmetries=[W.SwapLetters()]))
    for sp in STARTS:
        if sp not in W.START_SPECS:
            W.START_SPECS.append(sp)


def start_indices():
    """indices in words_ext.START_SPECS of the start classes below (appended there by register())"""
    return [W.START_SPECS.index(sp) for sp in STARTS]


# start classes in which a class has exactly one non-empty extension: [prefix, patterns, alphabet]
STARTS = [
    ("", ["aa", "ab", "b"], "ab"),
    ("", ["a", "b"], "ab"),
    ("", ["b", "aaa"], "ab"),
    ("a", ["b", "aa"], "ab"),
    ("", ["ab", "bb", "ba"], "ab"),
]


register()
