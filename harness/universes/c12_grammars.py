"""
C12 universe: hand-built grammars.

A grammar is a JSON-able list of productions, one per nonterminal:

    ["a", "xy"]            atom: the single word "xy" (size 2); "" is the size-0 atom
    ["v", ["x", "yz"]]     verified NON-atom leaf: a finite set of words (never matched by the isomorphism test)
    ["u", [i, j, ...]]     disjoint union of the nonterminals i, j, ...
    ["n", [i, j, ...]]     the same, by a strategy that declares it can never be an equivalence
                           (can_be_equivalent() is False): with one non-empty child this is a unary rule
                           that is NOT an equivalence rule
    ["p", [i, j, ...]]     cartesian product
    ["e"]                  the empty class (has no rule in a specification)

Objects are the derivation trees themselves (nested tuples carrying the nonterminal),
so unions are disjoint and products decompose uniquely whatever the grammar is; the size
of an object is the total length of the atoms' words.  Emptiness, minimum sizes and the
objects of a size are computed by brute force from the grammar, independently of
comb_spec_searcher.  Specifications are assembled DIRECTLY from Rule objects (no search),
which reaches shapes the word universes never produce: permuted and repeated product
children, empty children, equivalence steps on one side only, chained (uncollapsed)
equivalence rules, an atom matched with a class one equivalence step from an atom, one
class matched with several classes.

Finiteness/productivity is the generator's business (harness/props/c12.py): a reference
back to a nonterminal of smaller-or-equal index is only made inside a product that also
has a positive-size atom factor.
"""
import json
from functools import lru_cache

from comb_spec_searcher import (
    AtomStrategy,
    CartesianProductStrategy,
    CombinatorialClass,
    CombinatorialObject,
    CombinatorialSpecification,
    DisjointUnionStrategy,
)
from comb_spec_searcher.exception import InvalidOperationError
from comb_spec_searcher.strategies.strategy import VerificationStrategy

_GRAMMARS = {}


def gkey(prods):
    return json.dumps(prods, separators=(",", ":"))


class Grammar:
    def __init__(self, prods):
        self.prods = json.loads(gkey(prods))
        self.key = gkey(self.prods)
        k = len(self.prods)
        # least fixed points: non-emptiness and minimum size
        INF = 10**9
        mn = [INF] * k
        changed = True
        while changed:
            changed = False
            for i, p in enumerate(self.prods):
                if p[0] == "a":
                    v = len(p[1])
                elif p[0] == "v":
                    v = min((len(w) for w in p[1]), default=INF)
                elif p[0] in "un":
                    v = min((mn[c] for c in p[1]), default=INF)
                elif p[0] == "p":
                    v = sum(mn[c] for c in p[1]) if all(mn[c] < INF for c in p[1]) else INF
                else:
                    v = INF
                v = min(v, INF)
                if v < mn[i]:
                    mn[i] = v
                    changed = True
        self.min = mn
        self.empty = [m >= INF for m in mn]
        self._memo = {}
        self._cuts = 0
        self._cmemo = {}
        self._ccuts = 0

    def objects(self, nt, n, stack=()):
        """all derivation trees of nonterminal nt of size n (brute force).  A finite tree cannot
        contain the same (nonterminal, size) twice on a root-to-leaf path unless the class is infinite
        at that size, which the generator excludes; such a repetition is cut (and then nothing computed
        on the way is memoised)."""
        if n < 0 or self.empty[nt] or self.min[nt] > n:
            return []
        key = (nt, n)
        if key in stack:
            self._cuts += 1
            return []
        if key in self._memo:
            return self._memo[key]
        cuts0 = self._cuts
        p = self.prods[nt]
        st = stack + (key,)
        if p[0] == "a":
            res = [GObj(("a", nt, p[1]))] if len(p[1]) == n else []
        elif p[0] == "v":
            res = [GObj(("a", nt, w)) for w in p[1] if len(w) == n]
        elif p[0] in "un":
            res = [GObj(("u", nt, i, o)) for i, c in enumerate(p[1]) for o in self.objects(c, n, st)]
        elif p[0] == "p":
            res = [GObj(("p", nt) + t) for t in self._tuples(p[1], n, st)]
        else:
            res = []
        if self._cuts == cuts0:
            self._memo[key] = res
        return res

    def count(self, nt, n, stack=()):
        """number of derivation trees of nt of size n, without building them (same recursion as `objects`)"""
        if n < 0 or self.empty[nt] or self.min[nt] > n:
            return 0
        key = (nt, n)
        if key in stack:
            self._ccuts += 1
            return 0
        if key in self._cmemo:
            return self._cmemo[key]
        cuts0 = self._ccuts
        p = self.prods[nt]
        st = stack + (key,)
        if p[0] == "a":
            res = int(len(p[1]) == n)
        elif p[0] == "v":
            res = sum(1 for w in p[1] if len(w) == n)
        elif p[0] in "un":
            res = sum(self.count(c, n, st) for c in p[1])
        elif p[0] == "p":
            res = self._count_tuples(p[1], n, st)
        else:
            res = 0
        if self._ccuts == cuts0:
            self._cmemo[key] = res
        return res

    def _count_tuples(self, kids, n, st):
        if not kids:
            return int(n == 0)
        tot = 0
        rest_min = sum(self.min[c] for c in kids[1:])
        for a in range(self.min[kids[0]], n - rest_min + 1):
            f = self.count(kids[0], a, st)
            if f:
                tot += f * self._count_tuples(kids[1:], n - a, st)
        return tot

    def _tuples(self, kids, n, st):
        if not kids:
            return [()] if n == 0 else []
        out = []
        rest_min = sum(self.min[c] for c in kids[1:])
        for a in range(self.min[kids[0]], n - rest_min + 1):
            firsts = self.objects(kids[0], a, st)
            if not firsts:
                continue
            for t in self._tuples(kids[1:], n - a, st):
                for f in firsts:
                    out.append((f,) + t)
        return out


def grammar(prods):
    k = gkey(prods)
    if k not in _GRAMMARS:
        _GRAMMARS[k] = Grammar(prods)
    return _GRAMMARS[k]


class GObj(tuple, CombinatorialObject):
    """a derivation tree: ("a", nt, word) | ("u", nt, idx, sub) | ("p", nt, sub1, ..., subk)"""

    def size(self):
        if self[0] == "a":
            return len(self[2])
        if self[0] == "u":
            return self[3].size()
        return sum(x.size() for x in self[2:])

    def __len__(self):
        return self.size()

    def __repr__(self):
        if self[0] == "a":
            return "%d:%r" % (self[1], self[2])
        if self[0] == "u":
            return "%d.%d(%r)" % (self[1], self[2], self[3])
        return "%d[%s]" % (self[1], ",".join(repr(x) for x in self[2:]))


def to_jsonable_obj(o):
    if o[0] == "a":
        return ["a", o[1], o[2]]
    if o[0] == "u":
        return ["u", o[1], o[2], to_jsonable_obj(o[3])]
    return ["p", o[1]] + [to_jsonable_obj(x) for x in o[2:]]


class GClass(CombinatorialClass):
    def __init__(self, gk, nt):
        self.gk = gk if isinstance(gk, str) else gkey(gk)
        self.nt = nt
        self.g = grammar(json.loads(self.gk))

    def is_empty(self):
        return self.g.empty[self.nt]

    def is_atom(self):
        return self.g.prods[self.nt][0] == "a"

    def minimum_size_of_object(self):
        return self.g.min[self.nt]

    def objects_of_size(self, n, **parameters):
        yield from self.g.objects(self.nt, n)

    def to_jsonable(self):
        d = super().to_jsonable()
        d["gk"], d["nt"] = self.gk, self.nt
        return d

    @classmethod
    def from_dict(cls, d):
        return cls(d["gk"], d["nt"])

    def __eq__(self, other):
        return isinstance(other, GClass) and self.gk == other.gk and self.nt == other.nt

    def __hash__(self):
        return hash((self.gk, self.nt))

    def __repr__(self):
        return "GClass(%s,%d)" % (hex(hash(self.gk) & 0xFFFF), self.nt)

    def __str__(self):
        return "nonterminal %d: %s" % (self.nt, self.g.prods[self.nt])


def _kids(c):
    return tuple(GClass(c.gk, i) for i in c.g.prods[c.nt][1])


class GUnion(DisjointUnionStrategy[GClass, GObj]):
    def __init__(self):
        super().__init__(ignore_parent=False, inferrable=True, possibly_empty=True, workable=True)

    KIND = "u"

    def decomposition_function(self, c):
        if c.g.prods[c.nt][0] != self.KIND:
            return None
        return _kids(c)

    def formal_step(self):
        return "grammar union"

    def forward_map(self, comb_class, obj, children=None):
        n = len(comb_class.g.prods[comb_class.nt][1])
        assert obj[0] == "u" and obj[1] == comb_class.nt
        return tuple(obj[3] if i == obj[2] else None for i in range(n))

    def backward_map(self, comb_class, objs, children=None):
        idx = DisjointUnionStrategy.backward_map_index(objs)
        yield GObj(("u", comb_class.nt, idx, objs[idx]))

    def __repr__(self):
        return "GUnion()"

    def __str__(self):
        return self.formal_step()

    @classmethod
    def from_dict(cls, d):
        return cls()


class GUnionNE(GUnion):
    """a union strategy whose rules are never equivalence rules"""

    KIND = "n"

    def can_be_equivalent(self):
        return False

    def formal_step(self):
        return "grammar union (never an equivalence)"

    def __repr__(self):
        return "GUnionNE()"


class GProduct(CartesianProductStrategy[GClass, GObj]):
    def __init__(self):
        super().__init__(ignore_parent=False, inferrable=True, possibly_empty=True, workable=True)

    def decomposition_function(self, c):
        if c.g.prods[c.nt][0] != "p":
            return None
        return _kids(c)

    def formal_step(self):
        return "grammar product"

    def forward_map(self, comb_class, obj, children=None):
        assert obj[0] == "p" and obj[1] == comb_class.nt
        return tuple(obj[2:])

    def backward_map(self, comb_class, objs, children=None):
        assert all(o is not None for o in objs)
        yield GObj(("p", comb_class.nt) + tuple(objs))

    def __repr__(self):
        return "GProduct()"

    def __str__(self):
        return self.formal_step()

    @classmethod
    def from_dict(cls, d):
        return cls()


class GVerified(VerificationStrategy[GClass, GObj]):
    """verifies the finite non-atom leaves"""

    def verified(self, c):
        return c.g.prods[c.nt][0] == "v" and not c.is_empty()

    def get_terms(self, c, n):
        return c.get_terms(n)

    def get_objects(self, c, n):
        return c.get_objects(n)

    def pack(self, comb_class):
        raise InvalidOperationError("no pack for grammar leaves")

    def formal_step(self):
        return "finite grammar leaf"

    def __repr__(self):
        return "GVerified()"

    def __str__(self):
        return self.formal_step()

    @classmethod
    def from_dict(cls, d):
        return cls()


def rule_for(c):
    """the Rule object of a non-empty nonterminal; a union/product with exactly one non-empty child
    becomes an EquivalenceRule when it has further (empty) children, as the rule extractors do"""
    kind = c.g.prods[c.nt][0]
    if kind == "a":
        return AtomStrategy()(c)
    if kind == "v":
        return GVerified()(c)
    rule = {"u": GUnion, "n": GUnionNE, "p": GProduct}[kind]()(c)
    if rule.is_equivalence() and len(rule.children) > 1:
        return rule.to_equivalence_rule()
    return rule


def reachable(prods, root):
    g = grammar(prods)
    seen, todo = [], [root]
    while todo:
        x = todo.pop()
        if x in seen or g.empty[x]:
            continue
        seen.append(x)
        if prods[x][0] in "upn":
            todo.extend(reversed(prods[x][1]))
    return seen


def make_spec(prods, root=0, group=True):
    """CombinatorialSpecification assembled directly from Rule objects"""
    gk = gkey(prods)
    rules = [rule_for(GClass(gk, i)) for i in reachable(prods, root)]
    return CombinatorialSpecification(GClass(gk, root), rules, group_equiv=bool(group))
