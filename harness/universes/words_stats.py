"""
Universes for C09: classes WITH extra parameters, driven through the repo's own
Rule / ReverseRule / EquivalenceRule / EquivalencePathRule and
DisjointUnion / Complement / CartesianProduct / Quotient code.

* StatWords — the word classes of /repo/example.py (AvoidingWithPrefix is
  subclassed, not copied) extended with statistics: ("letter", x) = number of
  x's, ("factor", f) = number of (overlapping) occurrences of the factor f,
  each with a constant offset.  The TRUE terms are CombinatorialClass.get_terms,
  i.e. brute-force enumeration of the words (objects_of_size) and
  get_parameters.
  StatExpansion (DisjointUnionStrategy) and StatSplit (CartesianProductStrategy)
  carry explicit per-child plans: the child's statistics and the dictionary
  parent statistic -> child statistic (keep / rename / drop / merge / extra).
* Syn — synthetic classes given by a tree: a leaf is an explicit finite table
  {(size, parameters): count}; "sum" and "prod" nodes list (child, dictionary)
  pairs.  The TRUE terms of a node are computed here by definition of the
  dictionaries (a parent statistic is the sum over the children of the child
  statistic it is mapped to; for a union: of the one child), by brute force over
  all size tuples and all parameter combinations — an implementation independent
  of both the repo's constructors and the Coq model.
"""
from collections import Counter
from functools import lru_cache
from itertools import product as iproduct

from comb_spec_searcher import CartesianProductStrategy, CombinatorialClass, DisjointUnionStrategy
from example import AvoidingWithPrefix


# ------------------------------------------------------------------ words with statistics
def stat_value(stat, word):
    _, kind, arg, off = stat
    if kind == "letter":
        return off + sum(1 for x in word if x == arg)
    return off + sum(1 for i in range(len(word)) if word.startswith(arg, i))


def _tupstat(s):
    return (str(s[0]), str(s[1]), str(s[2]), int(s[3]))


class StatWords(AvoidingWithPrefix):
    """AvoidingWithPrefix tracking statistics (name, kind, arg, offset)."""

    def __init__(self, prefix, patterns, alphabet, just_prefix=False, stats=()):
        super().__init__(prefix, patterns, alphabet, just_prefix)
        self.stats = tuple(_tupstat(s) for s in stats)

    @property
    def extra_parameters(self):
        return tuple(s[0] for s in self.stats)

    def get_parameters(self, obj):
        return tuple(stat_value(s, obj) for s in self.stats)

    def get_minimum_value(self, parameter):
        for s in self.stats:
            if s[0] == parameter:
                return s[3]
        raise KeyError(parameter)

    def __eq__(self, other):
        if not isinstance(other, StatWords):
            return NotImplemented
        return AvoidingWithPrefix.__eq__(self, other) and self.stats == other.stats

    def __hash__(self):
        return hash((AvoidingWithPrefix.__hash__(self), self.stats))

    def __repr__(self):
        return "StatWords(%r, %r, %r, %r, %r)" % (self.prefix, self.patterns, self.alphabet, self.just_prefix, self.stats)

    def __str__(self):
        return repr(self)


class _PlanMixin:
    """plans[i] = {"stats": [[name, kind, arg, off], ...], "dict": [[parent_var, child_var], ...]}"""

    def __init__(self, plans, **kw):
        super().__init__(**kw)
        self.plans = plans

    def extra_parameters(self, comb_class, children=None):
        return tuple({str(a): str(b) for a, b in pl["dict"]} for pl in self.plans)

    def backward_map(self, comb_class, objs, children=None):
        raise NotImplementedError

    def forward_map(self, comb_class, obj, children=None):
        raise NotImplementedError

    @classmethod
    def from_dict(cls, d):
        raise NotImplementedError

    def __repr__(self):
        return "%s(%r)" % (type(self).__name__, self.plans)

    def __str__(self):
        return type(self).__name__


def expansion_children(parent):
    """(prefix, just_prefix) of the children of the example's ExpansionStrategy"""
    return [(parent.prefix, True)] + [(parent.prefix + a, False) for a in parent.alphabet]


class StatExpansion(_PlanMixin, DisjointUnionStrategy):
    def decomposition_function(self, comb_class):
        if comb_class.just_prefix:
            return None
        shapes = expansion_children(comb_class)
        if len(shapes) != len(self.plans):
            return None
        return tuple(
            StatWords(p, comb_class.patterns, comb_class.alphabet, jp, pl["stats"])
            for (p, jp), pl in zip(shapes, self.plans)
        )

    def formal_step(self):
        return "either just the prefix or append a letter (with statistics)"


def split_children(parent, cuts):
    """(prefix, just_prefix) of the children of the prefix-splitting product"""
    p = parent.prefix
    bounds = [0] + [min(c, len(p)) for c in cuts]
    if sorted(bounds) != bounds:
        return None
    out = [(p[a:b], True) for a, b in zip(bounds, bounds[1:])]
    out.append((p[bounds[-1]:], False))
    return out


def safe_cut(parent):
    """largest cut the example's RemoveFrontOfPrefix would allow (its own code, imported)"""
    from example import RemoveFrontOfPrefix

    return RemoveFrontOfPrefix().index_safe_to_remove_up_to(parent)


class StatSplit(_PlanMixin, CartesianProductStrategy):
    """words with prefix p = p[:c1] x ... x (words with prefix p[ck:]); all cuts <= the safe index"""

    def __init__(self, cuts, plans):
        super().__init__(plans)
        self.cuts = tuple(cuts)

    def decomposition_function(self, comb_class):
        if comb_class.just_prefix:
            return None
        if any(c > safe_cut(comb_class) for c in self.cuts):
            return None
        shapes = split_children(comb_class, self.cuts)
        if shapes is None or len(shapes) != len(self.plans):
            return None
        return tuple(
            StatWords(p, comb_class.patterns, comb_class.alphabet, jp, pl["stats"])
            for (p, jp), pl in zip(shapes, self.plans)
        )

    def formal_step(self):
        return "split the prefix at %s (with statistics)" % (self.cuts,)

    def __repr__(self):
        return "StatSplit(%r, %r)" % (self.cuts, self.plans)


def split_pieces(word, shapes):
    """the image of a word of the parent under the product's bijection"""
    out, pos = [], 0
    for p, jp in shapes[:-1]:
        out.append(word[pos:pos + len(p)])
        pos += len(p)
    out.append(word[pos:])
    return out


# ------------------------------------------------------------------ synthetic classes
def _tup(x):
    return tuple(_tup(y) for y in x) if isinstance(x, (list, tuple)) else x


def node_names(node):
    return node[1]


@lru_cache(maxsize=None)
def syn_terms(node, n):
    """TRUE terms of a node at size n as a sorted tuple of (params, count)"""
    kind = node[0]
    out = Counter()
    if n < 0:
        return ()
    if kind == "leaf":
        for size, par, cnt in node[2]:
            if size == n and cnt:
                out[par] += cnt
    elif kind == "sum":
        names = node[1]
        for kid, d in node[2]:
            d = dict(d)
            knames = node_names(kid)
            for par, cnt in syn_terms(kid, n):
                val = dict(zip(knames, par))
                out[tuple(val[d[q]] if q in d else 0 for q in names)] += cnt
    elif kind == "prod":
        names = node[1]
        kids = node[2]
        k = len(kids)
        if k == 0:
            return ()
        for sizes in iproduct(range(n + 1), repeat=k):
            if sum(sizes) != n:
                continue
            tabs = [syn_terms(kid, s) for (kid, _), s in zip(kids, sizes)]
            if any(not t for t in tabs):
                continue
            for combo in iproduct(*tabs):
                cnt = 1
                tot = [0] * len(names)
                for (kid, d), (par, c) in zip(kids, combo):
                    cnt *= c
                    d = dict(d)
                    val = dict(zip(node_names(kid), par))
                    for j, q in enumerate(names):
                        if q in d:
                            tot[j] += val[d[q]]
                out[tuple(tot)] += cnt
    else:
        raise ValueError(kind)
    return tuple(sorted((p, c) for p, c in out.items() if c))


SYN_BOUND = 40


@lru_cache(maxsize=None)
def syn_min(node):
    kind = node[0]
    if kind == "leaf":
        sizes = [s for s, _, c in node[2] if c]
        return min(sizes) if sizes else 0
    if kind == "sum":
        ms = [syn_min(k) for k, _ in node[2] if not syn_empty(k)]
        return min(ms) if ms else 0
    return sum(syn_min(k) for k, _ in node[2])


@lru_cache(maxsize=None)
def syn_empty(node):
    kind = node[0]
    if kind == "leaf":
        return not any(c for _, _, c in node[2])
    if kind == "sum":
        return all(syn_empty(k) for k, _ in node[2])
    return any(syn_empty(k) for k, _ in node[2])


class Syn(CombinatorialClass):
    def __init__(self, node):
        self.node = _tup(node)

    @property
    def extra_parameters(self):
        return tuple(self.node[1])

    def get_terms(self, n):
        return Counter(dict(syn_terms(self.node, n)))

    def is_atom(self):
        return self.node[0] == "leaf" and sum(c for _, _, c in self.node[2]) == 1 and all(
            c >= 0 for _, _, c in self.node[2])

    def minimum_size_of_object(self):
        return syn_min(self.node)

    def get_minimum_value(self, parameter):
        return 0

    def is_empty(self):
        return syn_empty(self.node)

    def to_jsonable(self):
        return {"node": self.node}

    @classmethod
    def from_dict(cls, d):
        return cls(d["node"])

    def __eq__(self, other):
        return isinstance(other, Syn) and self.node == other.node

    def __hash__(self):
        return hash(self.node)

    def __repr__(self):
        return "Syn(%r)" % (self.node,)

    def __str__(self):
        return repr(self)


class _SynMixin:
    KIND = None

    def decomposition_function(self, comb_class):
        if comb_class.node[0] == self.KIND:
            return tuple(Syn(k) for k, _ in comb_class.node[2])
        return None

    def extra_parameters(self, comb_class, children=None):
        return tuple({a: b for a, b in d} for _, d in comb_class.node[2])

    def formal_step(self):
        return "read the %s node" % self.KIND

    def backward_map(self, comb_class, objs, children=None):
        raise NotImplementedError

    def forward_map(self, comb_class, obj, children=None):
        raise NotImplementedError

    @classmethod
    def from_dict(cls, d):
        return cls()

    def __repr__(self):
        return type(self).__name__ + "()"

    def __str__(self):
        return self.formal_step()


class SynProduct(_SynMixin, CartesianProductStrategy):
    KIND = "prod"


class SynUnion(_SynMixin, DisjointUnionStrategy):
    KIND = "sum"


# ------------------------------------------------------------------ true terms, providers
_TERMS = {}


def true_terms(comb_class, n):
    """the class's own terms: brute-force enumeration (words) / by definition (Syn)"""
    key = (comb_class, n)
    if key not in _TERMS:
        if len(_TERMS) > 100000:
            _TERMS.clear()
        _TERMS[key] = comb_class.get_terms(n)
    return _TERMS[key]


class Provider:
    """what a specification hands to set_subrecs for a child: here the child's TRUE terms"""

    def __init__(self, comb_class):
        self.comb_class = comb_class

    def get_terms(self, n):
        return true_terms(self.comb_class, n)

    def count_objects_of_size(self, n, **parameters):
        raise NotImplementedError

    def get_objects(self, n):
        raise NotImplementedError

    def random_sample_object_of_size(self, n, **parameters):
        raise NotImplementedError


# ------------------------------------------------------------------ building rules
def parent_class(spec):
    if spec["u"] == "words":
        return StatWords(spec["prefix"], spec["patterns"], list(spec["alphabet"]), False, spec["stats"])
    return Syn(spec["node"])


def base_rule(spec):
    """the ORIGINAL rule of a spec (a union or a product rule)"""
    parent = parent_class(spec)
    if spec["u"] == "words":
        if spec["strategy"] == "expansion":
            strat = StatExpansion(spec["plans"])
        else:
            strat = StatSplit(spec["cuts"], spec["plans"])
    else:
        strat = SynUnion() if parent.node[0] == "sum" else SynProduct()
    if strat.decomposition_function(parent) is None:
        raise ValueError("strategy does not apply")
    return strat(parent)


def derive(rule, form, idx):
    """
    form 0/1 the rule itself, 2/3 its reverse w.r.t. idx, 4 its equivalence rule,
    5 the equivalence rule of its reverse w.r.t. idx (what EquivalenceRule.to_reverse_rule builds);
    7/8 = 4/5 for a PRODUCT rule
    """
    if form in (0, 1):
        return rule
    if form in (2, 3):
        return rule.to_reverse_rule(idx)
    if form == 4:
        if not rule.is_equivalence():
            raise ValueError("not an equivalence")
        return rule.to_equivalence_rule()
    if form == 5:
        rev = rule.to_reverse_rule(idx)
        if not rev.is_equivalence():
            raise ValueError("reverse is not an equivalence")
        return rev.to_equivalence_rule()
    if form in (7, 8):
        # the same two derivations applied to a PRODUCT rule (fix 25e10f1: supported for ONE factor, form 7;
        # EquivalenceRule over a Quotient, form 8, has no constructor: NotImplementedError)
        from comb_spec_searcher.strategies.constructor import CartesianProduct

        if not isinstance(rule.constructor, CartesianProduct):
            raise ValueError("not a product rule")
        return derive(rule, form - 3, idx)
    raise ValueError(form)


def path_rule(steps):
    """steps = [(node of the union rule, reverse?, idx)]; EquivalencePathRule of the chain"""
    from comb_spec_searcher.strategies.rule import EquivalencePathRule

    rules = []
    for node, rev, idx in steps:
        if node[0] == "prod":
            # a RAW one-factor product rule / its ReverseRule: what SpecificationRuleExtractor._find_rule hands
            # out for a one-child rule (`rule if len(rule.children) == 1 else rule.to_equivalence_rule()`)
            if len(node[2]) != 1:
                raise ValueError("a product step of a path has one factor")
            r = SynProduct()(Syn(node))
            rules.append(r.to_reverse_rule(0) if rev else r)
            continue
        r = SynUnion()(Syn(node))
        rules.append(derive(r, 5 if rev else 4, idx))
    for a, b in zip(rules, rules[1:]):
        if a.children[0] != b.comb_class:
            raise ValueError("chain is not connected")
    return EquivalencePathRule(rules), rules
