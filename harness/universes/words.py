"""Word classes shared by the harness (the repo's own example classes, imported)."""
import json

from example import AvoidingWithPrefix, Word  # noqa: F401  (from /repo/example.py)


class CountingWord(AvoidingWithPrefix):
    """AvoidingWithPrefix that counts calls to is_empty (per process)."""

    calls = 0

    def is_empty(self):
        type(self).calls += 1
        return super().is_empty()


class BytesWord(CountingWord):
    """Same class with to_bytes/from_bytes, so that ClassDB stores it compressed."""

    calls = 0

    def to_bytes(self):
        return json.dumps(
            [self.prefix, list(self.patterns), list(self.alphabet), self.just_prefix]
        ).encode()

    @classmethod
    def from_bytes(cls, b):
        p, pats, alph, jp = json.loads(b.decode())
        return cls(p, pats, alph, jp)


class MixedWord(BytesWord):
    """Some instances can be serialised, others cannot (to_bytes raises
    NotImplementedError for them): ClassDB falls back per call."""

    calls = 0

    def to_bytes(self):
        if len(self.prefix) % 2 == 1 or self.just_prefix:
            raise NotImplementedError
        return super().to_bytes()


POOL_SPEC = [
    ("", ["ab"], "ab", False),
    ("a", ["ab"], "ab", False),
    ("ab", ["ab"], "ab", False),      # empty
    ("b", ["ab"], "ab", False),
    ("", ["aa", "bb"], "ab", False),
    ("aa", ["aa", "bb"], "ab", False),  # empty
    ("a", ["aa", "bb"], "ab", True),
    ("bb", ["b"], "ab", False),       # empty
    ("", ["abc"], "abc", False),
    ("cab", ["ab"], "abc", False),    # empty
    ("", [], "a", False),
    ("ba", ["a", "b"], "ab", False),  # empty
]


def pool(cls):
    return [cls(p, pats, list(alph), jp) for p, pats, alph, jp in POOL_SPEC]
