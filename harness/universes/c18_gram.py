"""
Grammar universes for the bijection stream of C18.

A universe is a JSON-able dict {"prods": [[kind, children, payload], ...]}: class n
is the language of nonterminal n of a context-free grammar whose words are
self-delimiting strings, so every class is combinatorially genuine (the
specification built from the rules counts and generates exactly the class):

  kind "a"   the atom           {"a"}                       (size 1)
       "e"   the empty word     {"e"}                       (size 0)
       "0"   the empty class    {}
       "+"   disjoint union     { str(i) + w : w in child i }
       "*"   cartesian product  { "(" + w1 + ... + wk + ")" : wi in child i }
       "*d"  the same product, but its constructor hands `payload` to
             Constructor.equiv's second result: the index data of a bijection

The size of a word is its number of letters "a".  Specifications are built
DIRECTLY from rule objects (strategy(class)), no search: two presentations of the
same abstract grammar (children permuted, sub-grammars shared or copied, single
child unions / unions with an empty child inserted on one side) are isomorphic
by construction, and Isomorphism matches a class of one side with as many classes
of the other side as there are copies.
"""
import hashlib
import json
from typing import Iterator, Optional, Tuple

from comb_spec_searcher import (
    AtomStrategy,
    CartesianProductStrategy,
    CombinatorialClass,
    CombinatorialObject,
    CombinatorialSpecification,
    DisjointUnionStrategy,
)
from comb_spec_searcher.strategies.constructor import CartesianProduct

UNIVERSES = {}
_CACHE = {}     # gid -> {"min": [...], "objs": {(n, size): tuple}}
INF = 10 ** 9


def register(u):
    gid = "g" + hashlib.sha1(json.dumps(u, sort_keys=True).encode()).hexdigest()[:12]
    if gid not in UNIVERSES:
        UNIVERSES[gid] = u
    return gid


class GObj(str, CombinatorialObject):
    def size(self):
        return self.count("a")


def _chunk(s, i):
    """index just after the word that starts at position i"""
    ch = s[i]
    if ch in "ae":
        return i + 1
    if ch.isdigit():
        return _chunk(s, i + 1)
    assert ch == "("
    j = i + 1
    while s[j] != ")":
        j = _chunk(s, j)
    return j + 1


def _min_sizes(gid):
    c = _CACHE.setdefault(gid, {"objs": {}})
    if "min" not in c:
        prods = UNIVERSES[gid]["prods"]
        m = [INF] * len(prods)
        changed = True
        while changed:
            changed = False
            for n, (kind, ch, _p) in enumerate(prods):
                if kind == "a":
                    v = 1
                elif kind == "e":
                    v = 0
                elif kind == "0":
                    v = INF
                elif kind == "+":
                    v = min([m[x] for x in ch] + [INF])
                else:
                    v = min(INF, sum(m[x] for x in ch))
                if v < m[n]:
                    m[n] = v
                    changed = True
        c["min"] = m
    return c["min"]


def _objects(gid, n, size):
    c = _CACHE.setdefault(gid, {"objs": {}})
    k = (n, size)
    if k in c["objs"]:
        return c["objs"][k]
    kind, ch, _p = UNIVERSES[gid]["prods"][n]
    mins = _min_sizes(gid)
    if mins[n] > size:
        res = ()
    elif kind == "a":
        res = ("a",) if size == 1 else ()
    elif kind == "e":
        res = ("e",) if size == 0 else ()
    elif kind == "0":
        res = ()
    elif kind == "+":
        res = tuple(str(i) + w for i, x in enumerate(ch) for w in _objects(gid, x, size))
    else:
        def rec(i, left):
            if i == len(ch):
                if left == 0:
                    yield ""
                return
            rest = sum(mins[x] for x in ch[i + 1:])
            for s in range(mins[ch[i]], left - rest + 1):
                heads = _objects(gid, ch[i], s)
                if not heads:
                    continue
                tails = list(rec(i + 1, left - s))
                for h in heads:
                    for t in tails:
                        yield h + t

        res = tuple("(" + w + ")" for w in rec(0, size))
    c["objs"][k] = res
    return res


class GClass(CombinatorialClass[GObj]):
    def __init__(self, gid, n):
        self.gid = gid
        self.n = n
        super().__init__()

    @property
    def prod(self):
        return UNIVERSES[self.gid]["prods"][self.n]

    def is_empty(self):
        return _min_sizes(self.gid)[self.n] >= INF

    def is_atom(self):
        return self.prod[0] in ("a", "e")

    def minimum_size_of_object(self):
        return _min_sizes(self.gid)[self.n]

    def objects_of_size(self, size) -> Iterator[GObj]:   # type: ignore
        for w in _objects(self.gid, self.n, size):
            yield GObj(w)

    def children(self):
        return tuple(GClass(self.gid, x) for x in self.prod[1])

    def to_jsonable(self):
        d = super().to_jsonable()
        d["gid"] = self.gid
        d["n"] = self.n
        return d

    @classmethod
    def from_dict(cls, d):
        return cls(d["gid"], d["n"])

    def __eq__(self, other):
        return isinstance(other, GClass) and self.gid == other.gid and self.n == other.n

    def __hash__(self):
        return hash((self.gid, self.n))

    def __repr__(self):
        return "GClass(%r, %d)" % (self.gid, self.n)

    def __str__(self):
        return "N%d[%s]" % (self.n, self.prod[0])


class _GStrat:
    KINDS: Tuple[str, ...] = ()

    def decomposition_function(self, c):
        if isinstance(c, GClass) and c.prod[0] in self.KINDS and c.prod[1]:
            return c.children()
        return None

    @classmethod
    def from_dict(cls, d):
        return cls(**d)

    def __repr__(self):
        return "%s(ignore_parent=%r, inferrable=%r, possibly_empty=%r, workable=%r)" % (
            type(self).__name__, self.ignore_parent, self.inferrable, self.possibly_empty, self.workable)

    def __str__(self):
        return self.formal_step()


class GUnion(_GStrat, DisjointUnionStrategy[GClass, GObj]):
    KINDS = ("+",)

    def __init__(self, ignore_parent=False, inferrable=True, possibly_empty=True, workable=True):
        super().__init__(ignore_parent=ignore_parent, inferrable=inferrable, possibly_empty=possibly_empty,
                         workable=workable)

    def formal_step(self):
        return "the alternatives of the nonterminal"

    def forward_map(self, comb_class, obj, children=None):
        k = len(comb_class.prod[1])
        i = int(obj[0])
        return tuple(GObj(obj[1:]) if j == i else None for j in range(k))

    def backward_map(self, comb_class, objs, children=None):
        for i, o in enumerate(objs):
            if o is not None:
                yield GObj(str(i) + o)


class GProduct(_GStrat, CartesianProductStrategy[GClass, GObj]):
    KINDS = ("*",)

    def __init__(self, ignore_parent=True, inferrable=False, possibly_empty=False, workable=True):
        super().__init__(ignore_parent=ignore_parent, inferrable=inferrable, possibly_empty=possibly_empty,
                         workable=workable)

    def formal_step(self):
        return "the factors of the nonterminal"

    def forward_map(self, comb_class, obj, children=None):
        out = []
        i = 1
        while obj[i] != ")":
            j = _chunk(obj, i)
            out.append(GObj(obj[i:j]))
            i = j
        assert len(out) == len(comb_class.prod[1])
        return tuple(out)

    def backward_map(self, comb_class, objs, children=None):
        yield GObj("(" + "".join(objs) + ")")


class GDataCartesian(CartesianProduct):
    """CartesianProduct whose equiv hands back data (JSON values, nested containers)"""

    def __init__(self, parent, children, payload):
        super().__init__(parent, children)
        self.payload = payload

    def equiv(self, other, data=None):
        ok, _ = super().equiv(other, data)
        if not ok:
            return False, None
        return True, {"pay": [self.payload, getattr(other, "payload", None)],
                      "k": len(self.extra_parameters)}


class GDataProduct(GProduct):
    KINDS = ("*d",)

    def formal_step(self):
        return "the factors of the nonterminal (with index data)"

    def constructor(self, comb_class, children=None):
        if children is None:
            children = self.decomposition_function(comb_class)
        return GDataCartesian(comb_class, children, comb_class.prod[2])


STRAT_OF_KIND = {"+": GUnion, "*": GProduct, "*d": GDataProduct}


def reachable(gid, root):
    prods = UNIVERSES[gid]["prods"]
    seen, todo = [], [root]
    while todo:
        n = todo.pop()
        if n in seen:
            continue
        seen.append(n)
        todo.extend(reversed(prods[n][1]))
    return seen


def make_spec(gid, root, group_equiv=True, explicit_empty=False, share_strategies=True):
    """the specification of nonterminal `root`, straight from rule objects"""
    from comb_spec_searcher.strategies.strategy import EmptyStrategy

    shared = {k: cl() for k, cl in STRAT_OF_KIND.items()}
    atom = AtomStrategy()
    rules = []
    asked = set()          # the classes some rule of the specification will ask a rule for
    empties = []
    for n in reachable(gid, root):
        c = GClass(gid, n)
        kind = c.prod[0]
        if kind in ("a", "e"):
            rules.append((atom if share_strategies else AtomStrategy())(c))
        elif c.is_empty():
            empties.append(c)
        else:
            strat = shared[kind] if share_strategies else STRAT_OF_KIND[kind]()
            r = strat(c)
            if kind == "+" and len(c.prod[1]) > 1 and r.is_equivalence():
                r = r.to_equivalence_rule()
            asked.update(r.children)
            rules.append(r)
    if explicit_empty:
        # (an empty class that only an equivalence rule mentions gets no rule lazily either)
        rules.extend(EmptyStrategy()(c) for c in empties if c in asked)
    return CombinatorialSpecification(GClass(gid, root), rules, group_equiv=group_equiv)


# ------------------------------------------------------------------ random grammars
def random_abstract(rng, max_depth=3):
    """an abstract productive grammar T: list of [kind, children]; 0 = atom, 1 = empty word.
    Every union starts with a non-recursive alternative and every back reference sits in a
    product next to an atom, so all classes are non-empty and finite in every size."""
    T = [["a", []], ["e", []]]

    def alloc():
        T.append(None)
        return len(T) - 1

    def union(depth, anc):
        u = alloc()
        ch = [rng.choice([0, 1, 1])]
        for _ in range(rng.randint(1, 2)):
            ch.append(anything(depth + 1, anc + [u]))
        T[u] = ["+", ch]
        return u

    def product(depth, anc):
        p = alloc()
        k = rng.randint(2, 3)
        ch = []
        guarded = rng.random() < 0.8
        if guarded:
            ch.append(0)
        while len(ch) < k:
            r = rng.random()
            if guarded and anc and r < 0.4:
                ch.append(rng.choice(anc))
            elif ch and r < 0.55:
                ch.append(rng.choice(ch))                    # a repeated factor
            else:
                ch.append(anything(depth + 1, anc))
        rng.shuffle(ch)
        T[p] = ["*d" if rng.random() < 0.25 else "*", ch]
        return p

    def anything(depth, anc):
        r = rng.random()
        done = [i for i, t in enumerate(T) if t is not None and i > 1]
        if depth >= max_depth or r < 0.2:
            return rng.choice([0, 0, 1])
        if done and r < 0.35:
            return rng.choice(done)                          # a shared sub-grammar
        if r < 0.7:
            return product(depth, anc)
        return union(depth, anc)

    root = union(0, []) if rng.random() < 0.7 else product(0, [])
    return T, root


def present(rng, T, root, prods, p_share=0.6, max_copies=2, p_perm=0.5, p_equiv=0.2, p_empty=0.15):
    """append one presentation of T to `prods`; returns the index of its root"""
    inst = {}
    empty = []

    def alloc():
        prods.append(None)
        return len(prods) - 1

    def get(t):
        have = inst.setdefault(t, [])
        if have and (len(have) >= max_copies or rng.random() < p_share):
            return rng.choice(have)
        p = alloc()
        have.append(p)
        out = p
        if T[t][0] not in ("a", "e") and rng.random() < p_equiv:
            # an equivalence step in front of the class, on this side only
            q = alloc()
            if rng.random() < 0.5:
                if not empty:
                    e = alloc()
                    prods[e] = ["0", [], None]
                    empty.append(e)
                ch = [p, empty[0]] if rng.random() < 0.5 else [empty[0], p]
            else:
                ch = [p]
            prods[q] = ["+", ch, None]
            out = q
            if rng.random() < 0.35:
                q2 = alloc()                      # a second step: a path of two rules when grouped
                prods[q2] = ["+", [q], None]
                out = q = q2
            if rng.random() < 0.5:
                have[-1] = q         # later references go through the equivalence as well
        kind, ch = T[t]
        order = list(range(len(ch)))
        if rng.random() < p_perm:
            rng.shuffle(order)
        pch = [get(ch[i]) for i in order]
        if kind == "+" and rng.random() < p_empty:
            if not empty:
                e = alloc()
                prods[e] = ["0", [], None]
                empty.append(e)
            pch.insert(rng.randrange(len(pch) + 1), empty[0])
        payload = None
        if kind == "*d":
            payload = rng.choice([[p, "x"], {"n": p, "l": [1, [2, {"z": None}]]}, "s%d" % p, p, [True, -3]])
        prods[p] = [kind, pch, payload]
        return out

    return get(root)


def random_pair(rng):
    """a universe with two presentations of one abstract grammar"""
    T, root = random_abstract(rng, max_depth=rng.choice([2, 3, 3]))
    prods = []
    style = rng.random()
    if style < 0.25:      # left canonical, right unfolded
        r1 = present(rng, T, root, prods, p_share=1.0, p_perm=0.0, p_equiv=0.0, p_empty=0.0)
        r2 = present(rng, T, root, prods, p_share=0.3, max_copies=rng.choice([2, 3]))
    elif style < 0.5:     # the other way round
        r1 = present(rng, T, root, prods, p_share=0.3, max_copies=rng.choice([2, 3]))
        r2 = present(rng, T, root, prods, p_share=1.0, p_perm=0.3, p_equiv=0.0, p_empty=0.0)
    else:
        r1 = present(rng, T, root, prods)
        r2 = present(rng, T, root, prods)
    return {"prods": prods, "r1": r1, "r2": r2, "ge1": int(rng.random() < 0.7), "ge2": int(rng.random() < 0.7),
            "ee": int(rng.random() < 0.3), "share": int(rng.random() < 0.7)}


def find_bijection(g):
    from comb_spec_searcher.isomorphism import Bijection

    gid = register({"prods": g["prods"]})
    s1 = make_spec(gid, g["r1"], bool(g["ge1"]), bool(g.get("ee")), bool(g.get("share", 1)))
    s2 = make_spec(gid, g["r2"], bool(g["ge2"]), bool(g.get("ee")), bool(g.get("share", 1)))
    return Bijection.construct(s1, s2)
