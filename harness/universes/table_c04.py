"""
Richer generator of table universes (format of harness/universes/table.py) for the
searcher-level checks: longer searches, more factories / foreign parents / lazy ready
rules / self-equivalences / inferral chains / symmetries / verification rules with
children, and three emptiness regimes:

  strong : a possibly_empty=False strategy (verification and symmetry strategies included)
           never has an empty child; a symmetry maps a class to a class of the same emptiness
  weak   : random_universe's contract: only for NON-empty parents; an empty class decomposes
           into empty classes under every strategy (so the searcher's set_empty(child, False)
           can be wrong for children of empty parents)
  wild   : no contract at all
"""


def rich_universe(rng, regime=None, ncls=None):
    n = ncls or rng.choice([2, 3, 4, 5, 6, 6, 7, 8, 9, 10])
    regime = regime or rng.choice(["strong", "strong", "strong", "weak", "weak", "wild"])
    pe_rate = rng.choice([0.0, 0.15, 0.15, 0.3])
    empty = [1 if rng.random() < pe_rate else 0 for _ in range(n)]
    start = rng.randrange(n)
    if rng.random() < 0.93:
        empty[start] = 0
    ne = [c for c in range(n) if not empty[c]]
    em = [c for c in range(n) if empty[c]]
    strats = []

    def pick(cands):
        return rng.choice(cands) if cands else rng.randrange(n)

    def kids_for(c, arity, pe, kind):
        if regime == "wild":
            return [rng.randrange(n) for _ in range(arity)]
        if kind == "Y":
            return [pick(em if empty[c] else ne)]
        if empty[c]:
            if regime == "strong" and not pe:
                return None  # does not apply
            return [pick(em) for _ in range(arity)]
        if not pe:
            return [pick(ne) for _ in range(arity)]
        ks = [rng.randrange(n) for _ in range(arity)]
        if ks and all(empty[k] for k in ks):
            ks[rng.randrange(len(ks))] = pick(ne)
        return ks

    def entry(c, kind, pe, arity=None):
        if kind == "V":
            ar = 0 if rng.random() < 0.75 else rng.randint(1, 2)
        elif kind == "Y":
            ar = 1
        else:
            ar = arity if arity is not None else rng.choice([1, 1, 2, 2, 2, 3])
        if kind == "V" and empty[c] and regime != "wild":
            return None
        ks = kids_for(c, ar, pe, kind)
        if ks is None:
            return None
        two_way = 1 if (kind == "Y" or rng.random() < 0.55) else 0
        return {
            "children": ks,
            "two_way": two_way,
            "reversible": 1 if (two_way or rng.random() < 0.4) else 0,
            "shifts": [rng.choice([0, 0, 0, 1, 1, 2, -1]) for _ in ks],
        }

    def plain(kind="S", density=0.6, arity=None, flags=None):
        if flags is None:
            if kind == "Y":
                flags = [0, 0, 0, 0]
            elif kind == "V":
                flags = [rng.randint(0, 1), 0, 0, 0]
            else:
                flags = [1 if rng.random() < 0.15 else 0, 1 if rng.random() < 0.7 else 0,
                         1 if rng.random() < 0.65 else 0, 1 if rng.random() < 0.85 else 0]
        pe = flags[2] if kind == "S" else 0
        ap = {}
        for c in range(n):
            if rng.random() < density:
                e = entry(c, kind, pe, arity)
                if e is not None:
                    ap[str(c)] = e
        strats.append({"kind": kind, "flags": flags, "apply": ap})
        return len(strats) - 1

    def factory():
        hidden = [plain("S", density=0.7) for _ in range(rng.randint(1, 2))]
        ap = {}
        for c in range(n):
            if rng.random() < 0.65:
                items = []
                for _ in range(rng.randint(1, 3)):
                    h = rng.choice(hidden)
                    x = rng.random()
                    if x < 0.4:
                        items.append({"sid": h, "on": None, "lazy": 0})
                    elif x < 0.65:
                        items.append({"sid": h, "on": c, "lazy": rng.randint(0, 1)})
                    else:
                        items.append({"sid": h, "on": rng.randrange(n), "lazy": rng.randint(0, 1)})
                ap[str(c)] = items
        strats.append({"kind": "F", "flags": [0, 1, 1, 1], "apply": ap})
        return len(strats) - 1

    def some(k, mk):
        return [mk() for _ in range(k)]

    ver = some(rng.choice([1, 1, 2]), lambda: plain("V", density=rng.choice([0.1, 0.2, 0.3])))
    inferral = some(rng.choice([0, 1, 1, 2, 3, 3, 4]),
                    lambda: plain("S", density=rng.choice([0.45, 0.8]), arity=1, flags=[0, rng.randint(0, 1), rng.randint(0, 1), 1])
                    if rng.random() < 0.85 else factory())
    initial = some(rng.choice([0, 1, 1, 2]), lambda: plain("S") if rng.random() < 0.65 else factory())
    expansion = [some(rng.choice([1, 1, 2]), lambda: plain("S") if rng.random() < 0.7 else factory())
                 for _ in range(rng.choice([0, 1, 1, 2]))]
    sym = some(rng.choice([0, 0, 1, 1, 2]), lambda: plain("Y", density=0.6))
    if rng.random() < 0.05 and (initial or inferral):
        sym.append(factory())          # a factory used as a symmetry
    if rng.random() < 0.05:
        ver.append(factory())          # a factory used as a verification strategy
    # self-equivalences (filtered by the searcher) and equivalences to other classes
    for st in strats:
        if st["kind"] == "S" and rng.random() < 0.3:
            c = rng.randrange(n)
            if regime == "wild" or st["flags"][2] or not empty[c]:
                st["apply"][str(c)] = {"children": [c], "two_way": 1, "reversible": 1, "shifts": [0]}
    if rng.random() < 0.1 and inferral:
        inferral.append(inferral[0])   # the same strategy twice in the inferral tuple
    # keep most searches going: the start class is usually not verified at once and
    # some expanding strategy applies to it
    if rng.random() < 0.8:
        for v in ver:
            if strats[v]["kind"] == "V":
                strats[v]["apply"].pop(str(start), None)
        cands = [s for s in initial + [x for l in expansion for x in l] if strats[s]["kind"] == "S"]
        if cands and not any(str(start) in strats[s]["apply"] for s in cands):
            s0 = rng.choice(cands)
            e = entry(start, "S", strats[s0]["flags"][2])
            if e is not None:
                strats[s0]["apply"][str(start)] = e
    return {
        "ncls": n,
        "empty": empty,
        "start": start,
        "strats": strats,
        "pack": {"initial": initial, "inferral": inferral, "expansion": expansion, "ver": ver, "sym": sym,
                 "iterative": 0},
        "regime": regime,
    }
