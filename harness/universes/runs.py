"""
Real searches, shared by the searcher-level properties (C01, C02, C13, C17, C19...).
A case describes a universe (word family or table universe), a rule database
flavour and options; run_search performs the search with the real code and
returns the searcher and, when one is found, the specification.
"""
import random

from comb_spec_searcher import CombinatorialSpecification, CombinatorialSpecificationSearcher
from comb_spec_searcher.exception import SpecificationNotFound
from comb_spec_searcher.specification_extrator import SpecificationRuleExtractor

from harness.universes import table as T
from harness.universes import words_ext as W


def gen_case(rng, table_fraction=0.5):
    if rng.random() < table_fraction:
        u = T.random_universe(rng)
        if rng.random() < 0.2:
            u["pack"]["iterative"] = 1
        return {
            "kind": "table",
            "universe": u,
            "ruledb": rng.choice(W.RULEDBS),
            "expand_verified": rng.random() < 0.2,
            "compressed": rng.random() < 0.3,
            "smallest": False,
            "tree_seed": rng.randrange(1 << 30),
        }
    cfg = W.random_cfg(rng)
    cfg["kind"] = "word"
    return cfg


def make_searcher(case):
    if case["kind"] == "word":
        return W.searcher(case)
    u = dict(case["universe"])
    u.pop("uid", None)
    uid = T.register(u)
    return CombinatorialSpecificationSearcher(
        T.start_class(uid, case.get("compressed", False)),
        T.make_pack(uid),
        ruledb=W.make_ruledb(case["ruledb"]),
        expand_verified=bool(case.get("expand_verified")),
    )


class RecExtractor(SpecificationRuleExtractor):
    """Records the set iteration order of _no_lhs_labels() and the find_path answers."""

    def __init__(self, root_label, node, ruledb, classdb):
        self.order = []
        self.paths = []
        orig = ruledb.equivdb.find_path

        def rec_find_path(a, b):
            p = orig(a, b)
            self.paths.append([a, b, list(p)])
            return p

        ruledb.equivdb.find_path = rec_find_path
        try:
            super().__init__(root_label, node, ruledb, classdb)
        finally:
            del ruledb.equivdb.find_path

    def _no_lhs_labels(self):
        s = super()._no_lhs_labels()
        self.order = list(s)
        return s

    def rules(self):
        """records the class database as rules() finds it (a lookup in RuleDBForgetStrategy may label
        classes and fill the emptiness cache), the rules yielded so far and the exception that ended it"""
        cdb = self.classdb
        self.cdb_before = (len(cdb.comb_class_list), list(cdb.empty_list))
        self.yielded = []
        self.rules_error = None
        try:
            for rule in super().rules():
                self.yielded.append(rule)
                yield rule
        except Exception as e:  # pylint: disable=broad-except
            self.rules_error = e
            raise


def expand_all(css):
    """Drive the searcher until its queue is exhausted."""
    css._expand_classes_for(1e9, None, 0, 0)  # pylint: disable=protected-access


def search(case, build_spec=True):
    """
    Returns dict(css, spec or None, extractor or None, error or None).
    Word universes use auto_search's normal slicing; table universes (which need
    not have a specification) are expanded to exhaustion first.
    build_spec=False: the CombinatorialSpecification object is left to the caller.
    out["find_rule"] is the extractor whether or not its rules() succeeded.
    """
    css = make_searcher(case)
    random.seed(case.get("tree_seed", 0))
    out = {"css": css, "spec": None, "extractor": None, "error": None, "rules": None}
    try:
        if case["kind"] == "table":
            expand_all(css)
        else:
            # expand until a specification is detected, as auto_search does
            # (a call with expansion time 0 processes exactly one work packet; `check_every`
            # packets are processed between two has_specification() calls)
            k = max(1, int(case.get("check_every", 1)))
            more = True
            while more and not css.has_specification():
                for _ in range(k):
                    if not css._expand_classes_for(0.0, None, 0, 0)[0]:  # pylint: disable=protected-access
                        more = False
                        break
        if not css.has_specification():
            return out
        ruledb = css.ruledb
        if case["ruledb"] in ("base", "forget"):
            node = ruledb._get_specification_node(0, bool(case.get("smallest")))  # pylint: disable=protected-access
            ex = RecExtractor(css.start_label, node, ruledb, css.classdb)
            out["extractor"] = ex
            out["find_rule"] = ex
            out["node"] = node
            rules = list(ex.rules())
        else:
            rules = list(ruledb.get_specification_rules())
        out["rules"] = rules
        if case["kind"] == "word" and build_spec:
            # table universes have no combinatorial meaning: only their rule sets are examined
            out["spec"] = CombinatorialSpecification(css.start_class, rules)
    except SpecificationNotFound:
        pass
    except Exception as e:  # pylint: disable=broad-except
        # Table universes have no combinatorial meaning and may break assumptions the
        # extraction of concrete rules relies on (e.g. the known limitation with rules whose
        # parent is foreign to the class the factory was applied to: known_findings C11/C14).
        # Nothing is handed back then; the error is reported in the evidence.  Word universes
        # must not fail.
        if case["kind"] != "table":
            raise
        out["error"] = "%s: %s" % (type(e).__name__, str(e)[:80])
        out["rules"] = None
        out["extractor"] = None
    return out
