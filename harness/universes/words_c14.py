"""
Word universes for C14 (memory-saving rule database): the packs of words_ext plus packs whose
verification strategies apply to classes that other strategies of the pack could also expand
(non-atom verification + ExpansionStrategy as initial strategy, the situation of the repair
8ca838d), and a TABULATION of a finished word search as a strategy table in the format of
harness/universes/table.py, so that the Coq model of RecomputingDict runs on word searches too.
"""
from comb_spec_searcher import AtomStrategy, StrategyPack
from comb_spec_searcher.exception import StrategyDoesNotApply
from comb_spec_searcher.strategies.rule import AbstractRule
from comb_spec_searcher.strategies.strategy import (
    AbstractStrategy,
    EmptyStrategy,
    StrategyFactory,
    SymmetryStrategy,
    VerificationStrategy,
)
from example import AvoidingWithPrefix, ExpansionStrategy, RemoveFrontOfPrefix, Word

from harness.universes import words_ext as W


class LongPrefixVerified(VerificationStrategy[AvoidingWithPrefix, Word]):
    """Verifies every non-atom, non-empty class whose prefix has at least k letters: classes the
    expansion strategies of the pack apply to as well."""

    def __init__(self, k=2, ignore_parent=False):
        super().__init__(ignore_parent=ignore_parent)
        self.k = k

    def verified(self, c):
        return (not c.just_prefix) and len(c.prefix) >= self.k and not c.is_empty()

    def pack(self, comb_class):
        return W.base_pack()

    def formal_step(self):
        return "prefix of length >= %d" % self.k

    def to_jsonable(self):
        d = super().to_jsonable()
        d["k"] = self.k
        return d

    @classmethod
    def from_dict(cls, d):
        return cls(d.get("k", 2), d.get("ignore_parent", False))

    def __repr__(self):
        return "LongPrefixVerified(%d)" % self.k

    def __str__(self):
        return self.formal_step()


def _p(name, initial, inferral, expansion, ver, symmetries=lambda: [], iterative=False):
    return lambda: StrategyPack(list(initial()), list(inferral()), [list(x) for x in expansion()], list(ver()),
                                name=name, symmetries=list(symmetries()), iterative=iterative)


EXTRA_PACKS = {
    # non-atom verification; the expanding strategy comes FIRST in the pack (repair 8ca838d)
    "verif_exp_init": _p("verif_exp_init", lambda: [ExpansionStrategy()], lambda: [],
                         lambda: [[RemoveFrontOfPrefix()]], lambda: [AtomStrategy(), W.ShortPatternsVerified()]),
    "verif_exp_only": _p("verif_exp_only", lambda: [ExpansionStrategy()], lambda: [], lambda: [],
                         lambda: [AtomStrategy(), W.ShortPatternsVerified()]),
    "verif_first": _p("verif_first", lambda: [RemoveFrontOfPrefix()], lambda: [], lambda: [[ExpansionStrategy()]],
                      lambda: [W.ShortPatternsVerified(), AtomStrategy()]),
    "longprefix": _p("longprefix", lambda: [ExpansionStrategy()], lambda: [], lambda: [[RemoveFrontOfPrefix()]],
                     lambda: [AtomStrategy(), LongPrefixVerified(2)]),
    "longprefix3_sym": _p("longprefix3_sym", lambda: [RemoveFrontOfPrefix()], lambda: [], lambda: [[ExpansionStrategy()]],
                          lambda: [AtomStrategy(), LongPrefixVerified(3)], symmetries=lambda: [W.SwapLetters()]),
    "verif_inferral_sym": _p("verif_inferral_sym", lambda: [ExpansionStrategy()], lambda: [W.MinimizePatterns()],
                             lambda: [[RemoveFrontOfPrefix()]], lambda: [AtomStrategy(), W.ShortPatternsVerified()],
                             symmetries=lambda: [W.SwapLetters()]),
    "verif_factory2": _p("verif_factory2", lambda: [], lambda: [], lambda: [[W.WordFactory(2)], [ExpansionStrategy()]],
                         lambda: [AtomStrategy(), W.ShortPatternsVerified(), LongPrefixVerified(3)]),
    "factory2_only": _p("factory2_only", lambda: [W.WordFactory(2)], lambda: [], lambda: [],
                        lambda: [AtomStrategy()]),
    "verif_iterative": _p("verif_iterative", lambda: [ExpansionStrategy()], lambda: [], lambda: [[RemoveFrontOfPrefix()]],
                          lambda: [AtomStrategy(), LongPrefixVerified(2)], iterative=True),
    "verif_oneway": _p("verif_oneway", lambda: [ExpansionStrategy(), W.SwapLettersOneWay()], lambda: [],
                       lambda: [[RemoveFrontOfPrefix()]], lambda: [AtomStrategy(), W.ShortPatternsVerified()]),
}


def pack_names():
    return list(W.PACKS) + list(EXTRA_PACKS)


def make_pack(name):
    if name in EXTRA_PACKS:
        return EXTRA_PACKS[name]()
    return W.PACKS[name]()


def random_start(rng):
    """[prefix, patterns, alphabet]"""
    if rng.random() < 0.45:
        p, pats, alph = W.START_SPECS[rng.randrange(len(W.START_SPECS))]
        return [p, list(pats), alph]
    alph = "ab" if rng.random() < 0.7 else "abc"
    npat = rng.choice([0, 1, 1, 2, 2, 3])
    pats = sorted({"".join(rng.choice(alph) for _ in range(rng.choice([1, 2, 2, 3, 3, 4]))) for _ in range(npat)})
    prefix = "".join(rng.choice(alph) for _ in range(rng.choice([0, 0, 0, 1, 2, 3])))
    return [prefix, pats, alph]


def start_class(spec):
    p, pats, alph = spec
    return AvoidingWithPrefix(p, pats, list(alph))


# ------------------------------------------------------------------ tabulation
class Tabulator:
    """Numbers classes and strategies of a word search and builds the strategy table the Coq
    model reads: strategy ids follow StrategyPack.__iter__ (the order RecomputingDict replays),
    strategies yielded by factories get further ids; class ids are assigned on first sight."""

    def __init__(self, pack):
        self.pack = pack
        self.strats = list(pack)           # index = sid
        self.npack = len(self.strats)
        self.classes = []
        self.cid = {}

    def cls(self, c):
        i = self.cid.get(c)
        if i is None:
            i = self.cid[c] = len(self.classes)
            self.classes.append(c)
        return i

    def sid(self, strat):
        if isinstance(strat, EmptyStrategy):
            return -1
        for i, s in enumerate(self.strats):
            if type(s) is type(strat) and s == strat:
                return i
        self.strats.append(strat)
        return len(self.strats) - 1

    @staticmethod
    def kind(strat):
        if isinstance(strat, StrategyFactory):
            return "F"
        if isinstance(strat, VerificationStrategy):
            return "V"
        if isinstance(strat, SymmetryStrategy):
            return "Y"
        return "S"

    def _entry(self, strat, c):
        try:
            rule = strat(c)
            kids = rule.children
        except StrategyDoesNotApply:
            return None
        return {"children": [self.cls(k) for k in kids], "two_way": int(bool(rule.is_two_way())),
                "reversible": 0, "shifts": [0] * len(kids)}

    def table(self, labelled):
        """The table restricted to what a replay on the labelled classes can touch: every strategy of the
        pack (and every strategy a factory yields) applied to every labelled class and to every parent of a
        ready rule a factory yields on a labelled class."""
        todo = [(i, c) for i in range(self.npack) for c in labelled]
        apply_ = {}
        items_ = {}
        seen = set()
        while todo:
            i, c = todo.pop()
            ci = self.cls(c)
            if (i, ci) in seen:
                continue
            seen.add((i, ci))
            s = self.strats[i]
            if isinstance(s, StrategyFactory):
                its = []
                for x in s(c):
                    if isinstance(x, AbstractStrategy):
                        h = self.sid(x)
                        its.append({"sid": h, "on": None, "lazy": 0})
                        todo.append((h, c))
                    else:
                        assert isinstance(x, AbstractRule)
                        h = self.sid(x.strategy)
                        its.append({"sid": h, "on": self.cls(x.comb_class), "lazy": 0})
                        todo.append((h, x.comb_class))
                items_.setdefault(i, {})[str(ci)] = its
            else:
                e = self._entry(s, c)
                if e is not None:
                    apply_.setdefault(i, {})[str(ci)] = e
        strats = []
        for i, s in enumerate(self.strats):
            k = self.kind(s)
            if k == "F":
                strats.append({"kind": "F", "flags": [0, 1, 1, 1], "apply": items_.get(i, {})})
            else:
                flags = [int(bool(s.ignore_parent)), int(bool(s.inferrable)), int(bool(s.possibly_empty)),
                         int(bool(s.workable))]
                strats.append({"kind": k, "flags": flags, "apply": apply_.get(i, {})})
        empty = [int(bool(c.is_empty())) for c in self.classes]
        return {"ncls": len(self.classes), "empty": empty, "strats": strats, "pack_order": list(range(self.npack))}
