"""
More strategy classes for C18 (JSON round trips): classes whose from_dict CONSUMES the dictionary.

harness/universes/c18_univ.py's strategies with settings all read their dictionary with
`return cls(**d)`, which leaves the dictionary as it was.  The library's own from_dict methods follow
another convention: they POP what they read (Rule.from_dict, ReverseRule.from_dict and
strategy_from_dict itself pop; AtomStrategy/EmptyStrategy.from_dict `assert not d`; downstream, the
strategies of `tilings` do  `gps = d.pop("gps"); return cls(gps=gps, **d)`).  The classes below read
their settings that way.  Towards a caller the two conventions are the same function of the
dictionary (every key is a keyword of __init__, a missing key takes the default of __init__, an
unknown key is a TypeError) - which is what the model's `from_dict mode 1` describes - so they are
registered in c18_univ.STRATS with mode 1; they differ only in what is LEFT in the dictionary
afterwards, which nothing may depend on.

  PopExpandOrdered   ExpandOrdered (union, one setting)
  ExpandAfter        example.py's expansion restricted to prefixes ending in `last` ("" = empty
                     prefix): a specification needs one configuration per letter, so several
                     configurations of ONE class occur among the rules of one specification
  PopRemoveFront     RemoveFront (product, two settings)
  PopBruteVerified   BruteVerified (verification strategy, three settings)
  PopExpandFactory   ExpandFactory (strategy factory, two settings)
"""
from example import ExpansionStrategy
from harness.universes import c18_univ as U


class PopExpandOrdered(U.ExpandOrdered):
    @classmethod
    def from_dict(cls, d):
        descending = d.pop("descending", False)
        return cls(descending=descending, **d)

    def __repr__(self):
        return "Pop" + super().__repr__()


class ExpandAfter(ExpansionStrategy):
    """The expansion strategy of example.py, applying only to the classes whose prefix ends with the
    letter `last` (`last == ""`: the empty prefix)."""

    def __init__(self, last="", ignore_parent=False, inferrable=True, possibly_empty=True, workable=True):
        super().__init__(ignore_parent=ignore_parent, inferrable=inferrable, possibly_empty=possibly_empty,
                         workable=workable)
        self.last = last

    def decomposition_function(self, avoiding_with_prefix):
        if avoiding_with_prefix.prefix[-1:] != self.last:
            return None
        return super().decomposition_function(avoiding_with_prefix)

    def formal_step(self):
        return "prefix ends with %r: just the prefix, or append a letter" % (self.last,)

    def to_jsonable(self):
        d = super().to_jsonable()
        d["last"] = self.last
        return d

    @classmethod
    def from_dict(cls, d):
        last = d.pop("last", "")
        return cls(last, **d)

    def __repr__(self):
        return "ExpandAfter(last=%r, ignore_parent=%r, inferrable=%r, possibly_empty=%r, workable=%r)" % (
            self.last, self.ignore_parent, self.inferrable, self.possibly_empty, self.workable)

    def __str__(self):
        return self.formal_step()


class PopRemoveFront(U.RemoveFront):
    @classmethod
    def from_dict(cls, d):
        max_remove = d.pop("max_remove", 1)
        tag = d.pop("tag", "")
        return cls(max_remove, tag, **d)

    def __repr__(self):
        return "Pop" + super().__repr__()


class PopBruteVerified(U.BruteVerified):
    @classmethod
    def from_dict(cls, d):
        min_prefix = d.pop("min_prefix", 3)
        note = d.pop("note", "brute")
        exact = d.pop("exact", False)
        return cls(min_prefix=min_prefix, note=note, exact=exact, **d)

    def __repr__(self):
        return "Pop" + super().__repr__()


class PopExpandFactory(U.ExpandFactory):
    def __call__(self, comb_class):
        if len(comb_class.prefix) <= self.max_prefix and not comb_class.just_prefix:
            strat = PopExpandOrdered(descending=False)
            yield strat(comb_class) if self.as_rule else strat

    @classmethod
    def from_dict(cls, d):
        max_prefix = d.pop("max_prefix", 9)
        as_rule = d.pop("as_rule", False)
        return cls(max_prefix=max_prefix, as_rule=as_rule, **d)

    def __repr__(self):
        return "Pop" + super().__repr__()


POP = {
    "PopExpandOrdered": (PopExpandOrdered, 1),
    "ExpandAfter": (ExpandAfter, 1),
    "PopRemoveFront": (PopRemoveFront, 1),
    "PopBruteVerified": (PopBruteVerified, 1),
    "PopExpandFactory": (PopExpandFactory, 1),
}
U.STRATS.update(POP)
