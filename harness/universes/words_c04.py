"""
Word universes for C04 (the rule universe built by the searcher is faithful to the strategies):
REAL word searches (packs of words_ext / words_c14: symmetries, inferral, factories yielding
strategies, ready rules and rules with a foreign parent, non-atom verification strategies with
packs, one-way rules, two expansion sets, products with >= 3 factors) whose strategies are
TABULATED after the search, so that the searcher model of Searcher/Model.v (run_c04) can replay
the packets of the real queue on the very same strategies.

Tabulator04 extends words_c14.Tabulator by what the C04 trace needs beyond the C14 one:
  - is_reversible(comb_class) and shifts(comb_class, children) of every entry (forest keys of
    RuleDBForest, reverse keys included); C14's Tabulator writes reversible = 0, shifts = 0;
  - the pack as the model wants it (initial / inferral / expansion sets / verification /
    symmetries as strategy ids) and the id of the start class.
What it cannot express is counted in `limits` (strategy.shifts / is_reversible raising while
tabulating - never observed) and reported by the plugin's extra checks.  Two CONTRIVED packs
(C04_PACKS) make a factory yield a rule for an EMPTY foreign parent, so that clause (b) of
Searcher/Contracts.v pe_contract is exercised by real strategies too.
"""
from comb_spec_searcher import AtomStrategy, StrategyPack
from comb_spec_searcher.exception import StrategyDoesNotApply
from comb_spec_searcher.strategies.strategy import StrategyFactory
from example import AvoidingWithPrefix, ExpansionStrategy, RemoveFrontOfPrefix

from harness.universes import words_c14 as WC
from harness.universes import words_ext as W


class EmptyParentFactory(StrategyFactory[AvoidingWithPrefix]):
    """CONTRIVED, but made of the repo's own strategies: next to RemoveFrontOfPrefix() it yields the ready rule
    RemoveFrontOfPrefix()(p) for the foreign parent p = the class whose prefix is the current prefix followed by the
    first pattern TWICE - an EMPTY class, decomposed by a possibly_empty=False strategy (a Cartesian product: an
    empty product has an empty factor).  This is the one situation in which a searcher presents an empty class to
    such a strategy through add_rule with real word strategies (the real-strategy twin of dx_table in Props/C04.v):
    clause (b) of pe_contract is then exercised AND violated, add_rule caches set_empty(child, False) for an empty
    class.  The documented contracts do not forbid it (they speak of non-empty parents only)."""

    def __call__(self, comb_class):
        yield RemoveFrontOfPrefix()
        if comb_class.patterns and not comb_class.just_prefix and len(comb_class.prefix) <= 2:
            pat = comb_class.patterns[0]
            parent = AvoidingWithPrefix(comb_class.prefix + pat + pat, comb_class.patterns, comb_class.alphabet)
            try:
                yield RemoveFrontOfPrefix()(parent)
            except StrategyDoesNotApply:
                pass

    def to_jsonable(self):
        return super().to_jsonable()

    @classmethod
    def from_dict(cls, d):
        return cls()

    def __repr__(self):
        return "EmptyParentFactory()"

    def __str__(self):
        return "factory yielding a rule for an empty foreign parent"


C04_PACKS = {
    "factory_empty_parent": lambda: StrategyPack([EmptyParentFactory()], [], [[ExpansionStrategy()]], [AtomStrategy()],
                                                 name="factory_empty_parent"),
    "factory_empty_parent_sym": lambda: StrategyPack([EmptyParentFactory()], [], [[ExpansionStrategy()]], [AtomStrategy()],
                                                     name="factory_empty_parent_sym", symmetries=[W.SwapLetters()]),
}

# every named pack of words_ext and words_c14 (the parametric ow3|... family is drawn separately)
PACK_NAMES = list(W.PACKS) + list(WC.EXTRA_PACKS)


def random_pack_name(rng):
    x = rng.random()
    if x < 0.1:
        return W.random_ow3_pack_name(rng)
    if x < 0.16:
        return rng.choice(list(C04_PACKS))
    return rng.choice(PACK_NAMES)


def make_pack(name):
    if name in C04_PACKS:
        return C04_PACKS[name]()
    return WC.make_pack(name)


def random_start(rng, pack_name):
    spec = WC.random_start(rng)
    if pack_name.startswith(("oneway3", "ow3|")) and rng.random() < 0.85:
        # the relabelling packs only act on three-letter alphabets
        three = [sp for sp in W.START_SPECS if len(sp[2]) == 3]
        p, pats, alph = three[rng.randrange(len(three))]
        spec = [p, list(pats), alph]
    return spec


start_class = WC.start_class


class Tabulator04(WC.Tabulator):
    def __init__(self, pack):
        super().__init__(pack)
        # what the tabulation could not express: strategy.shifts / is_reversible raised
        self.limits = {"shifts_raised": 0, "reversible_raised": 0}

    def _entry(self, strat, c):
        try:
            rule = strat(c)
            kids = rule.children
        except StrategyDoesNotApply:
            return None
        try:
            shifts = [int(x) for x in strat.shifts(c, kids)]
        except Exception:  # pylint: disable=broad-except
            self.limits["shifts_raised"] += 1
            shifts = [0] * len(kids)
        try:
            rev = int(bool(strat.is_reversible(c)))
        except Exception:  # pylint: disable=broad-except
            self.limits["reversible_raised"] += 1
            rev = 0
        return {"children": [self.cls(k) for k in kids], "two_way": int(bool(rule.is_two_way())),
                "reversible": rev, "shifts": shifts}

    def universe(self, start, labelled):
        """the table universe (format of harness/universes/table.py) of the finished search"""
        s0 = self.cls(start)
        pack = self.pack
        p = {"initial": [self.sid(s) for s in pack.initial_strats],
             "inferral": [self.sid(s) for s in pack.inferral_strats],
             "expansion": [[self.sid(s) for s in x] for x in pack.expansion_strats],
             "ver": [self.sid(s) for s in pack.ver_strats],
             "sym": [self.sid(s) for s in pack.symmetries]}
        t = self.table(labelled)
        for st in t["strats"]:
            st["raw"] = 1          # flags are those of the real strategy object (c04.norm_flags leaves them alone)
        return {"ncls": t["ncls"], "empty": t["empty"], "strats": t["strats"], "pack": p, "start": s0,
                "words": 1}
