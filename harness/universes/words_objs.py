"""
C07 universes: word classes whose rules implement object maps.

* plain words: /repo/example.py classes (imported) + the strategies of
  words_ext (symmetry SwapLetters, inferral MinimizePatterns) + here:
  SwapLastTwo (a second, non-commuting symmetry for 3-letter alphabets),
  SplitSafe (product with several single-letter atoms, optionally a size-0
  atom), SortedSplit (a*b*c*.. as a product of NON-atom classes).
* words with statistics: StatWords counts occurrences of chosen letters
  (extra_parameters), with union / product / symmetry strategies declaring
  extra_parameters (kept, renamed, dropped on a child where the value is 0)
  and a verification strategy for atoms that supports parameters.
All truth is by brute force over words.
"""
from collections import Counter, defaultdict
from itertools import product

from comb_spec_searcher import AtomStrategy, CartesianProductStrategy, DisjointUnionStrategy, StrategyPack
from comb_spec_searcher.exception import InvalidOperationError
from comb_spec_searcher.strategies.strategy import SymmetryStrategy, VerificationStrategy
from example import AvoidingWithPrefix, ExpansionStrategy, RemoveFrontOfPrefix, Word

from harness.universes.words_ext import MinimizePatterns, SwapLetters

LETTERS = "abc"


def enc(w):
    """injective integer code of a word over LETTERS (base 4, digits 1..3)"""
    v = 0
    for ch in w:
        v = v * 4 + (LETTERS.index(ch) + 1)
    return v


def dec(v):
    out = []
    while v:
        out.append(LETTERS[v % 4 - 1])
        v //= 4
    return Word("".join(reversed(out)))


def enc_tuple(t):
    return [-1 if x is None else enc(x) for x in t]


# ------------------------------------------------------------------ more strategies on plain words
def _perm_word(w, mp):
    return "".join(mp.get(x, x) for x in w)


class SwapLastTwo(SymmetryStrategy[AvoidingWithPrefix, Word]):
    """exchange the last two letters of the alphabet (does not commute with SwapLetters on abc)"""

    @staticmethod
    def _mp(alphabet):
        a, b = alphabet[-2], alphabet[-1]
        return {a: b, b: a}

    def decomposition_function(self, c):
        if len(c.alphabet) < 3:
            return None
        mp = self._mp(c.alphabet)
        return (self._image(c, mp),)

    @staticmethod
    def _image(c, mp):
        return type(c)(_perm_word(c.prefix, mp), [_perm_word(p, mp) for p in c.patterns], c.alphabet, c.just_prefix)

    def formal_step(self):
        return "swap the last two letters"

    def forward_map(self, comb_class, obj, children=None):
        return (Word(_perm_word(obj, self._mp(comb_class.alphabet))),)

    def backward_map(self, comb_class, objs, children=None):
        yield Word(_perm_word(objs[0], self._mp(comb_class.alphabet)))

    def __repr__(self):
        return "SwapLastTwo()"

    def __str__(self):
        return self.formal_step()

    @classmethod
    def from_dict(cls, d):
        return cls()


class ExpansionAtomLast(DisjointUnionStrategy[AvoidingWithPrefix, Word]):
    """ExpansionStrategy with the children in the opposite order (one-letter extensions from the last
    letter down, the atom last), so that equivalences and their reverses have a child index > 0.
    Every child but the first is stored with its first two letters exchanged, so that the backward map
    depends on the POSITION of the part (a derived rule that puts the part in the wrong slot is visible)."""

    @staticmethod
    def _mp(alphabet):
        a, b = alphabet[0], alphabet[1]
        return {a: b, b: a}

    def decomposition_function(self, c):
        if c.just_prefix or len(c.alphabet) < 2:
            return None
        kids = [AvoidingWithPrefix(c.prefix + a, c.patterns, c.alphabet) for a in reversed(c.alphabet)]
        kids.append(AvoidingWithPrefix(c.prefix, c.patterns, c.alphabet, True))
        mp = self._mp(c.alphabet)
        return (kids[0],) + tuple(SwapLastTwo._image(k, mp) for k in kids[1:])

    def formal_step(self):
        return "append a letter, or just the prefix (children after the first stored swapped)"

    def forward_map(self, comb_class, obj, children=None):
        k = len(comb_class.alphabet)
        if len(obj) == len(comb_class.prefix):
            idx = k
        else:
            idx = k - 1 - comb_class.alphabet.index(obj[len(comb_class.prefix)])
        img = obj if idx == 0 else Word(_perm_word(obj, self._mp(comb_class.alphabet)))
        return tuple(img if i == idx else None for i in range(k + 1))

    def backward_map(self, comb_class, objs, children=None):
        idx = DisjointUnionStrategy.backward_map_index(objs)
        yield objs[idx] if idx == 0 else Word(_perm_word(objs[idx], self._mp(comb_class.alphabet)))

    def __repr__(self):
        return "ExpansionAtomLast()"

    def __str__(self):
        return self.formal_step()

    @classmethod
    def from_dict(cls, d):
        return cls()


class SplitSafe(CartesianProductStrategy[AvoidingWithPrefix, Word]):
    """like RemoveFrontOfPrefix, but the removable part of the prefix becomes one
    single-letter atom per letter (at most `maxcut`), optionally preceded by the
    atom of the empty word: products with 2..5 children, atoms of size 0 and 1."""

    def __init__(self, maxcut=3, eps=False):
        self.maxcut, self.eps = maxcut, eps
        super().__init__()

    def _cut(self, c):
        safe = RemoveFrontOfPrefix().index_safe_to_remove_up_to(c)
        return min(safe, self.maxcut)

    def decomposition_function(self, c):
        if c.just_prefix:
            return None
        cut = self._cut(c)
        if cut <= 0:
            return None
        kids = [AvoidingWithPrefix(c.prefix[i], c.patterns, c.alphabet, True) for i in range(cut)]
        if self.eps:
            kids.insert(0, AvoidingWithPrefix("", c.patterns, c.alphabet, True))
        kids.append(AvoidingWithPrefix(c.prefix[cut:], c.patterns, c.alphabet))
        return tuple(kids)

    def formal_step(self):
        return "split letters off the prefix"

    def backward_map(self, comb_class, objs, children=None):
        yield Word("".join(objs))

    def forward_map(self, comb_class, obj, children=None):
        cut = self._cut(comb_class)
        parts = [Word(obj[i]) for i in range(cut)]
        if self.eps:
            parts.insert(0, Word(""))
        parts.append(Word(obj[cut:]))
        return tuple(parts)

    def __repr__(self):
        return "SplitSafe(%d, %r)" % (self.maxcut, self.eps)

    def __str__(self):
        return self.formal_step()

    def to_jsonable(self):
        d = super().to_jsonable()
        d["maxcut"], d["eps"] = self.maxcut, self.eps
        return d

    @classmethod
    def from_dict(cls, d):
        return cls(d["maxcut"], d["eps"])


def sorted_class(alphabet):
    """words x1* x2* .. xk* over the sorted alphabet = avoiding every descent yx (y > x)"""
    alph = sorted(alphabet)
    pats = [y + x for i, x in enumerate(alph) for y in alph[i + 1:]]
    return AvoidingWithPrefix("", pats, alph)


def single_letter_class(letter, alphabet):
    return AvoidingWithPrefix("", [x for x in sorted(alphabet) if x != letter], sorted(alphabet))


class SortedSplit(CartesianProductStrategy[AvoidingWithPrefix, Word]):
    """a*b*c* = a* x b* x c*: a product whose factors are all non-atoms of minimum size 0"""

    def decomposition_function(self, c):
        if c.just_prefix or c.prefix or c != sorted_class(c.alphabet) or len(c.alphabet) < 2:
            return None
        return tuple(single_letter_class(x, c.alphabet) for x in c.alphabet)

    def formal_step(self):
        return "split a sorted word into its blocks"

    def backward_map(self, comb_class, objs, children=None):
        yield Word("".join(objs))

    def forward_map(self, comb_class, obj, children=None):
        return tuple(Word(x * obj.count(x)) for x in comb_class.alphabet)

    def __repr__(self):
        return "SortedSplit()"

    def __str__(self):
        return self.formal_step()

    @classmethod
    def from_dict(cls, d):
        return cls()


# ------------------------------------------------------------------ words with statistics
class StatWords(AvoidingWithPrefix):
    """AvoidingWithPrefix + the statistics "number of occurrences of letter x" for x in stats"""

    def __init__(self, prefix, patterns, alphabet, just_prefix=False, stats=()):
        super().__init__(prefix, patterns, alphabet, just_prefix)
        self.stats = tuple(stats)

    @property
    def extra_parameters(self):
        return tuple("k_" + x for x in self.stats)

    def get_parameters(self, obj):
        return tuple(obj.count(x) for x in self.stats)

    def get_minimum_value(self, parameter):
        return self.prefix.count(parameter[2:])

    def possible_parameters(self, n):
        for vals in product(range(n + 1), repeat=len(self.stats)):
            yield dict(zip(self.extra_parameters, vals))

    def objects_of_size(self, size, **parameters):
        for w in super().objects_of_size(size):
            if all(w.count(k[2:]) == v for k, v in parameters.items()):
                yield w

    def with_(self, prefix=None, just_prefix=None, stats=None, patterns=None):
        return StatWords(
            self.prefix if prefix is None else prefix,
            self.patterns if patterns is None else patterns,
            self.alphabet,
            self.just_prefix if just_prefix is None else just_prefix,
            self.stats if stats is None else stats,
        )

    def to_jsonable(self):
        d = super().to_jsonable()
        d["stats"] = list(self.stats)
        return d

    @classmethod
    def from_dict(cls, d):
        return cls(d["prefix"], d["patterns"], d["alphabet"], bool(int(d["just_prefix"])), d["stats"])

    def __eq__(self, other):
        return isinstance(other, StatWords) and super().__eq__(other) and self.stats == other.stats

    def __hash__(self):
        return hash((super().__hash__(), self.stats))

    def __repr__(self):
        return "StatWords(%r, %r, %r, %r, %r)" % (self.prefix, self.patterns, self.alphabet, self.just_prefix, self.stats)

    def __str__(self):
        return super().__str__() + " counting " + ",".join(self.stats)


class StatExpansion(DisjointUnionStrategy[StatWords, Word]):
    """ExpansionStrategy on StatWords.  The atom child drops the statistics
    whose value on the prefix is 0 (the parent parameter then does not map to
    that child and reads as 0)."""

    def decomposition_function(self, c):
        if c.just_prefix:
            return None
        kept = tuple(x for x in c.stats if c.prefix.count(x) > 0)
        kids = [c.with_(just_prefix=True, stats=kept)]
        for a in c.alphabet:
            kids.append(c.with_(prefix=c.prefix + a))
        return tuple(kids)

    def extra_parameters(self, comb_class, children=None):
        if children is None:
            children = self.decomposition_function(comb_class)
        return tuple({k: k for k in child.extra_parameters} for child in children)

    def formal_step(self):
        return "either just the prefix, or append a letter (with statistics)"

    def forward_map(self, comb_class, obj, children=None):
        if children is None:
            children = self.decomposition_function(comb_class)
        if len(obj) == len(comb_class.prefix):
            return (obj,) + tuple(None for _ in children[1:])
        idx = 1 + comb_class.alphabet.index(obj[len(comb_class.prefix)])
        return tuple(obj if i == idx else None for i in range(len(children)))

    def __repr__(self):
        return "StatExpansion()"

    def __str__(self):
        return self.formal_step()

    @classmethod
    def from_dict(cls, d):
        return cls()


class StatRemoveFront(CartesianProductStrategy[StatWords, Word]):
    """RemoveFrontOfPrefix on StatWords: both factors carry every statistic; values add up"""

    def decomposition_function(self, c):
        if c.just_prefix:
            return None
        safe = RemoveFrontOfPrefix().index_safe_to_remove_up_to(c)
        if safe <= 0:
            return None
        return (c.with_(prefix=c.prefix[:safe], just_prefix=True), c.with_(prefix=c.prefix[safe:]))

    def extra_parameters(self, comb_class, children=None):
        if children is None:
            children = self.decomposition_function(comb_class)
        return tuple({k: k for k in child.extra_parameters} for child in children)

    def formal_step(self):
        return "removing redundant prefix (with statistics)"

    def backward_map(self, comb_class, objs, children=None):
        yield Word(objs[0] + objs[1])

    def forward_map(self, comb_class, obj, children=None):
        if children is None:
            children = self.decomposition_function(comb_class)
        k = len(children[0].prefix)
        return Word(obj[:k]), Word(obj[k:])

    def __repr__(self):
        return "StatRemoveFront()"

    def __str__(self):
        return self.formal_step()

    @classmethod
    def from_dict(cls, d):
        return cls()


class StatSwap(SymmetryStrategy[StatWords, Word]):
    """exchange the first two letters; the statistic of a letter becomes that of its image"""

    def decomposition_function(self, c):
        if len(c.alphabet) < 2:
            return None
        a, b = c.alphabet[0], c.alphabet[1]
        mp = {a: b, b: a}
        return (
            StatWords(_perm_word(c.prefix, mp), [_perm_word(p, mp) for p in c.patterns], c.alphabet, c.just_prefix,
                      tuple(sorted(mp.get(x, x) for x in c.stats))),
        )

    def extra_parameters(self, comb_class, children=None):
        a, b = comb_class.alphabet[0], comb_class.alphabet[1]
        mp = {a: b, b: a}
        return ({"k_" + x: "k_" + mp.get(x, x) for x in comb_class.stats},)

    def formal_step(self):
        return "swap the first two letters (with statistics)"

    def forward_map(self, comb_class, obj, children=None):
        a, b = comb_class.alphabet[0], comb_class.alphabet[1]
        return (Word(_perm_word(obj, {a: b, b: a})),)

    def backward_map(self, comb_class, objs, children=None):
        a, b = comb_class.alphabet[0], comb_class.alphabet[1]
        yield Word(_perm_word(objs[0], {a: b, b: a}))

    def __repr__(self):
        return "StatSwap()"

    def __str__(self):
        return self.formal_step()

    @classmethod
    def from_dict(cls, d):
        return cls()


class StatAtom(VerificationStrategy[StatWords, Word]):
    """atoms with parameters (AtomStrategy refuses classes with extra parameters)"""

    def __init__(self):
        super().__init__(ignore_parent=True)

    def verified(self, c):
        return bool(c.is_atom())

    def get_terms(self, c, n):
        return c.get_terms(n)

    def get_objects(self, c, n):
        return c.get_objects(n)

    def pack(self, comb_class):
        raise InvalidOperationError("no pack for atoms")

    def formal_step(self):
        return "is atom (with statistics)"

    def __repr__(self):
        return "StatAtom()"

    def __str__(self):
        return self.formal_step()

    @classmethod
    def from_dict(cls, d):
        return cls()


def stat_pack(sym=False):
    return StrategyPack(
        initial_strats=[StatRemoveFront()],
        inferral_strats=[],
        expansion_strats=[[StatExpansion()]],
        ver_strats=[StatAtom()],
        name="stat" + ("+sym" if sym else ""),
        symmetries=[StatSwap()] if sym else [],
    )


STAT_STARTS = [
    ("", ["ab"], "ab", "a"),
    ("", ["aa", "bb"], "ab", "a"),
    ("", ["aba"], "ab", "ab"),
    ("", ["bb"], "ab", "b"),
    ("", ["abc", "ca"], "abc", "a"),
    ("", ["aa"], "abc", "ac"),
    ("a", ["aba"], "ab", "a"),
    ("ba", ["bb"], "ab", "ab"),
    ("", [], "ab", "a"),
    ("", ["abb", "ba"], "ab", "b"),
]


def stat_start(i):
    p, pats, alph, stats = STAT_STARTS[i]
    return StatWords(p, pats, list(alph), False, tuple(stats))


# ------------------------------------------------------------------ truth
def brute(cls, n):
    """{parameters: sorted codes} of the objects of size n"""
    d = defaultdict(list)
    for w in cls.objects_of_size(n):
        d[tuple(cls.get_parameters(w))].append(enc(w))
    return {k: sorted(v) for k, v in d.items()}


def member(cls, w):
    return w is not None and any(w == x for x in cls.objects_of_size(len(w)))
