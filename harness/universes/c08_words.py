"""
Universe for C08 (parameter-free): the word classes, strategies and pack of
/repo/example.py (imported, not copied) plus ONE more Cartesian-product strategy
whose two factors are both non-atoms, so that real specifications contain product
rules with several compositions of different weights.

SplitAlphabet: if the alphabet splits into G1, G2 (both non-empty) such that every
two-letter word xy with x in G2, y in G1 is a forbidden pattern and every other
pattern lies entirely over G1 or entirely over G2, then (empty prefix)

    Av(patterns) over G1+G2  =  Av(patterns over G1) over G1  x  Av(patterns over G2) over G2

(a word is a G1-block followed by a G2-block).
"""
from itertools import combinations

from comb_spec_searcher import AtomStrategy, CartesianProductStrategy, CombinatorialSpecificationSearcher, StrategyPack
from example import AvoidingWithPrefix, ExpansionStrategy, RemoveFrontOfPrefix, Word


def alphabet_split(c):
    """(G1, G2, P1, P2) or None"""
    if c.just_prefix or c.prefix or len(c.alphabet) < 2:
        return None
    pats = set(map(str, c.patterns))
    letters = list(c.alphabet)
    for k in range(1, len(letters)):
        for g1 in combinations(letters, k):
            g2 = tuple(x for x in letters if x not in g1)
            cross = {x + y for x in g2 for y in g1}
            if not cross <= pats:
                continue
            rest = pats - cross
            p1 = sorted(p for p in rest if all(ch in g1 for ch in p))
            p2 = sorted(p for p in rest if all(ch in g2 for ch in p))
            if len(p1) + len(p2) != len(rest):
                continue
            return g1, g2, p1, p2
    return None


class SplitAlphabet(CartesianProductStrategy):
    def decomposition_function(self, c):
        s = alphabet_split(c)
        if s is None:
            return None
        g1, g2, p1, p2 = s
        return (self.child(c, p1, g1), self.child(c, p2, g2))

    @staticmethod
    def child(c, pats, alph):
        return AvoidingWithPrefix("", pats, list(alph))

    def formal_step(self):
        return "a block over the first letters, then a block over the others"

    def backward_map(self, comb_class, words, children=None):
        yield Word(words[0] + words[1])

    def forward_map(self, comb_class, word, children=None):
        if children is None:
            children = self.decomposition_function(comb_class)
        g2 = children[1].alphabet
        cut = next((i for i, ch in enumerate(word) if ch in g2), len(word))
        return Word(word[:cut]), Word(word[cut:])

    @classmethod
    def from_dict(cls, d):
        return cls()

    def __repr__(self):
        return type(self).__name__ + "()"

    def __str__(self):
        return self.formal_step()


pack = StrategyPack(
    initial_strats=[RemoveFrontOfPrefix(), SplitAlphabet()],
    inferral_strats=[],
    expansion_strats=[[ExpansionStrategy()]],
    ver_strats=[AtomStrategy()],
    name="example.py's pack + SplitAlphabet",
)


def word_spec(prefix, patterns, alphabet):
    start = AvoidingWithPrefix(prefix, patterns, list(alphabet))
    return CombinatorialSpecificationSearcher(start, pack).auto_search()
