"""
Fingerprints of the source files each property is anchored in (properties.jsonl, anchors.files).

A fingerprint is the SHA-1 of the file's AST with docstrings removed (so comments, blank lines and
formatting do not count).  `python -m harness.sourcehash --record` stores the fingerprints of /repo's
current tree in harness/source_hashes.json (done whenever a fix: commit lands in /repo and the
models have been brought in line with it).  At run time `changed_files(pid)` lists the anchored files
whose fingerprint differs from the recorded one: the code the hand-written model transcribes has been
edited since the model was last compared with it.  That is NOT a violation — the run then explores
three times as many cases (more chances for the correspondence / the oracle to meet the input a
subtle change needs) and says so in the evidence.
"""
import ast
import hashlib
import json
import os
import sys

from harness import core

RECORD = os.path.join(core.VERIF, "harness", "source_hashes.json")


def _strip_docstrings(tree):
    for node in ast.walk(tree):
        if isinstance(node, (ast.FunctionDef, ast.AsyncFunctionDef, ast.ClassDef, ast.Module)):
            body = node.body
            if body and isinstance(body[0], ast.Expr) and isinstance(getattr(body[0], "value", None), ast.Constant) \
                    and isinstance(body[0].value.value, str):
                node.body = body[1:] or [ast.Pass()]
    return tree


def fingerprint(path):
    try:
        with open(path) as f:
            tree = _strip_docstrings(ast.parse(f.read()))
    except (OSError, SyntaxError) as ex:
        return "unreadable:%s" % type(ex).__name__
    return hashlib.sha1(ast.dump(tree, include_attributes=False).encode()).hexdigest()


def anchors():
    out = {}
    with open(os.path.join(core.VERIF, "properties.jsonl")) as f:
        for line in f:
            line = line.strip()
            if line:
                p = json.loads(line)
                out[p["id"]] = list(p.get("anchors", {}).get("files", []))
    return out


def current(files, repo=None):
    repo = repo or core.REPO
    return {f: fingerprint(os.path.join(repo, f)) for f in files}


def recorded():
    try:
        with open(RECORD) as f:
            return json.load(f)
    except (OSError, ValueError):
        return {}


def changed_files(pid):
    files = anchors().get(pid, [])
    rec = recorded()
    cur = current(files)
    return sorted(f for f in files if rec.get(f) != cur[f])


def main():
    if "--record" in sys.argv:
        files = sorted({f for fs in anchors().values() for f in fs})
        with open(RECORD, "w") as f:
            json.dump(current(files, "/repo"), f, indent=1, sort_keys=True)
        print("recorded %d files" % len(files))
    else:
        for pid in sorted(anchors()):
            print(pid, changed_files(pid) or "unchanged")


if __name__ == "__main__":
    main()
