import argparse
import os
import sys

from harness import core


def main():
    ap = argparse.ArgumentParser()
    ap.add_argument("prop", nargs="?")
    ap.add_argument("--setup", action="store_true")
    ap.add_argument("--tier", default=os.environ.get("VERIF_TIER", "quick"))
    ap.add_argument("--replay")
    ap.add_argument("--n", type=int)
    a = ap.parse_args()
    if os.environ.get("VERIF_TIER") in ("quick", "thorough"):
        a.tier = os.environ["VERIF_TIER"]
    seed = int(os.environ.get("VERIF_SEED", "0") or 0)
    if a.setup:
        try:
            from harness import translate

            st = translate.regenerate(None)
            print("translator:", "ok" if st["ok"] else st["log"])
        except ImportError:
            pass
        ok, out = core.coq_make(None)
        print(out[-3000:])
        print("setup:", "ok" if ok else "FAILED")
        sys.exit(0 if ok else 1)
    if not a.prop:
        ap.error("property id required")
    mod = "harness.props." + a.prop.lower()
    sys.exit(core.run_property(mod, a.tier, seed, replay=a.replay, n_override=a.n))


if __name__ == "__main__":
    main()
