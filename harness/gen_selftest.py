"""
Validation of the translator on the targets a property uses (DESIGN.md 3.1):
every run evaluates each GENERATED definition inside Coq (`vm_compute`) and the
SOURCE function it was translated from on the same few hundred random
arguments and compares the results.

    checks(targets, seed, tag) -> [(name, ok, detail)]      (for a plugin's extra_checks)

A target's entry in SELFTESTS gives
    module   Gen/<module>.v
    ty       Gallina type of the result
    gen      rng -> arguments (JSON-able Python values)
    py       arguments -> result of the source function (Python value)
    coq      arguments -> Gallina term applying the generated definition
    show     Python result -> Gallina term of type `ty`
The comparison is one `Goal <term> = <expected>. vm_compute. reflexivity.` per
argument tuple in one coqc run; the first goal that fails names the failing
input.  The translator is thereby checked against the code it translates, not
trusted; a disagreement is reported as a violation with the failing input.
"""
import os
import random
import re

from harness import core, translate


# ------------------------------------------------------------------ Gallina literals
def z(n):
    return "%d" % n if n >= 0 else "(%d)" % n


def zs(l):
    return "[" + "; ".join(z(x) for x in l) + "]"


def zss(l):
    return "[" + "; ".join(zs(x) for x in l) + "]"


def oz(v):
    return "None" if v is None else "(Some %s)" % z(v)


def ozs(l):
    return "[" + "; ".join("None" if v is None else "Some %s" % z(v) for v in l) + "]"


def b(v):
    return "true" if v else "false"


def pairs(l, f=z):
    return "[" + "; ".join("(%s, %s)" % (z(k), f(v)) for k, v in l) + "]"


def opt(f):
    return lambda v: "None" if v is None else "(Some %s)" % f(v)


def guard_assert(fn):
    def run(args):
        try:
            return fn(args)
        except AssertionError:
            return None

    return run


# ------------------------------------------------------------------ per-target tests
def _gen_param_map(rng):
    k = rng.randint(0, 4)                         # child parameters
    num = rng.randint(0, 4)                       # parent parameters
    pm = [[rng.randrange(num) for _ in range(rng.choice([0, 1, 1, 1, 2, 3]))] if num else [] for _ in range(k)]
    if rng.random() < 0.5:
        # no parent position hit twice (the shape _build_children_param_map gives)
        seen, pm2 = set(), []
        for ps in pm:
            row = [p for p in ps if p not in seen and not seen.add(p)]
            pm2.append(row)
        pm = pm2
    param = [rng.choice([0, 0, 1, 2, 3, 5]) for _ in range(rng.randint(0, k))]
    return [pm, num, param]


def _gen_param_map_total(rng):
    """as above, but mostly maps in which every parent position is hit (Quotient.param_map
    asserts that) by child parameters that are present"""
    if rng.random() < 0.3:
        return _gen_param_map(rng)
    num = rng.randint(0, 4)
    k = rng.randint(1 if num else 0, 4)
    pm = [[] for _ in range(k)]
    for p in range(num):
        pm[rng.randrange(k)].append(p)
        if rng.random() < 0.2:
            pm[rng.randrange(k)].append(p)          # hit twice: equal values pass, different ones assert
    param = [rng.choice([0, 1, 1, 2, 3]) for _ in range(k)]
    return [pm, num, param]


def _py_constructor_param_map(a):
    from comb_spec_searcher.strategies.constructor.base import Constructor

    return list(Constructor.param_map(tuple(map(tuple, a[0])), a[1], tuple(a[2])))


def _py_union_param_map(a):
    from comb_spec_searcher.strategies.constructor.disjoint import DisjointUnion

    return list(DisjointUnion.param_map(tuple(map(tuple, a[0])), a[1], tuple(a[2])))


def _py_quotient_param_map(a):
    from comb_spec_searcher.strategies.constructor.cartesian import Quotient

    return list(Quotient.param_map(tuple(map(tuple, a[0])), a[1], tuple(a[2])))


# ---- located expressions (t_local): the expression itself is evaluated by Python in an
#      environment that supplies what it reads
def _eval_located(target, env):
    translate.translate_target(target)                     # (re)locates the expression in the current source
    loc = translate.LOCATED[translate.TARGETS[target]["name"]]
    env = dict(env)
    for name, text in loc["lets"]:
        env[name] = eval(text, {}, env)                     # pylint: disable=eval-used
    # a generator expression / comprehension sees `env` only as globals
    return eval(loc["expr"], env)                           # pylint: disable=eval-used


class _Stub:
    def __init__(self, **kw):
        self.__dict__.update(kw)


def _labels(rng, lo=0, hi=7):
    return rng.sample(range(lo, hi + 1), rng.randint(0, hi - lo + 1))


def _gen_can_do(rng):
    return [[rng.randint(0, 5) for _ in range(rng.choice([0, 0, 1, 2, 3]))], _labels(rng), rng.randint(0, 8)]


def _py_can_do(method, strat_attr, set_attr):
    def run(a):
        from comb_spec_searcher.class_queue import DefaultQueue

        stub = _Stub(**{strat_attr: tuple(a[0]), set_attr: set(a[1])})
        return bool(getattr(DefaultQueue, method)(stub, a[2]))

    return run


def _gen_counter(rng):
    labs = _labels(rng, 0, 9)
    return [[[l, rng.choice([1, 1, 1, 2, 2, 3, 5])] for l in labs]]


def _py_change_level_order(a):
    from collections import Counter, deque

    from comb_spec_searcher.class_queue import DefaultQueue

    c = Counter()
    for l, n in a[0]:
        c[l] = n                                           # insertion order = order of first occurrence
    stub = _Stub(staging=deque(), working=deque(), curr_level=(deque(), deque()), next_level=c, queue_sizes=[])
    try:
        DefaultQueue._change_level(stub)                   # pylint: disable=protected-access
    except StopIteration:
        pass
    return list(stub.curr_level[0])


def _gen_rdict_rule(rng):
    keys = _labels(rng)
    d = [[k, [[rng.randint(0, 7) for _ in range(rng.randint(0, 3))] for _ in range(rng.randint(0, 2))]] for k in keys]
    pool = keys + keys + list(range(8)) if keys else list(range(8))
    return [d, [rng.choice(pool) for _ in range(rng.randint(0, 4))]]


def _gen_verified_rule(rng):
    v = _labels(rng)
    pool = v + v + v + list(range(8)) if v else list(range(8))
    return [v, [rng.choice(pool) for _ in range(rng.randint(0, 4))]]


def _gen_heaviest(rng):
    labs = rng.sample(range(10), rng.randint(2, 6))
    w = [[l, rng.choice([1, 1, 2, 2, 3, 4])] for l in labs]
    ra = rng.choice(labs)
    rb = rng.choice(labs) if rng.random() < 0.8 else ra
    return [w, ra, rb]


def _py_heaviest(a):
    class DB:
        weights = dict(map(tuple, a[0]))

        def __getitem__(self, key):
            return {"L": a[1], "O": a[2]}[key]

    return _eval_located("equiv_heaviest", {"self": DB(), "label": "L", "other_label": "O"})


def _py_new_gap(a):
    stub = _Stub(_gap_size=a[1], _function=_Stub(preimage_gap=lambda g: a[0]))
    return list(_eval_located("correct_gap_new_gap", {"self": stub}))


def _py_minimize_order(_a):
    from comb_spec_searcher.rule_db.forest import ForestRuleExtractor
    from comb_spec_searcher.typing import RuleBucket

    numbering = [RuleBucket.REVERSE, RuleBucket.NORMAL, RuleBucket.EQUIV, RuleBucket.VERIFICATION]
    return [numbering.index(x) for x in ForestRuleExtractor.MINIMIZE_ORDER]


# ---- CartesianProduct.reliance_profile / _valid_compositions: dictionaries keyed by parameter
#      names; the name at position i of parent_parameters ("n" first) is the integer key i
def _gen_product(rng):
    nx = rng.choice([0, 0, 1, 1, 2])
    kids = rng.randint(1, 3)
    mins = [[rng.choice([0, 0, 1, 2]) if j == 0 else rng.choice([0, 0, 0, 1]) for j in range(nx + 1)] for _ in range(kids)]
    maxs = [[(m + rng.choice([0, 0, 1, 2])) if rng.random() < 0.45 else None for m in row] for row in mins]
    pmins = [sum(row[j] for row in mins) for j in range(nx + 1)]
    if rng.random() < 0.15:
        pmins[rng.randrange(nx + 1)] += rng.choice([-1, 1])
    P = [pmins[j] + rng.choice([0, 0, 1, 2, 3] if j == 0 else [0, 0, 1, 2]) for j in range(nx + 1)]
    if rng.random() < 0.1:
        P[rng.randrange(nx + 1)] -= 1
    order = list(range(1, nx + 1))
    rng.shuffle(order)
    return [nx, pmins, mins, maxs, P, order]


def _product_stub(a):
    from comb_spec_searcher.strategies.constructor.cartesian import CartesianProduct

    nx, pmins, mins, maxs, P, order = a
    names = ["n"] + ["k%d" % i for i in range(1, nx + 1)]
    stub = _Stub(
        minimum_sizes=dict(zip(names, pmins)),
        min_child_sizes=tuple(dict(zip(names, m)) for m in mins),
        max_child_sizes=tuple({nm: v for nm, v in zip(names, mx) if v is not None} for mx in maxs),
        parent_parameters=tuple(names),
    )
    stub.reliance_profile = lambda n, **kw: CartesianProduct.reliance_profile(stub, n, **kw)
    kwargs = {names[i]: P[i] for i in order}
    key = {nm: i for i, nm in enumerate(names)}
    return stub, kwargs, key


def _py_reliance_profile(a):
    stub, kwargs, key = _product_stub(a)
    prof = stub.reliance_profile(a[4][0], **kwargs)
    return [[[key[k], list(v)] for k, v in d.items()] for d in prof]


def _py_valid_compositions(a):
    from comb_spec_searcher.strategies.constructor.cartesian import CartesianProduct

    stub, kwargs, key = _product_stub(a)
    comps = list(CartesianProduct._valid_compositions(stub, a[4][0], **kwargs))   # pylint: disable=protected-access
    return [[[[key[k], v] for k, v in d.items()] for d in comp] for comp in comps]


def _coq_product_dicts(a):
    nx, pmins, mins, maxs, P, order = a
    keys = list(range(nx + 1))
    minimum = pairs(list(zip(keys, pmins)))
    mind = "[" + "; ".join(pairs(list(zip(keys, m))) for m in mins) + "]"
    maxd = "[" + "; ".join(pairs([(k, v) for k, v in zip(keys, mx) if v is not None]) for mx in maxs) + "]"
    params = pairs([(i, P[i]) for i in order])
    return keys, minimum, mind, maxd, params


def _coq_reliance_profile(a):
    _, minimum, mind, maxd, params = _coq_product_dicts(a)
    return "product_reliance_profile %s %s %s %s %s" % (minimum, mind, maxd, z(a[4][0]), params)


def _show_profile(prof):
    return "[" + "; ".join(pairs(d, zs) for d in prof) + "]"


def _coq_valid_compositions(a):
    keys, _, _, _, params = _coq_product_dicts(a)
    return "valid_compositions %s %s %s %s" % (zs(keys), _show_profile(_py_reliance_profile(a)), z(a[4][0]), params)


def _gen_dict(rng, keys=range(0, 8), vals=range(0, 8)):
    ks = rng.sample(list(keys), rng.randint(0, 5))
    return [[k, rng.choice(list(vals))] for k in ks]


def _items(d):
    return [[k, v] for k, v in d.items()]


def _py_min_max_sizes(which):
    def run(a):
        from comb_spec_searcher.strategies.constructor.cartesian import CartesianProduct

        stub, _, _ = _product_stub(a)
        return list(getattr(CartesianProduct, which).fget(stub))

    return run


SELFTESTS = {
    "product_min_sizes": dict(
        module="ProductMinSizes", ty="list Z", gen=_gen_product, py=_py_min_max_sizes("min_sizes"),
        coq=lambda a: "product_min_sizes %s" % _coq_product_dicts(a)[2], show=zs, n=150,
    ),
    "product_max_sizes": dict(
        module="ProductMaxSizes", ty="list (option Z)", gen=_gen_product, py=_py_min_max_sizes("max_sizes"),
        coq=lambda a: "product_max_sizes %s" % _coq_product_dicts(a)[3], show=ozs, n=150,
    ),
    "path_dict_initial": dict(
        module="PathDictInitial", ty="list (Z * Z)", gen=lambda rng: [_labels(rng)],
        py=lambda a: _items(_eval_located("path_dict_initial", {"self": _Stub(comb_class=_Stub(extra_parameters=tuple(a[0])))})),
        coq=lambda a: "path_dict_initial %s" % zs(a[0]), show=pairs, n=100,
    ),
    "path_dict_compose": dict(
        module="PathDictCompose", ty="list (Z * Z)", gen=lambda rng: [_gen_dict(rng), _gen_dict(rng)],
        py=lambda a: _items(_eval_located("path_dict_compose", {
            "extra_parameters": dict(map(tuple, a[0])), "rules_parameters": dict(map(tuple, a[1]))})),
        coq=lambda a: "path_dict_compose %s %s" % (pairs(a[0]), pairs(a[1])), show=pairs,
    ),
    "path_dict_invert": dict(
        module="PathDictInvert", ty="list (Z * Z)", gen=lambda rng: [_gen_dict(rng)],
        py=lambda a: _items(_eval_located("path_dict_invert", {"rules_parameters": dict(map(tuple, a[0]))})),
        coq=lambda a: "path_dict_invert %s" % pairs(a[0]), show=pairs,
    ),
    "path_dict_duplicates": dict(
        module="PathDictDuplicates", ty="bool", gen=lambda rng: [_gen_dict(rng, vals=range(0, 5))],
        py=lambda a: bool(_eval_located("path_dict_duplicates", {"rules_parameters": dict(map(tuple, a[0]))})),
        coq=lambda a: "path_dict_duplicates %s" % pairs(a[0]), show=b,
    ),
    "product_reliance_profile": dict(
        module="ProductRelianceProfile", ty="list (list (Z * list Z))", gen=_gen_product, py=_py_reliance_profile,
        coq=_coq_reliance_profile, show=_show_profile,
    ),
    "product_valid_compositions": dict(
        module="ProductValidCompositions", ty="list (list (list (Z * Z)))", gen=_gen_product, py=_py_valid_compositions,
        coq=_coq_valid_compositions,
        show=lambda comps: "[" + "; ".join("[" + "; ".join(pairs(d) for d in comp) + "]" for comp in comps) + "]",
    ),
    "queue_can_do_inferral": dict(
        module="QueueCanDoInferral", ty="bool", gen=_gen_can_do,
        py=_py_can_do("can_do_inferral", "inferral_strategies", "_inferral_expanded"),
        coq=lambda a: "can_do_inferral %s %s %s" % (zs(a[0]), zs(a[1]), z(a[2])), show=b,
    ),
    "queue_can_do_initial": dict(
        module="QueueCanDoInitial", ty="bool", gen=_gen_can_do,
        py=_py_can_do("can_do_initial", "initial_strategies", "_initial_expanded"),
        coq=lambda a: "can_do_initial %s %s %s" % (zs(a[0]), zs(a[1]), z(a[2])), show=b,
    ),
    "queue_change_level_order": dict(
        module="QueueChangeLevelOrder", ty="list Z", gen=_gen_counter, py=_py_change_level_order,
        coq=lambda a: "change_level_order %s" % pairs(a[0]), show=zs,
    ),
    "prune_rule_test": dict(
        module="TreePruneRuleTest", ty="bool", gen=_gen_rdict_rule,
        py=lambda a: bool(_eval_located("prune_rule_test", {
            "rdict": {k: set(map(tuple, rs)) for k, rs in a[0]}, "rule": tuple(a[1])})),
        coq=lambda a: "prune_rule_test %s %s" % (pairs(a[0], zss), zs(a[1])), show=b,
    ),
    "iterative_prune_rule_test": dict(
        module="TreeIterativePruneRuleTest", ty="bool", gen=_gen_verified_rule,
        py=lambda a: bool(_eval_located("iterative_prune_rule_test", {"verified_labels": set(a[0]), "rule": tuple(a[1])})),
        coq=lambda a: "iterative_prune_rule_test %s %s" % (zs(a[0]), zs(a[1])), show=b,
    ),
    "iterative_finder_rule_test": dict(
        module="TreeIterativeFinderRuleTest", ty="bool", gen=_gen_verified_rule,
        py=lambda a: bool(_eval_located("iterative_finder_rule_test", {"verified_labels": set(a[0]), "rule": tuple(a[1])})),
        coq=lambda a: "iterative_finder_rule_test %s %s" % (zs(a[0]), zs(a[1])), show=b,
    ),
    "equiv_heaviest": dict(
        module="EquivHeaviest", ty="Z", gen=_gen_heaviest, py=_py_heaviest,
        coq=lambda a: "equiv_heaviest %s %s %s" % (pairs(a[0]), z(a[1]), z(a[2])), show=z,
    ),
    "increase_value_hold": dict(
        module="ForestIncreaseValueHold", ty="bool", gen=lambda rng: [rng.randint(0, 9), rng.randint(-1, 9)],
        py=lambda a: bool(_eval_located("increase_value_hold", {
            "current_value": a[0], "self": _Stub(_current_gap=(a[1] - 2, a[1]))})),
        coq=lambda a: "increase_value_hold %s %s" % (z(a[0]), z(a[1])), show=b, n=100,
    ),
    "correct_gap_new_gap": dict(
        module="ForestCorrectGapNewGap", ty="list Z", gen=lambda rng: [rng.randint(0, 12), rng.randint(1, 6)],
        py=_py_new_gap, coq=lambda a: "correct_gap_new_gap %s %s" % (z(a[0]), z(a[1])), show=zs, n=100,
    ),
    "correct_gap_release": dict(
        module="ForestCorrectGapRelease", ty="bool",
        gen=lambda rng: [[rng.randint(0, 9), rng.randint(0, 9)], rng.randint(0, 9)],
        py=lambda a: bool(_eval_located("correct_gap_release", {
            "new_gap": tuple(a[0]), "self": _Stub(_current_gap=(0, a[1]))})),
        coq=lambda a: "correct_gap_release %s %s" % (zs(a[0]), z(a[1])), show=b, n=100,
    ),
    "minimize_order": dict(
        module="ForestMinimizeOrder", ty="list Z", gen=lambda rng: [], py=_py_minimize_order,
        coq=lambda a: "minimize_order", show=zs, n=1,
    ),
    "constructor_param_map": dict(
        module="ConstructorParamMap", ty="list Z", gen=_gen_param_map, py=_py_constructor_param_map,
        coq=lambda a: "constructor_param_map %s %s %s" % (zss(a[0]), z(a[1]), zs(a[2])), show=zs,
    ),
    "union_param_map": dict(
        module="UnionParamMap", ty="option (list Z)", gen=_gen_param_map, py=guard_assert(_py_union_param_map),
        coq=lambda a: "union_param_map %s %s %s" % (zss(a[0]), z(a[1]), zs(a[2])), show=opt(zs),
    ),
    "quotient_param_map": dict(
        module="QuotientParamMap", ty="option (list Z)", gen=_gen_param_map_total, py=guard_assert(_py_quotient_param_map),
        coq=lambda a: "quotient_param_map %s %s %s" % (zss(a[0]), z(a[1]), zs(a[2])), show=opt(zs),
    ),
}

N_INPUTS = 300


def _one(target, seed, tag):
    spec = SELFTESTS[target]
    translate.translate_target(target)      # Unsupported: the tie is already reported broken (see checks)
    rng = random.Random("%s/%s" % (seed, target))
    n = spec.get("n", N_INPUTS)
    inputs = [spec["gen"](rng) for _ in range(n)]
    results = []
    for a in inputs:
        try:
            results.append(spec["py"](a))
        except Exception as ex:  # pylint: disable=broad-except
            return False, "failing input: the source function %s raised %s: %s on arguments %r" % (
                translate.TARGETS[target]["qual"], type(ex).__name__, ex, a)
    head = (
        "From Coq Require Import ZArith List Bool.\n"
        "From CSS Require Import Gen.Prelude Gen.%s.\n"
        "Import ListNotations.\nOpen Scope Z_scope.\n" % spec["module"]
    )
    lines = []
    for a, r in zip(inputs, results):
        lines.append("Goal (%s) = (%s : %s). Proof. vm_compute. reflexivity. Qed." % (spec["coq"](a), spec["show"](r), spec["ty"]))
    wd = os.path.join(core.WORK, "gen_selftest")
    os.makedirs(wd, exist_ok=True)
    name = "T_%s_%s" % (re.sub(r"\W", "_", tag), target)
    path = os.path.join(wd, name + ".v")
    with open(path, "w") as f:
        f.write(head + "\n".join(lines) + "\n")
    vo = os.path.join(translate.GEN_DIR, spec["module"] + ".vo")
    if not os.path.exists(vo) or os.path.getmtime(vo) < os.path.getmtime(vo[:-1]):
        ok, out = core.coq_make(["theories/Gen/%s.vo" % spec["module"]])
        if not ok:
            return False, "Gen/%s.v does not compile: %s" % (spec["module"], out[-300:])
    with core.Lock("coq"):
        rc, out = core.sh("timeout 300 coqc -Q %s CSS %s" % (core.THEORIES, path), cwd=wd, timeout=330)
    if rc == 0:
        return True, "%d inputs, generated definition = source function on all" % n
    m = re.search(r'line (\d+), characters', out)
    if m:
        i = int(m.group(1)) - head.count("\n") - 1
        if 0 <= i < n:
            return False, (
                "failing input: %s%r gives %r in the source, but the generated definition Gen/%s.v evaluates "
                "differently (translator or Prelude wrong for this input)" % (
                    translate.TARGETS[target]["qual"], tuple(inputs[i]), results[i], spec["module"]))
    return False, "coqc failed on the self-test file %s: %s" % (path, out[-400:])


def checks(targets, seed, tag):
    """(name, ok, detail) triples for the targets that have a self-test here"""
    out = []
    for t in targets:
        if t not in SELFTESTS:
            continue
        try:
            ok, detail = _one(t, seed, tag)
        except translate.Unsupported as ex:
            # already reported by the run as a broken tie (proofs BROKEN: translator failed closed)
            ok, detail = True, "NOT RUN: the translator failed closed on the current source (%s)" % ex
        out.append(("translator self-test: Gen/%s.v = %s on random arguments" % (
            SELFTESTS[t]["module"], translate.TARGETS[t]["qual"]), ok, detail))
    return out


def rejects(snippets):
    """fail-closed check: every (target, source text, what) must be rejected"""
    wrong = []
    for target, source, what in snippets:
        try:
            translate.translate_target(target, source)
            wrong.append(what)
        except (translate.Unsupported, SyntaxError):
            pass
    return ("translator rejects unsupported source (%d snippets)" % len(snippets), not wrong,
            "accepted: %s" % wrong if wrong else "all rejected")


if __name__ == "__main__":
    import sys

    bad = 0
    for nm, ok_, det in checks(sys.argv[1:] or list(SELFTESTS), int(os.environ.get("VERIF_SEED", "0") or 0), "cli"):
        print("%s  %s  %s" % ("ok  " if ok_ else "FAIL", nm, det))
        bad += not ok_
    sys.exit(1 if bad else 0)
