"""Regenerates MANIFEST.json from the plugins that exist (python -m harness.manifest)."""
import importlib
import json
import os

from harness import core

ALL = ["C%02d" % i for i in range(1, 21)]
PENDING_REASON = (
    "no check registered yet: the Coq model/theorems and correspondence for this property "
    "are not finished (see DESIGN.md section 5 for the planned proof); not claimed until they are"
)
BASELINE = "cd /repo && /venv/bin/python -m pytest -ra -q -p no:cacheprovider --timeout=900 --continue-on-collection-errors"


def main():
    checks, na = [], []
    for pid in ALL:
        try:
            m = importlib.import_module("harness.props." + pid.lower())
        except ImportError:
            na.append({"property_id": pid, "reason": PENDING_REASON})
            continue
        if getattr(m, "NOT_APPLICABLE", None):
            na.append({"property_id": pid, "reason": m.NOT_APPLICABLE})
            continue
        checks.append(
            {
                "property_id": pid,
                "quick_cmd": "./check %s --tier quick" % pid,
                "thorough_cmd": "./check %s --tier thorough" % pid,
                "evidence_file": "/verif/evidence/%s.json" % pid,
                "replay_cmd_template": "./check %s --replay {path}" % pid,
                "engine": "coq-proof+correspondence",
                "level_claimed": {
                    "category": "proof",
                    "text": m.LEVEL_TEXT,
                    "design_ref": "DESIGN.md section 5, " + pid,
                },
                "level_note": m.LEVEL_NOTE,
                "technique": m.TECHNIQUE,
            }
        )
    man = {
        "version": 1,
        "setup_cmd": "./check --setup",
        "hooks": {
            "guard": "COMB_SPEC_SEARCHER_VERIF",
            "enable": "no source hook is needed: the harness imports the package from /repo, subclasses and wraps it; ./check exports COMB_SPEC_SEARCHER_VERIF=1 for uniformity",
            "baseline_off_cmd": BASELINE,
            "source_commits": [],
            "add_only": True,
        },
        "engines": [
            {
                "name": "coq-proof+correspondence",
                "path": "/verif/check",
                "serves_properties": [c["property_id"] for c in checks],
                "kind_free_text": "Coq 8.16.1 theorems over Gallina models (coq/theories), models extracted to OCaml and compared with the implementation imported from /repo on generated histories (harness/), independent property oracles for the violation search",
            }
        ],
        "checks": checks,
        "not_applicable": na,
        "notes": "Genuine defects of /repo repaired by fix: commits and the open known findings are listed in known_findings.json and in DESIGN.md section 10.3; seeded changes and which check catches them: seeded/<id>/meta.json and DESIGN.md section 10.4; COVERAGE.md lists which functions are inside the formal development.",
    }
    with open(os.path.join(core.VERIF, "MANIFEST.json"), "w") as f:
        json.dump(man, f, indent=1)
    print("claimed:", [c["property_id"] for c in checks])


if __name__ == "__main__":
    main()
