"""
Fail-closed Python-`ast` -> Gallina translator (DESIGN.md section 3.1).

    regenerate(targets_or_None) -> {"ok": bool, "log": str}

On every call the CURRENT source files under `harness.core.REPO` (honours
VERIF_REPO) are re-read, the target functions are located BY QUALIFIED NAME
and translated; `coq/theories/Gen/<Name>.v` is rewritten only when its text
changed (so hand-written theories recompile only when the arithmetic changed).
Anything outside the small supported subset raises `Unsupported`, the target
is reported failed and `ok` is False (the tie is then reported broken by
harness/core.py).  Nothing is ever guessed.

Supported subset (purely functional, over Z / bool / list / option Z):

  statements   `x = e` (single Name target), `return e`, bare `return` and
               `yield e` / `yield from map(f, <recursive call>)` in generators,
               `assert c` in generators (-> py_assert: an assertion failure
               truncates the output; Python raises instead — excluded by the
               hand-written theorems' completeness direction and by the
               self-test), `if c: ... [else: ...]`, `for i in range(a, b):` whose
               body only yields (-> flat_map), glue statements listed verbatim
               in the target's `skip`.
  expressions  int constants, None, names, + - * (Z; + also list ++), unary -,
               not/and/or, single comparisons, `is None` / `is not None`,
               conditional expressions, tuple displays (homogeneous -> list),
               generator expressions / list comprehensions with ONE `for`
               (over a sequence, enumerate(..), range(..)) and `if` filters,
               tuple/sum/all/any/len/enumerate/range/min/max/abs/cast,
               `xs[e]`, `xs[c:]` (c a non-negative literal), `(i,).__add__`,
               the method calls `c.minimum_size_of_object()` / `c.is_atom()` on
               a class descriptor (a pair (min size, is_atom)).

Extensions of session 5 (DESIGN.md 10.9), all fail closed:

  dictionaries with INTEGER keys (parameter names, labels) = insertion-ordered
  association lists `list (Z * V)`: `d[k]` (py_dget, KeyError -> default, outside the
  preconditions), `k in d`, `d.get(k, None)` (py_dfind), `.items()/.values()/.keys()`,
  iteration over a dictionary (= its keys), `{k: v for ...}` and `dict(pairs)` built by
  successive `d[k] = v` (py_dict_of: a repeated key keeps its first position and last
  value), `{**d}`; string constants only where the target maps them to integer keys.
  `x in xs` / `not in`; `bool(xs)`; truthiness of tuples inside all()/any(); chained
  arithmetic comparisons (opt-in per target); `sorted(xs, key=lambda x: e)` (stable);
  min/max of one sequence, max of tuples (lexicographic, first maximal element wins);
  `set(xs)`; `itertools.product(*[...])`; `p[0]` / `p[1]` on pairs; empty displays
  unified with the other branch / operand.
  kinds  t_imperative         locals, `xs[i] = e`, `xs[i] += e`, `d[k] = e`, nested `for`
                              (-> fold_left over the variables the loop assigns, which must
                              exist before it), `if` (-> the variables either branch
                              assigns), `assert` (-> flag ok_, result option), final return
         t_closure_generator  a generator defining ONE nested recursive generator closed over
                              attributes of self (`**kwargs`, recursive call with `**d`)
         t_local              ONE expression of a stateful method, located structurally
                              (see its docstring); the control flow around it is NOT tied
         t_classconst         a class-level constant tuple of enumeration members

An option-typed expression may be used as an integer only where Python's
control flow has just established `is not None` for the textually identical
expression (right operand of `X is None or ...`, of `X is not None and ...`,
the matching branch of a conditional expression); it is then emitted as
`py_unopt X`.  `cast(Tuple[int, ...], xs)` on a list of options is emitted as
`map py_unopt xs` (Python would raise TypeError on a None; the code only
evaluates it behind `all(s is not None ...) and`, and Coq's `&&` is pure).

Indexing is total in Gallina: `py_get default xs i` wraps negative indices
like Python and returns the default where Python raises IndexError.  Every
theorem states the in-range precondition; the harness checks ranges itself.
"""
import ast
import os
import re
import textwrap

from harness import core

GEN_DIR = os.path.join(core.THEORIES, "Gen")


class Unsupported(Exception):
    pass


# ------------------------------------------------------------------ types
Z = "Z"
BOOL = "bool"
CLS = "cls"          # class descriptor: (minimum_size_of_object, is_atom)
NONE = "none"        # the literal None before unification


def TList(t):
    return ("list", t)


def TOpt(t):
    return ("option", t)


def TProd(a, b):
    return ("prod", a, b)


def TDict(v):
    """dict with integer keys (parameter names, labels): an insertion-ordered
    association list `list (Z * V)`"""
    return ("dict", v)


EMPTY = ("list", None)   # the empty display `()` / `[]` before unification


def is_list(t):
    return isinstance(t, tuple) and t[0] == "list"


def is_dict(t):
    return isinstance(t, tuple) and t[0] == "dict"


def unify(a, b):
    """least common type of two branch types (only EMPTY is flexible)"""
    if a == b:
        return a
    if a == EMPTY and is_list(b):
        return b
    if b == EMPTY and is_list(a):
        return a
    return None


def ty_str(t):
    if t == Z:
        return "Z"
    if t == BOOL:
        return "bool"
    if t == CLS:
        return "(Z * bool)"
    if isinstance(t, tuple) and t[0] == "list":
        if t[1] is None:
            raise Unsupported("the element type of an empty display could not be determined")
        return "list (%s)" % ty_str(t[1]) if not _atomic(t[1]) else "list %s" % ty_str(t[1])
    if isinstance(t, tuple) and t[0] == "option":
        return "option (%s)" % ty_str(t[1]) if not _atomic(t[1]) else "option %s" % ty_str(t[1])
    if isinstance(t, tuple) and t[0] == "prod":
        return "(%s * %s)" % (ty_str(t[1]), ty_str(t[2]))
    if isinstance(t, tuple) and t[0] == "dict":
        return "list (Z * %s)" % ty_str(t[1]) if _atomic(t[1]) else "list (Z * (%s))" % ty_str(t[1])
    raise Unsupported("no Gallina type for %r" % (t,))


def _atomic(t):
    return t in (Z, BOOL, CLS) or (isinstance(t, tuple) and t[0] == "prod")


def default_of(t):
    if t == Z:
        return "0"
    if t == BOOL:
        return "false"
    if t == CLS:
        return "(0, false)"
    if isinstance(t, tuple) and t[0] == "list":
        return "[]"
    if isinstance(t, tuple) and t[0] == "option":
        return "None"
    if isinstance(t, tuple) and t[0] == "dict":
        return "[]"
    if isinstance(t, tuple) and t[0] == "prod":
        return "(%s, %s)" % (default_of(t[1]), default_of(t[2]))
    raise Unsupported("no default value for type %r" % (t,))


COQ_RESERVED = {
    "as", "at", "cofix", "else", "end", "exists", "exists2", "fix", "for", "forall", "fun",
    "if", "IF", "in", "let", "match", "mod", "Prop", "return", "Set", "then", "Type",
    "using", "where", "with", "Definition", "Fixpoint", "Lemma", "Theorem", "fuel",
}


def coq_name(name):
    if not re.match(r"^[A-Za-z_][A-Za-z0-9_]*$", name) or name in COQ_RESERVED:
        raise Unsupported("name %r cannot be used in Gallina" % name)
    return name


def src(node):
    return ast.unparse(node)


# ------------------------------------------------------------------ expressions
class Tr:
    """Translator for one target.  env: python name -> (gallina text, type)."""

    def __init__(self, bind=None, rec=None, none_elem=None, chained=False, strings=None):
        self.chained = chained          # accept `a <= b <= c`
        self.strings = strings or {}    # string constant -> integer key (parameter names)
        self.bind = bind or {}          # unparse text -> (gallina text, type)
        self.rec = rec                  # (python function name, gallina callee, elem type) for generators
        self.used = set()               # bound parameters actually used
        self.none_elem = none_elem      # type given to a bare `None` comprehension element (from the target spec)
        self.skip = {}                  # glue statements (imperative blocks): text -> times seen
        self.params_ro = set()          # parameters an imperative block must not assign
        self.imp_ret = None             # type of the returned expression of an imperative block

    # -- helpers
    def as_int(self, node, env, narrowed):
        t, ty = self.expr(node, env, narrowed)
        if ty == Z:
            return t
        if ty == TOpt(Z) and src(node) in narrowed:
            return "(py_unopt %s)" % t
        raise Unsupported("integer expected, got %s in `%s`" % (ty, src(node)))

    def as_bool(self, node, env, narrowed):
        t, ty = self.expr(node, env, narrowed)
        if ty != BOOL:
            raise Unsupported("boolean expected in `%s` (truthiness of other types is not supported)" % src(node))
        return t

    def binder(self, target, elem_ty, env):
        """pattern text and extended env for a comprehension / loop target"""
        env = dict(env)
        if isinstance(target, ast.Name):
            n = "_" if target.id == "_" else coq_name(target.id)
            if target.id != "_":
                env[target.id] = (n, elem_ty)
            return "(%s : %s)" % (n, ty_str(elem_ty)), env
        if (
            isinstance(target, ast.Tuple)
            and len(target.elts) == 2
            and all(isinstance(e, ast.Name) for e in target.elts)
            and isinstance(elem_ty, tuple)
            and elem_ty[0] == "prod"
        ):
            names = []
            for e, t in zip(target.elts, elem_ty[1:]):
                n = "_" if e.id == "_" else coq_name(e.id)
                if e.id != "_":
                    env[e.id] = (n, t)
                names.append(n)
            return "'(%s, %s)" % tuple(names), env
        raise Unsupported("unsupported loop target `%s` for elements of type %s" % (src(target), elem_ty))

    def iterable(self, node, env, narrowed=frozenset()):
        """what a `for` runs over: a sequence, or a dictionary (= its keys, in insertion order)"""
        it, ity = self.expr(node, env, narrowed)
        if is_dict(ity):
            return "(map fst %s)" % it, TList(Z)
        if not is_list(ity) or ity == EMPTY:
            raise Unsupported("cannot iterate over `%s` of type %s" % (src(node), ity))
        return it, ity

    def comprehension(self, node, env, narrowed):
        """(elt for target in iter if c...) -> (text, list type)"""
        if len(node.generators) != 1:
            raise Unsupported("only one `for` per comprehension: `%s`" % src(node))
        g = node.generators[0]
        if g.is_async:
            raise Unsupported("async comprehension")
        it, ity = self.iterable(g.iter, env, narrowed)
        pat, env2 = self.binder(g.target, ity[1], env)
        cur = it
        for c in g.ifs:
            cur = "(filter (fun %s => %s) %s)" % (pat, self.as_bool(c, env2, narrowed), cur)
        et, ety = self.expr(node.elt, env2, narrowed)
        if ety == NONE:
            if self.none_elem is None:
                raise Unsupported("comprehension of bare None")
            et, ety = "None", self.none_elem
        return "(map (fun %s => %s) %s)" % (pat, et, cur), TList(ety), (pat, env2, cur)

    def dictcomp(self, node, env, narrowed):
        """{k: v for target in iter if c...}: built by successive `d[k] = v`
        (py_dict_of), so a repeated key keeps its first position and last value"""
        if len(node.generators) != 1:
            raise Unsupported("only one `for` per comprehension: `%s`" % src(node))
        g = node.generators[0]
        if g.is_async:
            raise Unsupported("async comprehension")
        it, ity = self.iterable(g.iter, env, narrowed)
        pat, env2 = self.binder(g.target, ity[1], env)
        cur = it
        for c in g.ifs:
            cur = "(filter (fun %s => %s) %s)" % (pat, self.as_bool(c, env2, narrowed), cur)
        kt = self.as_int(node.key, env2, narrowed)
        vt, vty = self.expr(node.value, env2, narrowed)
        if vty in (NONE, EMPTY):
            raise Unsupported("dictionary comprehension with values of undetermined type")
        return "(py_dict_of (map (fun %s => (%s, %s)) %s))" % (pat, kt, vt, cur), TDict(vty)

    # -- main
    def expr(self, node, env, narrowed=frozenset()):
        key = src(node)
        if key in self.bind:
            self.used.add(key)
            return self.bind[key]
        if isinstance(node, ast.Constant):
            if node.value is None:
                return "None", NONE
            if isinstance(node.value, bool):
                return ("true" if node.value else "false"), BOOL
            if isinstance(node.value, int):
                return ("%d" % node.value if node.value >= 0 else "(%d)" % node.value), Z
            if isinstance(node.value, str) and node.value in self.strings:
                v = self.strings[node.value]
                return ("%d" % v if v >= 0 else "(%d)" % v), Z
            raise Unsupported("constant `%s`" % key)
        if isinstance(node, ast.Name):
            if node.id in env:
                return env[node.id]
            raise Unsupported("unknown name `%s`" % node.id)
        if isinstance(node, ast.UnaryOp):
            if isinstance(node.op, ast.USub):
                return "(- %s)" % self.as_int(node.operand, env, narrowed), Z
            if isinstance(node.op, ast.Not):
                return "(negb %s)" % self.as_bool(node.operand, env, narrowed), BOOL
            raise Unsupported("unary operator in `%s`" % key)
        if isinstance(node, ast.BinOp):
            if isinstance(node.op, (ast.Add, ast.Sub, ast.Mult)):
                lt, lty = self.expr(node.left, env, narrowed)
                rt, rty = self.expr(node.right, env, narrowed)
                if isinstance(node.op, ast.Add) and isinstance(lty, tuple) and lty[0] == "list":
                    if unify(lty, rty) is None:
                        raise Unsupported("`+` of sequences with different element types in `%s`" % key)
                    return "(%s ++ %s)" % (lt, rt), unify(lty, rty)
                if isinstance(node.op, ast.Mult) and isinstance(lty, tuple) and lty[0] == "list" and lty != EMPTY and rty == Z:
                    # xs * n: n copies of xs (none when n <= 0), as in Python
                    return "(py_list_mul %s %s)" % (lt, rt), lty
                a = self.as_int(node.left, env, narrowed)
                b = self.as_int(node.right, env, narrowed)
                op = {ast.Add: "+", ast.Sub: "-", ast.Mult: "*"}[type(node.op)]
                return "(%s %s %s)" % (a, op, b), Z
            raise Unsupported("binary operator in `%s`" % key)
        if isinstance(node, ast.BoolOp):
            parts = []
            nar = set(narrowed)
            for v in node.values:
                parts.append(self.as_bool(v, env, frozenset(nar)))
                w = self.none_test(v)
                if w is not None:
                    subject, is_none = w
                    # `X is None or REST`: REST runs only when X is not None
                    # `X is not None and REST`: likewise
                    if (isinstance(node.op, ast.Or) and is_none) or (isinstance(node.op, ast.And) and not is_none):
                        nar.add(subject)
            op = " || " if isinstance(node.op, ast.Or) else " && "
            return "(" + op.join(parts) + ")", BOOL
        if isinstance(node, ast.Compare):
            if len(node.ops) != 1:
                # a <= b <= c: every operand is pure and evaluated at most once in
                # Python; only arithmetic comparisons may be chained (opt-in per target)
                if not self.chained or not all(
                    isinstance(o, (ast.Lt, ast.LtE, ast.Gt, ast.GtE, ast.Eq, ast.NotEq)) for o in node.ops
                ):
                    raise Unsupported("chained comparison `%s`" % key)
                operands = [node.left] + list(node.comparators)
                parts = []
                for o, l, r in zip(node.ops, operands, operands[1:]):
                    one = ast.Compare(left=l, ops=[o], comparators=[r])
                    parts.append(self.as_bool(one, env, narrowed))
                return "(" + " && ".join(parts) + ")", BOOL
            op, right = node.ops[0], node.comparators[0]
            if isinstance(op, (ast.In, ast.NotIn)):
                a = self.as_int(node.left, env, narrowed)
                rt, rty = self.expr(right, env, narrowed)
                if rty == TList(Z):
                    t = "(py_in %s %s)" % (a, rt)
                elif is_dict(rty):
                    t = "(py_dmem %s %s)" % (rt, a)
                else:
                    raise Unsupported("`in` on %s in `%s`" % (rty, key))
                return (t if isinstance(op, ast.In) else "(negb %s)" % t), BOOL
            if isinstance(op, (ast.Is, ast.IsNot)):
                if not (isinstance(right, ast.Constant) and right.value is None):
                    raise Unsupported("`is` is only supported against None: `%s`" % key)
                lt, lty = self.expr(node.left, env, narrowed)
                if not (isinstance(lty, tuple) and lty[0] == "option"):
                    raise Unsupported("`%s`: left side is not Optional (type %s)" % (key, lty))
                return "(%s %s)" % ("is_none" if isinstance(op, ast.Is) else "is_some", lt), BOOL
            a = self.as_int(node.left, env, narrowed)
            b = self.as_int(right, env, narrowed)
            if isinstance(op, ast.Lt):
                return "(%s <? %s)" % (a, b), BOOL
            if isinstance(op, ast.LtE):
                return "(%s <=? %s)" % (a, b), BOOL
            if isinstance(op, ast.Gt):
                return "(%s <? %s)" % (b, a), BOOL
            if isinstance(op, ast.GtE):
                return "(%s <=? %s)" % (b, a), BOOL
            if isinstance(op, ast.Eq):
                return "(%s =? %s)" % (a, b), BOOL
            if isinstance(op, ast.NotEq):
                return "(negb (%s =? %s))" % (a, b), BOOL
            raise Unsupported("comparison operator in `%s`" % key)
        if isinstance(node, ast.IfExp):
            c = self.as_bool(node.test, env, narrowed)
            nb, no = set(narrowed), set(narrowed)
            w = self.none_test(node.test)
            if w is not None:
                (no if w[1] else nb).add(w[0])
            bt, bty = self.expr(node.body, env, frozenset(nb))
            ot, oty = self.expr(node.orelse, env, frozenset(no))
            # Optional[int] used as int inside its own narrowed branch
            if bty == TOpt(Z) and src(node.body) in nb and oty == Z:
                bt, bty = "(py_unopt %s)" % bt, Z
            if oty == TOpt(Z) and src(node.orelse) in no and bty == Z:
                ot, oty = "(py_unopt %s)" % ot, Z
            if bty == NONE and oty == NONE:
                raise Unsupported("conditional of two None")
            if bty == NONE:
                bt, bty = "None", (oty if isinstance(oty, tuple) and oty[0] == "option" else TOpt(oty))
                if not (isinstance(oty, tuple) and oty[0] == "option"):
                    ot, oty = "(Some %s)" % ot, bty
            elif oty == NONE:
                ot, oty = "None", (bty if isinstance(bty, tuple) and bty[0] == "option" else TOpt(bty))
                if not (isinstance(bty, tuple) and bty[0] == "option"):
                    bt, bty = "(Some %s)" % bt, oty
            if unify(bty, oty) is None:
                raise Unsupported("branches of `%s` have different types %s / %s" % (key, bty, oty))
            return "(if %s then %s else %s)" % (c, bt, ot), unify(bty, oty)
        if isinstance(node, (ast.Tuple, ast.List)):
            if not node.elts:
                # `()` / `[]`: the element type comes from the context (other branch of a
                # conditional, other operand of +); fails closed where there is none
                return "[]", EMPTY
            if any(isinstance(e, ast.Starred) for e in node.elts):
                raise Unsupported("starred element in `%s`" % key)
            parts = [self.expr(e, env, narrowed) for e in node.elts]
            tys = {p[1] for p in parts}
            if len(tys) != 1 or NONE in tys:
                raise Unsupported("heterogeneous tuple `%s`" % key)
            return "[" + "; ".join(p[0] for p in parts) + "]", TList(parts[0][1])
        if isinstance(node, ast.DictComp):
            return self.dictcomp(node, env, narrowed)
        if isinstance(node, ast.Dict):
            # {**d}: a copy
            if len(node.keys) == 1 and node.keys[0] is None:
                t, ty = self.expr(node.values[0], env, narrowed)
                if not is_dict(ty):
                    raise Unsupported("`%s`: ** of a non-dictionary" % key)
                return t, ty
            raise Unsupported("dictionary display `%s`" % key)
        if isinstance(node, (ast.GeneratorExp, ast.ListComp)):
            t, ty, _ = self.comprehension(node, env, narrowed)
            return t, ty
        if isinstance(node, ast.Subscript):
            vt, vty = self.expr(node.value, env, narrowed)
            if isinstance(vty, tuple) and vty[0] == "prod":
                c = node.slice
                if isinstance(c, ast.Constant) and c.value in (0, 1) and not isinstance(c.value, bool):
                    return "(%s %s)" % ("fst" if c.value == 0 else "snd", vt), vty[1 + c.value]
                raise Unsupported("a pair can only be indexed by the literals 0 and 1: `%s`" % key)
            if is_dict(vty):
                if isinstance(node.slice, ast.Slice):
                    raise Unsupported("slice of a dictionary `%s`" % key)
                k = self.as_int(node.slice, env, narrowed)
                return "(py_dget %s %s %s)" % (default_of(vty[1]), vt, k), vty[1]
            if not (isinstance(vty, tuple) and vty[0] == "list") or vty == EMPTY:
                raise Unsupported("subscript of non-sequence `%s`" % key)
            sl = node.slice
            if isinstance(sl, ast.Slice):
                if (
                    sl.upper is None
                    and sl.step is None
                    and isinstance(sl.lower, ast.Constant)
                    and isinstance(sl.lower.value, int)
                    and not isinstance(sl.lower.value, bool)
                    and sl.lower.value >= 0
                ):
                    return "(skipn %d%%nat %s)" % (sl.lower.value, vt), vty
                raise Unsupported("only slices `xs[c:]` with a literal c >= 0 are supported: `%s`" % key)
            i = self.as_int(sl, env, narrowed)
            return "(py_get %s %s %s)" % (default_of(vty[1]), vt, i), vty[1]
        if isinstance(node, ast.Call):
            return self.call(node, env, narrowed)
        raise Unsupported("expression `%s` (%s)" % (key, type(node).__name__))

    @staticmethod
    def none_test(node):
        """`X is None` -> (text of X, True); `X is not None` -> (text, False)"""
        if (
            isinstance(node, ast.Compare)
            and len(node.ops) == 1
            and isinstance(node.ops[0], (ast.Is, ast.IsNot))
            and isinstance(node.comparators[0], ast.Constant)
            and node.comparators[0].value is None
        ):
            return src(node.left), isinstance(node.ops[0], ast.Is)
        return None

    def call(self, node, env, narrowed):
        key = src(node)
        f = node.func
        # sorted(xs, key=lambda x: e): Python's sort is stable; py_sorted_by is a stable
        # insertion sort on the integer key
        if (
            isinstance(f, ast.Name) and f.id == "sorted" and f.id not in env and len(node.args) == 1
            and len(node.keywords) == 1 and node.keywords[0].arg == "key"
            and isinstance(node.keywords[0].value, ast.Lambda)
        ):
            lam = node.keywords[0].value
            la = lam.args
            if la.vararg or la.kwarg or la.kwonlyargs or la.posonlyargs or la.defaults or len(la.args) != 1:
                raise Unsupported("sort key `%s`" % src(lam))
            t, ty = self.expr(node.args[0], env, narrowed)
            if not is_list(ty) or ty == EMPTY:
                raise Unsupported("sorted() of %s" % (ty,))
            x = coq_name(la.args[0].arg)
            env2 = dict(env)
            env2[la.args[0].arg] = (x, ty[1])
            kt = self.as_int(lam.body, env2, narrowed)
            return "(py_sorted_by (fun (%s : %s) => %s) %s)" % (x, ty_str(ty[1]), kt, t), ty
        if self.rec and isinstance(f, ast.Name) and f.id == self.rec[0] and f.id not in env:
            # positional arguments, then `**d` for the callee's **kwargs parameter (if it has one)
            want = list(self.rec[3])
            kw = len(self.rec) > 4 and self.rec[4]
            n_pos = len(want) - (1 if kw else 0)
            if len(node.args) != n_pos or any(isinstance(a, ast.Starred) for a in node.args):
                raise Unsupported("recursive call with wrong arity `%s`" % key)
            actual = list(node.args)
            if kw:
                if len(node.keywords) != 1 or node.keywords[0].arg is not None:
                    raise Unsupported("recursive call must pass exactly `**d` besides its positional arguments: `%s`" % key)
                actual.append(node.keywords[0].value)
            elif node.keywords:
                raise Unsupported("keyword arguments in `%s`" % key)
            parts = []
            for a, wty in zip(actual, want):
                t, ty = self.expr(a, env, narrowed)
                if ty != wty:
                    raise Unsupported("recursive call argument `%s` has type %s, expected %s" % (src(a), ty, wty))
                parts.append(t)
            return "(%s %s)" % (self.rec[1], " ".join(parts)), TList(self.rec[2])
        if node.keywords:
            raise Unsupported("keyword arguments in `%s`" % key)
        # d.get(k, None) -> an Optional
        if (isinstance(f, ast.Attribute) and f.attr == "get" and len(node.args) == 2
                and isinstance(node.args[1], ast.Constant) and node.args[1].value is None):
            vt, vty = self.expr(f.value, env, narrowed)
            if not is_dict(vty):
                raise Unsupported("method call `%s`" % key)
            return "(py_dfind %s %s)" % (vt, self.as_int(node.args[0], env, narrowed)), TOpt(vty[1])
        # methods of class descriptors and of dictionaries
        if isinstance(f, ast.Attribute) and not node.args:
            vt, vty = self.expr(f.value, env, narrowed)
            if vty == CLS and f.attr == "minimum_size_of_object":
                return "(fst %s)" % vt, Z
            if vty == CLS and f.attr == "is_atom":
                return "(snd %s)" % vt, BOOL
            if is_dict(vty) and f.attr == "items":
                return vt, TList(TProd(Z, vty[1]))
            if is_dict(vty) and f.attr == "values":
                return "(map snd %s)" % vt, TList(vty[1])
            if is_dict(vty) and f.attr == "keys":
                return "(map fst %s)" % vt, TList(Z)
            raise Unsupported("method call `%s`" % key)
        if not isinstance(f, ast.Name):
            raise Unsupported("call `%s`" % key)
        name, args = f.id, node.args
        if name in env:
            raise Unsupported("call of a local name `%s`" % key)
        # itertools.product(*[r for ...]): first coordinate slowest
        if name == "product" and len(args) == 1 and isinstance(args[0], ast.Starred):
            t, ty = self.expr(args[0].value, env, narrowed)
            if not (is_list(ty) and is_list(ty[1])) or ty[1] == EMPTY:
                raise Unsupported("product(*..) of %s" % (ty,))
            return "(py_product %s)" % t, ty
        if any(isinstance(a, ast.Starred) for a in args):
            raise Unsupported("starred argument in `%s`" % key)
        if name == "bool" and len(args) == 1:
            t, ty = self.expr(args[0], env, narrowed)
            if ty == BOOL:
                return t, BOOL
            if is_list(ty) or is_dict(ty):
                return "(py_nonempty %s)" % t, BOOL     # truthiness of a sequence / set / dict
            raise Unsupported("bool() of %s in `%s`" % (ty, key))
        if name == "set" and len(args) == 1:
            t, ty = self.expr(args[0], env, narrowed)
            if ty != TList(Z):
                raise Unsupported("set() of %s in `%s`" % (ty, key))
            return "(py_set_of %s)" % t, TList(Z)      # the distinct elements (first occurrences)
        if name == "dict" and len(args) == 1:
            t, ty = self.expr(args[0], env, narrowed)
            if is_list(ty) and isinstance(ty[1], tuple) and ty[1][0] == "prod" and ty[1][1] == Z:
                return "(py_dict_of %s)" % t, TDict(ty[1][2])
            raise Unsupported("dict() of %s in `%s`" % (ty, key))
        if name in ("min", "max") and len(args) == 1:
            t, ty = self.expr(args[0], env, narrowed)
            if ty == TList(Z):
                # ValueError on an empty sequence in Python; 0 here (outside the preconditions)
                return "(py_%s_list %s)" % (name, t), Z
            if ty == TList(TList(Z)) and name == "max":
                return "(py_max_lex %s)" % t, TList(Z)    # tuples compare lexicographically
            raise Unsupported("%s() of %s in `%s`" % (name, ty, key))
        if name == "tuple" and len(args) == 1:
            t, ty = self.expr(args[0], env, narrowed)
            if not (isinstance(ty, tuple) and ty[0] == "list"):
                raise Unsupported("tuple() of non-sequence `%s`" % key)
            return t, ty
        if name == "sum" and len(args) == 1:
            t, ty = self.expr(args[0], env, narrowed)
            if ty != TList(Z):
                raise Unsupported("sum() of %s in `%s`" % (ty, key))
            return "(py_sum %s)" % t, Z
        if name in ("all", "any") and len(args) == 1:
            a = args[0]
            if isinstance(a, (ast.GeneratorExp, ast.ListComp)):
                _, _, (pat, env2, cur) = self.comprehension(a, env, narrowed)
                body = self.as_bool(a.elt, env2, narrowed)
                return "(%s (fun %s => %s) %s)" % ("forallb" if name == "all" else "existsb", pat, body, cur), BOOL
            t, ty = self.expr(a, env, narrowed)
            if is_list(ty) and is_list(ty[1]) and ty != EMPTY:
                # truthiness of the elements: a tuple is true iff it is non-empty
                return "(%s py_nonempty %s)" % ("forallb" if name == "all" else "existsb", t), BOOL
            if ty != TList(BOOL):
                raise Unsupported("%s() of %s" % (name, ty))
            return "(%s (fun b => b) %s)" % ("forallb" if name == "all" else "existsb", t), BOOL
        if name == "len" and len(args) == 1:
            t, ty = self.expr(args[0], env, narrowed)
            if not (isinstance(ty, tuple) and ty[0] == "list"):
                raise Unsupported("len() of %s" % (ty,))
            return "(zlen %s)" % t, Z
        if name == "enumerate" and len(args) == 1:
            t, ty = self.expr(args[0], env, narrowed)
            if not (isinstance(ty, tuple) and ty[0] == "list"):
                raise Unsupported("enumerate() of %s" % (ty,))
            return "(py_enumerate %s)" % t, TList(TProd(Z, ty[1]))
        if name == "zip" and len(args) == 2:
            at, aty = self.expr(args[0], env, narrowed)
            bt, bty = self.expr(args[1], env, narrowed)
            for ty in (aty, bty):
                if not (isinstance(ty, tuple) and ty[0] == "list"):
                    raise Unsupported("zip() of %s" % (ty,))
            return "(combine %s %s)" % (at, bt), TList(TProd(aty[1], bty[1]))
        if name == "range" and len(args) in (1, 2):
            lo = "0" if len(args) == 1 else self.as_int(args[0], env, narrowed)
            hi = self.as_int(args[-1], env, narrowed)
            return "(py_range %s %s)" % (lo, hi), TList(Z)
        if name in ("min", "max") and len(args) == 2:
            a = self.as_int(args[0], env, narrowed)
            b = self.as_int(args[1], env, narrowed)
            return "(Z.%s %s %s)" % (name, a, b), Z
        if name == "abs" and len(args) == 1:
            return "(Z.abs %s)" % self.as_int(args[0], env, narrowed), Z
        if name == "cast" and len(args) == 2:
            if src(args[0]) not in ("Tuple[int, ...]", "Parameters"):     # Parameters = Tuple[int, ...]
                raise Unsupported("cast to `%s`" % src(args[0]))
            t, ty = self.expr(args[1], env, narrowed)
            if ty == TList(TOpt(Z)):
                return "(map py_unopt %s)" % t, TList(Z)
            if ty == TList(Z):
                return t, ty
            raise Unsupported("cast of %s" % (ty,))
        raise Unsupported("call `%s`" % key)

    # -------------------------------------------------------------- statements
    def fun_block(self, stmts, env, skip, narrowed=frozenset()):
        """straight-line function body ending in `return e` -> (text, type).
        `narrowed`: texts of Optional names the control flow has established
        to be not None (`if X is None: return ...` narrows X afterwards)."""
        if not stmts:
            raise Unsupported("function body falls off the end (returns None)")
        s, rest = stmts[0], stmts[1:]
        if _is_docstring(s):
            return self.fun_block(rest, env, skip, narrowed)
        if src(s) in skip:
            skip[src(s)] += 1
            return self.fun_block(rest, env, skip, narrowed)
        if isinstance(s, ast.Return):
            if s.value is None:
                raise Unsupported("bare return in a function")
            return self.expr(s.value, env, narrowed)
        if isinstance(s, ast.Assign):
            n, t, ty = self.assign(s, env, narrowed)
            env2 = dict(env)
            env2[n] = (coq_name(n), ty)
            bt, bty = self.fun_block(rest, env2, skip, frozenset(narrowed) - {n})
            return "let %s := %s in\n  %s" % (coq_name(n), t, bt), bty
        if isinstance(s, ast.If):
            c = self.as_bool(s.test, env, narrowed)
            nb, no = set(narrowed), set(narrowed)
            w = self.none_test(s.test)
            if w is not None and re.match(r"^[A-Za-z_][A-Za-z0-9_]*$", w[0]):
                (no if w[1] else nb).add(w[0])
            bt, bty = self.fun_block(list(s.body) + rest, env, skip, frozenset(nb))
            ot, oty = self.fun_block(list(s.orelse) + rest, env, skip, frozenset(no))
            if bty != oty:
                raise Unsupported("branches return different types")
            return "(if %s then %s else %s)" % (c, bt, ot), bty
        raise Unsupported("statement `%s`" % src(s).split("\n")[0])

    def assign(self, s, env, narrowed=frozenset()):
        if len(s.targets) != 1 or not isinstance(s.targets[0], ast.Name):
            raise Unsupported("assignment target `%s`" % src(s).split("\n")[0])
        t, ty = self.expr(s.value, env, narrowed)
        if ty == NONE:
            raise Unsupported("assignment of bare None")
        return s.targets[0].id, t, ty

    # -------------------------------------------------------------- imperative blocks
    # Straight-line code with (nested) `for` loops and `if`s that update local
    # variables, lists (`xs[i] = e`, `xs[i] += e`) and dictionaries (`d[k] = e`):
    # a loop becomes `fold_left` over the variables it assigns (which must exist
    # before the loop); an `if` returns the variables either branch assigns.
    # `assert c` accumulates into the flag ok_ (the function then returns an
    # option: None = AssertionError).  `return` only as the last statement.
    @staticmethod
    def stored_names(stmts):
        """names (re)bound by the statements, in order of first occurrence;
        comprehension variables are local to their comprehension"""
        out = []

        def add(n):
            if n not in out:
                out.append(n)

        def visit(n):
            if isinstance(n, (ast.ListComp, ast.SetComp, ast.GeneratorExp, ast.DictComp, ast.Lambda)):
                return
            if isinstance(n, (ast.FunctionDef, ast.ClassDef, ast.AsyncFunctionDef, ast.While, ast.Try, ast.With,
                              ast.Delete, ast.Global, ast.Nonlocal, ast.NamedExpr, ast.Import, ast.ImportFrom)):
                raise Unsupported("statement/expression `%s`" % src(n).split("\n")[0])
            if isinstance(n, ast.Name) and isinstance(n.ctx, ast.Store):
                add(n.id)
            if isinstance(n, ast.Subscript) and isinstance(n.ctx, ast.Store):
                if not isinstance(n.value, ast.Name):
                    raise Unsupported("assignment to `%s`" % src(n))
                add(n.value.id)
            if isinstance(n, ast.Attribute) and isinstance(n.ctx, ast.Store):
                raise Unsupported("assignment to the attribute `%s`" % src(n))
            if isinstance(n, ast.Assert):
                add("ok_")
            for c in ast.iter_child_nodes(n):
                visit(c)

        for s in stmts:
            visit(s)
        return out

    @staticmethod
    def loaded_names(nodes):
        """names read by the nodes; variables of a comprehension / lambda are
        local to it (its first iterable is evaluated outside)"""
        out = set()

        def visit(n, bound):
            if isinstance(n, ast.Name):
                if isinstance(n.ctx, ast.Load) and n.id not in bound:
                    out.add(n.id)
                return
            if isinstance(n, (ast.ListComp, ast.SetComp, ast.GeneratorExp, ast.DictComp)):
                b = set(bound)
                for i, g in enumerate(n.generators):
                    visit(g.iter, bound if i == 0 else b)
                    b |= {x.id for x in ast.walk(g.target) if isinstance(x, ast.Name)}
                    for c in g.ifs:
                        visit(c, b)
                for part in ([n.key, n.value] if isinstance(n, ast.DictComp) else [n.elt]):
                    visit(part, b)
                return
            if isinstance(n, ast.Lambda):
                b = set(bound) | {a.arg for a in n.args.args}
                visit(n.body, b)
                return
            for c in ast.iter_child_nodes(n):
                visit(c, bound)

        for r in nodes:
            visit(r, frozenset())
        return out

    @staticmethod
    def drop_narrowed(narrowed, name):
        keep = set()
        for t in narrowed:
            try:
                names = {n.id for n in ast.walk(ast.parse(t, mode="eval")) if isinstance(n, ast.Name)}
            except SyntaxError:
                names = {name}
            if name not in names:
                keep.add(t)
        return frozenset(keep)

    @staticmethod
    def state_pat(names, quote=True):
        if len(names) == 1:
            return names[0]
        return ("'" if quote else "") + "(" + ", ".join(names) + ")"

    def imp_store(self, target, value_text, value_ty, env, narrowed, aug=None):
        """`target = value` / `target += value` -> (python name, gallina text of its new value, type)"""
        if isinstance(target, ast.Name):
            n = target.id
            coq_name(n)
            if aug is not None:
                if n not in env or env[n][1] != Z or value_ty != Z:
                    raise Unsupported("augmented assignment to `%s`" % n)
                return n, "(%s %s %s)" % (env[n][0], aug, value_text), Z
            if value_ty in (NONE, EMPTY):
                raise Unsupported("assignment of a value of undetermined type to `%s`" % n)
            if n in env and env[n][1] != value_ty:
                raise Unsupported("`%s` changes type from %s to %s" % (n, env[n][1], value_ty))
            return n, value_text, value_ty
        if isinstance(target, ast.Subscript) and isinstance(target.value, ast.Name):
            n = target.value.id
            if n not in env:
                raise Unsupported("unknown name `%s`" % n)
            xs, ty = env[n]
            if isinstance(target.slice, ast.Slice):
                raise Unsupported("slice assignment")
            idx = self.as_int(target.slice, env, narrowed)
            if is_list(ty) and ty != EMPTY:
                elem = ty[1]
                if aug is not None:
                    if elem != Z or value_ty != Z:
                        raise Unsupported("augmented assignment to an element of %s" % (ty,))
                    value_text = "((py_get 0 %s %s) %s %s)" % (xs, idx, aug, value_text)
                elif elem == TOpt(Z) and value_ty == Z:
                    value_text = "(Some %s)" % value_text
                elif elem == TOpt(Z) and value_ty == NONE:
                    value_text = "None"
                elif elem != value_ty:
                    raise Unsupported("`%s`: element type %s, value type %s" % (src(target), elem, value_ty))
                return n, "(py_setitem %s %s %s)" % (xs, idx, value_text), ty
            if is_dict(ty):
                if aug is not None or ty[1] != value_ty:
                    raise Unsupported("`%s`: value type %s, dictionary of %s" % (src(target), value_ty, ty[1]))
                return n, "(py_dset %s %s %s)" % (xs, idx, value_text), ty
            raise Unsupported("subscript assignment to %s" % (ty,))
        raise Unsupported("assignment target `%s`" % src(target))

    def imp_block(self, stmts, env, narrowed, end, depth):
        """text of: run stmts, then `end(env, narrowed)`; `return e` is accepted only
        as the very last statement at depth 0 (and is then the whole result)"""
        if not stmts:
            return end(env, narrowed)
        s, rest = stmts[0], stmts[1:]
        if _is_docstring(s):
            return self.imp_block(rest, env, narrowed, end, depth)
        if src(s) in self.skip:
            self.skip[src(s)] += 1
            return self.imp_block(rest, env, narrowed, end, depth)
        if isinstance(s, ast.Return):
            if depth != 0 or rest or s.value is None:
                raise Unsupported("`return` other than `return e` as the last statement")
            t, ty = self.expr(s.value, env, narrowed)
            self.imp_ret = ty
            if "ok_" in env:
                return "(if ok_ then Some %s else None)" % t
            return t
        if isinstance(s, (ast.Assign, ast.AnnAssign, ast.AugAssign)):
            if isinstance(s, ast.Assign):
                if len(s.targets) != 1:
                    raise Unsupported("multiple assignment targets")
                target, value, aug = s.targets[0], s.value, None
            elif isinstance(s, ast.AnnAssign):
                if s.value is None or not s.simple:
                    raise Unsupported("annotation without a simple assignment")
                target, value, aug = s.target, s.value, None
            else:
                if not isinstance(s.op, (ast.Add, ast.Sub, ast.Mult)):
                    raise Unsupported("augmented assignment operator in `%s`" % src(s))
                target, value = s.target, s.value
                aug = {ast.Add: "+", ast.Sub: "-", ast.Mult: "*"}[type(s.op)]
            saved = self.none_elem
            if isinstance(s, ast.AnnAssign):
                a = src(s.annotation)
                if a not in ANNOT:
                    raise Unsupported("annotation `%s`" % a)
                if is_list(ANNOT[a]) and isinstance(ANNOT[a][1], tuple) and ANNOT[a][1][0] == "option":
                    self.none_elem = ANNOT[a][1]
            try:
                vt, vty = self.expr(value, env, narrowed)
            finally:
                self.none_elem = saved
            if aug is not None and vty != Z:
                vt = self.as_int(value, env, narrowed)
                vty = Z
            n, t, ty = self.imp_store(target, vt, vty, env, narrowed, aug)
            if isinstance(s, ast.AnnAssign) and ANNOT[src(s.annotation)] != ty:
                raise Unsupported("`%s` is annotated %s but has type %s" % (n, src(s.annotation), ty))
            env2 = dict(env)
            env2[n] = (coq_name(n), ty)
            return "let %s := %s in\n  %s" % (coq_name(n), t, self.imp_block(rest, env2, self.drop_narrowed(narrowed, n), end, depth))
        if isinstance(s, ast.Assert):
            if s.msg is not None:
                raise Unsupported("assert with message")
            if "ok_" not in env:
                raise Unsupported("assert in a target that does not declare assertions")
            c = self.as_bool(s.test, env, narrowed)
            nar = set(narrowed)
            w = self.none_test(s.test)
            if w is not None and not w[1]:
                nar.add(w[0])       # after `assert X is not None`
            return "let ok_ := (ok_ && %s) in\n  %s" % (c, self.imp_block(rest, env, frozenset(nar), end, depth))
        if isinstance(s, (ast.For, ast.If)):
            after = self.loaded_names(rest)
            if isinstance(s, ast.For):
                if s.orelse:
                    raise Unsupported("for/else")
                for sub in ast.walk(s):
                    if isinstance(sub, (ast.Return, ast.Break, ast.Continue, ast.Yield, ast.YieldFrom)):
                        raise Unsupported("return/break/continue/yield inside a for loop")
                targets = [n.id for n in ast.walk(s.target) if isinstance(n, ast.Name)]
                for tn in targets:
                    if tn in env and tn != "_":
                        raise Unsupported("loop variable `%s` rebinds an existing name" % tn)
                stored = [n for n in self.stored_names(s.body) if n not in targets]
                for tn in targets:
                    if tn in self.stored_names(s.body):
                        raise Unsupported("loop variable `%s` is assigned in the loop body" % tn)
                fresh = [n for n in stored if n not in env] + targets
            else:
                for sub in ast.walk(s):
                    if isinstance(sub, (ast.Return, ast.Break, ast.Continue, ast.Yield, ast.YieldFrom)):
                        raise Unsupported("return/break/continue/yield inside an if")
                stored = self.stored_names(list(s.body) + list(s.orelse))
                fresh = [n for n in stored if n not in env]
            # canonical order: first assignment, the assertion flag last (so that moving an
            # assert within the body does not change the shape of the state)
            carried = [n for n in stored if n in env and n != "ok_"] + [n for n in stored if n == "ok_" and n in env]
            bad = [n for n in fresh if n in after and n != "_"]
            if bad:
                raise Unsupported("names %s first bound inside a loop/branch are used after it" % sorted(bad))
            if not carried:
                raise Unsupported("loop/branch without effect on existing variables: `%s`" % src(s).split("\n")[0])
            for n in carried:
                if n in self.params_ro:
                    raise Unsupported("the parameter `%s` is assigned" % n)
            names = [env[n][0] for n in carried]
            tuple_ty = " * ".join(ty_str(env[n][1]) for n in carried)
            st_text = self.state_pat(names, quote=False)

            def fin(e, _nar, carried=carried):
                for n in carried:
                    if e[n][1] != env[n][1]:
                        raise Unsupported("`%s` changes type inside a loop/branch" % n)
                return self.state_pat([e[n][0] for n in carried], quote=False)

            if isinstance(s, ast.For):
                it, ity = self.expr(s.iter, env, narrowed)
                if not is_list(ity) or ity == EMPTY:
                    raise Unsupported("for over %s" % (ity,))
                pat, env2 = self.binder(s.target, ity[1], env)
                nar2 = narrowed
                for n in carried + targets:
                    nar2 = self.drop_narrowed(nar2, n)
                body = self.imp_block(list(s.body), env2, nar2, fin, depth + 1)
                if pat.startswith("'"):
                    xbind = "(x_ : %s) => let %s := x_ in" % (ty_str(ity[1]), pat)
                else:
                    xbind = "%s =>" % pat
                if len(carried) == 1:
                    fn_text = "(fun (%s : %s) %s\n    %s)" % (names[0], tuple_ty, xbind, body)
                else:
                    fn_text = "(fun (st_ : %s) %s let '%s := st_ in\n    %s)" % (tuple_ty, xbind, st_text, body)
                val = "(fold_left %s\n    %s %s)" % (fn_text, it, st_text)
            else:
                c = self.as_bool(s.test, env, narrowed)
                nb, no = set(narrowed), set(narrowed)
                w = self.none_test(s.test)
                if w is not None:
                    (no if w[1] else nb).add(w[0])
                bt = self.imp_block(list(s.body), env, frozenset(nb), fin, depth + 1)
                ot = self.imp_block(list(s.orelse), env, frozenset(no), fin, depth + 1)
                val = "(if %s then %s else %s)" % (c, bt, ot)
            nar3 = narrowed
            for n in carried:
                nar3 = self.drop_narrowed(nar3, n)
            return "let %s := %s in\n  %s" % (self.state_pat(names), val, self.imp_block(rest, env, nar3, end, depth))
        raise Unsupported("statement `%s`" % src(s).split("\n")[0])

    def gen_block(self, stmts, env, elem_ty, in_loop=False):
        """generator body -> Gallina list expression of element type elem_ty"""
        if not stmts:
            return "[]"
        s, rest = stmts[0], stmts[1:]
        if _is_docstring(s):
            return self.gen_block(rest, env, elem_ty, in_loop)
        if isinstance(s, ast.Return):
            if s.value is not None:
                raise Unsupported("`return value` in a generator")
            if in_loop:
                raise Unsupported("`return` inside a loop")
            return "[]"
        if isinstance(s, ast.Expr) and isinstance(s.value, ast.Yield):
            if s.value.value is None:
                raise Unsupported("bare yield")
            t, ty = self.expr(s.value.value, env)
            if ty != elem_ty:
                raise Unsupported("yield of %s, expected %s" % (ty, elem_ty))
            tail = self.gen_block(rest, env, elem_ty, in_loop)
            return "(%s :: %s)" % (t, tail)
        if isinstance(s, ast.Expr) and isinstance(s.value, ast.YieldFrom):
            t = self.yield_from(s.value.value, env, elem_ty)
            tail = self.gen_block(rest, env, elem_ty, in_loop)
            return "(%s ++ %s)" % (t, tail)
        if isinstance(s, ast.Assert):
            if s.msg is not None:
                raise Unsupported("assert with message")
            c = self.as_bool(s.test, env, frozenset())
            return "(py_assert %s %s)" % (c, self.gen_block(rest, env, elem_ty, in_loop))
        if isinstance(s, ast.Assign) and len(s.targets) == 1 and isinstance(s.targets[0], ast.Subscript):
            # d[k] = e / xs[i] = e on a local: a new binding of the same name
            if in_loop:
                raise Unsupported("element assignment inside a loop of a generator")
            vt, vty = self.expr(s.value, env)
            n, t, ty = self.imp_store(s.targets[0], vt, vty, env, frozenset())
            env2 = dict(env)
            env2[n] = (coq_name(n), ty)
            return "(let %s := %s in\n    %s)" % (coq_name(n), t, self.gen_block(rest, env2, elem_ty, in_loop))
        if isinstance(s, (ast.Assign, ast.AnnAssign)):
            if isinstance(s, ast.AnnAssign):
                # the annotation is documentation only: the type is inferred
                if s.value is None or not s.simple or not isinstance(s.target, ast.Name):
                    raise Unsupported("annotated statement `%s`" % src(s).split("\n")[0])
                s = ast.Assign(targets=[s.target], value=s.value)
            n, t, ty = self.assign(s, env)
            if in_loop and n in env:
                raise Unsupported("a loop body of a generator rebinds `%s`" % n)
            env2 = dict(env)
            env2[n] = (coq_name(n), ty)
            return "(let %s := %s in\n    %s)" % (coq_name(n), t, self.gen_block(rest, env2, elem_ty, in_loop))
        if isinstance(s, ast.If):
            c = self.as_bool(s.test, env, frozenset())
            b = self.gen_block(list(s.body) + rest, env, elem_ty, in_loop)
            o = self.gen_block(list(s.orelse) + rest, env, elem_ty, in_loop)
            return "(if %s\n   then %s\n   else %s)" % (c, b, o)
        if isinstance(s, ast.For):
            if s.orelse:
                raise Unsupported("for/else")
            for sub in ast.walk(s):
                if isinstance(sub, (ast.Return, ast.Break, ast.Continue)):
                    raise Unsupported("return/break/continue inside a for loop")
            assigned = {
                n.id for sub in s.body for n in ast.walk(sub) if isinstance(n, ast.Name) and isinstance(n.ctx, ast.Store)
            } | {n.id for n in ast.walk(s.target) if isinstance(n, ast.Name)}
            used_after = {n.id for r in rest for n in ast.walk(r) if isinstance(n, ast.Name) and isinstance(n.ctx, ast.Load)}
            if assigned & used_after:
                raise Unsupported("loop variables %s are used after the loop" % sorted(assigned & used_after))
            it, ity = self.iterable(s.iter, env)
            pat, env2 = self.binder(s.target, ity[1], env)
            body = self.gen_block(list(s.body), env2, elem_ty, True)
            tail = self.gen_block(rest, env, elem_ty, in_loop)
            return "(flat_map (fun %s => %s)\n      %s ++ %s)" % (pat, body, it, tail)
        raise Unsupported("statement `%s`" % src(s).split("\n")[0])

    def yield_from(self, node, env, elem_ty):
        """yield from map(f, rec(...)) with f = (x,).__add__"""
        if not (isinstance(node, ast.Call) and isinstance(node.func, ast.Name) and node.func.id == "map"
                and len(node.args) == 2 and not node.keywords):
            t, ty = self.expr(node, env)
            if ty != TList(elem_ty):
                raise Unsupported("yield from %s" % (ty,))
            return t
        f, xs = node.args
        xt, xty = self.expr(xs, env)
        if xty != TList(elem_ty):
            raise Unsupported("yield from map over %s" % (xty,))
        if (
            isinstance(f, ast.Attribute)
            and f.attr == "__add__"
            and isinstance(f.value, ast.Tuple)
            and isinstance(elem_ty, tuple)
            and elem_ty[0] == "list"
        ):
            pt, pty = self.expr(f.value, env)
            if pty != elem_ty:
                raise Unsupported("`%s` prepends %s to %s" % (src(f), pty, elem_ty))
            return "(map (fun t_ => %s ++ t_) %s)" % (pt, xt)
        raise Unsupported("mapped function `%s`" % src(f))


def _is_docstring(s):
    return isinstance(s, ast.Expr) and isinstance(s.value, ast.Constant) and isinstance(s.value.value, str)


# ------------------------------------------------------------------ locating
def find_def(tree, qual, want_class=False):
    """Locate a (possibly nested in classes) function (or class) by qualified name."""
    parts = qual.split(".")
    body = tree.body
    node = None
    for i, p in enumerate(parts):
        found = [
            n for n in body
            if isinstance(n, (ast.ClassDef, ast.FunctionDef)) and n.name == p
        ]
        if len(found) != 1:
            raise Unsupported("%d definitions named %r while resolving %s" % (len(found), p, qual))
        node = found[0]
        last = i == len(parts) - 1
        if last and want_class:
            if not isinstance(node, ast.ClassDef):
                raise Unsupported("%s: %r is not a class" % (qual, p))
        elif last != isinstance(node, ast.FunctionDef):
            raise Unsupported("%s: %r is not a %s" % (qual, p, "function" if last else "class"))
        body = node.body
    return node


def arg_names(fn, kwarg=None):
    """positional parameter names; `**kwarg` is accepted only when the target declares it
    (it is then a dictionary parameter)"""
    a = fn.args
    if a.vararg or a.kwonlyargs or a.posonlyargs:
        raise Unsupported("unsupported parameter kinds in %s" % fn.name)
    if (a.kwarg.arg if a.kwarg else None) != kwarg:
        raise Unsupported("%s: **%s, expected %s" % (fn.name, a.kwarg.arg if a.kwarg else None, kwarg))
    return [x.arg for x in a.args]


HEADER = """(* GENERATED by harness/translate.py — DO NOT EDIT.
   Source: %s  (%s), re-read from the repository on every ./check run.
   A source edit that changes the arithmetic changes this definition, and the
   hand-written theories that import it are re-checked against it.

%s
*)
From Coq Require Import ZArith List Bool.
From CSS Require Import Gen.Prelude.
Import ListNotations.
Open Scope Z_scope.

"""


def header(spec, fn_src):
    safe = fn_src.replace("(*", "( *").replace("*)", "* )")
    return HEADER % (spec["file"], spec["qual"], textwrap.indent(safe, "   ")) + spec.get("extra_header", "")


GLUE_CHILDREN = (
    "if children is None:\n"
    "    children = self.decomposition_function(comb_class)\n"
    "    if children is None:\n"
    "        raise StrategyDoesNotApply('Strategy does not apply')"
)


# ------------------------------------------------------------------ targets
def t_function(spec, fn, text):
    """plain function: parameters are given by the spec (bound expressions or
    function parameters), body is assignments then `return e`."""
    if arg_names(fn) != spec["args"]:
        raise Unsupported("signature changed: %s" % arg_names(fn))
    tr = Tr(bind={k: (v[0], v[1]) for k, v in spec.get("bind", {}).items()}, none_elem=spec.get("none_elem"),
            chained=spec.get("chained", False), strings=spec.get("strings"))
    env = {p: (coq_name(p), ty) for p, ty in spec.get("env", {}).items()}
    skip = {s: 0 for s in spec.get("skip", [])}
    body, ty = tr.fun_block(list(fn.body), env, skip)
    for k in spec.get("bind", {}):
        if k not in tr.used:
            raise Unsupported("expected expression `%s` no longer occurs in %s" % (k, spec["qual"]))
    for s, cnt in skip.items():
        if cnt != 1:
            raise Unsupported("expected glue statement not found exactly once: %s" % s.split("\n")[0])
    if ty != spec["ret"]:
        raise Unsupported("result type %s, expected %s" % (ty, spec["ret"]))
    params = " ".join("(%s : %s)" % (n, ty_str(t)) for n, t in spec["params"])
    return header(spec, text) + "Definition %s %s : %s :=\n  %s.\n" % (spec["name"], params, ty_str(ty), body)


def t_select(spec, fn, text):
    """selected `self.X = e` assignments of an __init__, in order; each becomes
    a Definition over the parameters it (transitively) uses."""
    if arg_names(fn) != spec["args"]:
        raise Unsupported("signature changed: %s" % arg_names(fn))
    wanted = dict(spec["select"])
    stores = {}
    for n in ast.walk(fn):
        if isinstance(n, ast.Attribute) and isinstance(n.ctx, ast.Store) and src(n) in set(wanted) | set(spec["require_store"]):
            stores[src(n)] = stores.get(src(n), 0) + 1
    for a in list(wanted) + list(spec["require_store"]):
        if stores.get(a, 0) != 1:
            raise Unsupported("%s is assigned %d times in %s" % (a, stores.get(a, 0), spec["qual"]))
    top = {}
    for s in fn.body:
        if isinstance(s, ast.Assign) and len(s.targets) == 1 and src(s.targets[0]) in set(wanted) | set(spec["require_store"]):
            top[src(s.targets[0])] = s
    for a, want_src in spec["require_store"].items():
        if a not in top or src(top[a].value) != want_src:
            raise Unsupported("expected `%s = %s` at the top level of %s" % (a, want_src, spec["qual"]))
    # parameters must not be rebound before use
    for n in ast.walk(fn):
        if isinstance(n, ast.Name) and isinstance(n.ctx, ast.Store) and n.id in spec["env"]:
            raise Unsupported("parameter %s is reassigned" % n.id)
    base_bind = {k: (v[0], v[1]) for k, v in spec.get("bind", {}).items()}
    param_ty = dict(spec["params"])
    out = header(spec, text)
    done = {}       # attr -> (text of application, type, params used)
    order = [s for s in fn.body if isinstance(s, ast.Assign) and len(s.targets) == 1 and src(s.targets[0]) in wanted]
    if [src(s.targets[0]) for s in order] != [a for a, _ in spec["select"]]:
        raise Unsupported("selected assignments are not top-level statements in the expected order")
    for s in order:
        attr = src(s.targets[0])
        bind = dict(base_bind)
        for a, (app, ty, _) in done.items():
            bind[a] = (app, ty)
        tr = Tr(bind=bind)
        env = {p: (coq_name(p), ty) for p, ty in spec["env"].items()}
        t, ty = tr.expr(s.value, env)
        if ty == NONE:
            raise Unsupported("%s = None" % attr)
        used = set()
        for n in ast.walk(s.value):
            if isinstance(n, ast.Name) and n.id in spec["env"]:
                used.add(n.id)
        for k in tr.used:
            if k in done:
                used |= done[k][2]
            else:
                used.add(base_bind[k][0])
        plist = [(n, pt) for n, pt in spec["params"] if n in used]
        name = wanted[attr]
        out += "Definition %s %s : %s :=\n  %s.\n\n" % (
            name, " ".join("(%s : %s)" % (n, ty_str(pt)) for n, pt in plist), ty_str(ty), t)
        app = "(%s %s)" % (name, " ".join(n for n, _ in plist)) if plist else name
        done[attr] = (app, ty, {n for n, _ in plist})
    return out


def t_loopfun(spec, fn, text):
    """function of the shape

           <glue statements listed in `skip`>
           x = e ...                      (state initialisation)
           for <target> in <seq>:         (body: assignments to state variables,
               ...                         if/elif/else, `return e`)
           <straight-line tail ending in return>

    -> a structural Fixpoint over the sequence carrying the state variables
    (early `return e` inside the loop = the result e), plus a wrapper."""
    if arg_names(fn) != spec["args"]:
        raise Unsupported("signature changed: %s" % arg_names(fn))
    tr = Tr(bind={k: (v[0], v[1]) for k, v in spec.get("bind", {}).items()})
    env = {p: (coq_name(p), ty) for p, ty in spec.get("env", {}).items()}
    skip = {s: 0 for s in spec.get("skip", [])}
    stmts = [s for s in fn.body if not _is_docstring(s)]
    pre, loop, post = [], None, []
    for s in stmts:
        if src(s) in skip:
            skip[src(s)] += 1
            continue
        if loop is None and isinstance(s, ast.For):
            loop = s
        elif loop is None:
            pre.append(s)
        else:
            post.append(s)
    for s_, cnt in skip.items():
        if cnt != 1:
            raise Unsupported("expected glue statement not found exactly once: %s" % s_.split("\n")[0])
    if loop is None or loop.orelse:
        raise Unsupported("expected exactly one plain for loop")
    for sub in ast.walk(loop):
        if isinstance(sub, (ast.Break, ast.Continue, ast.For, ast.While)) and sub is not loop:
            raise Unsupported("break/continue/nested loop inside the loop")
    # state initialisation
    inits = []
    for s in pre:
        if not isinstance(s, ast.Assign):
            raise Unsupported("statement before the loop: `%s`" % src(s).split("\n")[0])
        n, t, ty = tr.assign(s, env)
        inits.append((n, t))
        env[n] = (coq_name(n), ty)
    state = []
    for sub in ast.walk(loop):
        # `xs[e] = e'` stores into the list bound to the state variable xs
        if isinstance(sub, ast.Subscript) and isinstance(sub.ctx, ast.Store):
            if not isinstance(sub.value, ast.Name) or sub.value.id not in env or sub.value.id in spec.get("env", {}):
                raise Unsupported("item assignment to `%s`" % src(sub.value))
            if sub.value.id not in state:
                state.append(sub.value.id)
        if isinstance(sub, ast.Name) and isinstance(sub.ctx, ast.Store):
            in_target = any(sub is n for n in ast.walk(loop.target))
            if in_target:
                continue
            if sub.id not in env:
                raise Unsupported("loop assigns `%s`, which is not initialised before the loop" % sub.id)
            if sub.id in spec.get("env", {}):
                raise Unsupported("loop assigns the parameter `%s`" % sub.id)
            if sub.id not in state:
                state.append(sub.id)
    it, ity = tr.expr(loop.iter, env)
    if not (isinstance(ity, tuple) and ity[0] == "list"):
        raise Unsupported("for over %s" % (ity,))
    pat, env_body = tr.binder(loop.target, ity[1], env)
    if pat.startswith("'"):
        pat = pat[1:]
    lname = spec["name"] + "_loop"
    params = [(n, t) for n, t in spec["params"]]
    carried = [(n, env[n][1]) for n in state]

    def call(e):
        return "(%s rest_ %s)" % (lname, " ".join([n for n, _ in params] + [e[n][0] for n in state]))

    def block(ss, e):
        if not ss:
            return call(e), None
        s, rest = ss[0], ss[1:]
        if isinstance(s, ast.Return):
            if s.value is None:
                raise Unsupported("bare return")
            return tr.expr(s.value, e)
        if (
            isinstance(s, ast.Assign)
            and len(s.targets) == 1
            and isinstance(s.targets[0], ast.Subscript)
            and isinstance(s.targets[0].value, ast.Name)
            and s.targets[0].value.id in state
            and not isinstance(s.targets[0].slice, ast.Slice)
        ):
            # xs[k] = v  ->  xs := py_setitem xs k v  (IndexError: outside every theorem's precondition)
            n = s.targets[0].value.id
            lt, lty = e[n]
            if not (isinstance(lty, tuple) and lty[0] == "list"):
                raise Unsupported("item assignment to non-list `%s`" % n)
            kt = tr.as_int(s.targets[0].slice, e, frozenset())
            vt, vty = tr.expr(s.value, e)
            if vty != lty[1]:
                raise Unsupported("item assignment of %s into %s" % (vty, lty))
            bt, bty = block(rest, e)
            return "(let %s := (py_setitem %s %s %s) in %s)" % (coq_name(n), lt, kt, vt, bt), bty
        if isinstance(s, ast.Assign):
            n, t, ty = tr.assign(s, e)
            if n not in state and n in e:
                raise Unsupported("loop rebinds `%s`" % n)
            if n in state and ty != e[n][1]:
                raise Unsupported("state variable `%s` changes type" % n)
            e2 = dict(e)
            e2[n] = (coq_name(n), ty)
            bt, bty = block(rest, e2)
            return "(let %s := %s in %s)" % (coq_name(n), t, bt), bty
        if isinstance(s, ast.If):
            c = tr.as_bool(s.test, e, frozenset())
            bt, bty = block(list(s.body) + rest, e)
            ot, oty = block(list(s.orelse) + rest, e)
            if bty is not None and oty is not None and bty != oty:
                raise Unsupported("branches return different types")
            return "(if %s then %s else %s)" % (c, bt, ot), (bty if bty is not None else oty)
        raise Unsupported("statement in loop: `%s`" % src(s).split("\n")[0])

    body, bty = block(list(loop.body), env_body)
    tail, tty = tr.fun_block(post, env, {})
    if tty != spec["ret"] or (bty is not None and bty != tty):
        raise Unsupported("result type %s / %s, expected %s" % (bty, tty, spec["ret"]))
    for k in spec.get("bind", {}):
        if k not in tr.used:
            raise Unsupported("expected expression `%s` no longer occurs in %s" % (k, spec["qual"]))
    allp = " ".join("(%s : %s)" % (coq_name(n), ty_str(t)) for n, t in params + carried)
    out = header(spec, text)
    out += "Fixpoint %s (l_ : %s) %s : %s :=\n  match l_ with\n  | [] => %s\n  | %s :: rest_ => %s\n  end.\n\n" % (
        lname, ty_str(ity), allp, ty_str(tty), tail, pat.replace("(", "(").strip(), body)
    wrapper = call({n: (coq_name(n), None) for n in state}).replace("rest_", it, 1)
    for n, t in reversed(inits):
        wrapper = "let %s := %s in\n  %s" % (coq_name(n), t, wrapper)
    out += "Definition %s %s : %s :=\n  %s.\n" % (
        spec["name"], " ".join("(%s : %s)" % (coq_name(n), ty_str(t)) for n, t in params), ty_str(tty), wrapper)
    return out


def t_imperative(spec, fn, text):
    """function whose body is an imperative block (Tr.imp_block): assignments to
    locals, list / dictionary element updates, nested `for` loops, `if`s,
    `assert`s, and a final `return e`.  With assertions (spec `asserts`) the
    result is an option: None = AssertionError."""
    if arg_names(fn, spec.get("kwarg")) != spec["args"]:
        raise Unsupported("signature changed: %s" % arg_names(fn, spec.get("kwarg")))
    tr = Tr(bind={k: (v[0], v[1]) for k, v in spec.get("bind", {}).items()}, none_elem=spec.get("none_elem"),
            chained=spec.get("chained", False), strings=spec.get("strings"))
    env = {p: (coq_name(p), ty) for p, ty in spec.get("env", {}).items()}
    tr.params_ro = set(env)
    tr.skip = {s: 0 for s in spec.get("skip", [])}
    n_assert = 0
    for st in fn.body:
        if src(st) in tr.skip:
            continue
        n_assert += sum(1 for n in ast.walk(st) if isinstance(n, ast.Assert))
    if bool(n_assert) != bool(spec.get("asserts", False)):
        raise Unsupported("%d assert statements, target declared %s assertions" % (
            n_assert, "with" if spec.get("asserts") else "without"))
    if n_assert:
        env["ok_"] = ("ok_", BOOL)

    def fell_off(_e, _n):
        raise Unsupported("function body falls off the end (returns None)")

    body = tr.imp_block(list(fn.body), env, frozenset(), fell_off, 0)
    for k in spec.get("bind", {}):
        if k not in tr.used:
            raise Unsupported("expected expression `%s` no longer occurs in %s" % (k, spec["qual"]))
    for s_, cnt in tr.skip.items():
        if cnt != 1:
            raise Unsupported("expected glue statement not found exactly once: %s" % s_.split("\n")[0])
    if tr.imp_ret != spec["ret"]:
        raise Unsupported("result type %s, expected %s" % (tr.imp_ret, spec["ret"]))
    rty = TOpt(spec["ret"]) if n_assert else spec["ret"]
    if n_assert:
        body = "let ok_ := true in\n  " + body
    params = " ".join("(%s : %s)" % (n, ty_str(t)) for n, t in spec["params"])
    return header(spec, text) + "Definition %s %s : %s :=\n  %s.\n" % (spec["name"], params, ty_str(rty), body)


def _walk_stmts(body, path=()):
    """(statement, enclosing statement kinds, the block holding it, index) in source order"""
    for i, st in enumerate(body):
        yield st, path, body, i
        for field in ("body", "orelse", "finalbody"):
            sub = getattr(st, field, None)
            if isinstance(sub, list) and sub and isinstance(sub[0], ast.stmt):
                yield from _walk_stmts(sub, path + (type(st).__name__,))
        for h in getattr(st, "handlers", []) or []:
            yield from _walk_stmts(h.body, path + (type(st).__name__,))


LOCATED = {}    # name of a t_local definition -> {"expr": source text, "lets": [(name, source text)]} (self-tests)


def t_local(spec, fn, text):
    """ONE expression inside a (stateful) method, located structurally:
         ("call_arg", f)            the argument of the unique statement `f(<arg>)`
         ("if_test", s)             the test of the unique `if` whose body starts with statement s
         ("assign", x, i, n)        the value of the i-th of exactly n assignments `x = ...`
       `path` lists the kinds of the enclosing compound statements (so wrapping the
       statement in a new condition or loop is noticed); locals the expression uses
       must be assigned exactly once, earlier in the same block (`n_lets` of them).  What is
       tied is this expression as a function of the values it reads (parameters,
       bound attribute reads); the control flow around it is tied by the
       correspondence check, not by the translator."""
    if arg_names(fn) != spec["args"]:
        raise Unsupported("signature changed: %s" % arg_names(fn))
    loc = spec["locate"]
    found = []
    for st, path, block, idx in _walk_stmts(fn.body):
        if loc[0] == "call_arg":
            if (isinstance(st, ast.Expr) and isinstance(st.value, ast.Call) and src(st.value.func) == loc[1]):
                c = st.value
                if len(c.args) != 1 or c.keywords or isinstance(c.args[0], ast.Starred):
                    raise Unsupported("`%s` is not called with one argument" % loc[1])
                found.append((c.args[0], path, block, idx))
        elif loc[0] == "if_test":
            if isinstance(st, ast.If) and st.body and src(st.body[0]) == loc[1]:
                found.append((st.test, path, block, idx))
        elif loc[0] == "assign":
            if isinstance(st, (ast.Assign, ast.AnnAssign)):
                tg = st.targets if isinstance(st, ast.Assign) else [st.target]
                if len(tg) == 1 and isinstance(tg[0], ast.Name) and tg[0].id == loc[1] and st.value is not None:
                    found.append((st.value, path, block, idx))
        else:
            raise Unsupported("unknown locator %r" % (loc,))
    want = loc[3] if loc[0] == "assign" else 1
    if len(found) != want:
        raise Unsupported("%s: expected %d statements matching %r, found %d" % (spec["qual"], want, loc, len(found)))
    node, path, block, idx = found[loc[2] if loc[0] == "assign" else 0]
    if list(path) != list(spec.get("path", [])):
        raise Unsupported("%s: the located statement is nested in %s, expected %s" % (spec["qual"], list(path), spec.get("path", [])))
    if loc[0] == "assign":
        # every other store to the name must be one of the counted assignments
        stores = sum(1 for n in ast.walk(fn) if isinstance(n, ast.Name) and isinstance(n.ctx, ast.Store) and n.id == loc[1])
        if stores != want:
            raise Unsupported("`%s` is also bound by other statements" % loc[1])
    # statements the typing of the parameters relies on (e.g. the None test that makes an
    # Optional an int): each must stand, verbatim, earlier in the same block
    for need in spec.get("requires_before", []):
        if sum(1 for b in block[:idx] if src(b) == need) != 1:
            raise Unsupported("%s: expected statement `%s` before the located one" % (spec["qual"], need.split("\n")[0]))
    tr = Tr(bind={k: (v[0], v[1]) for k, v in spec.get("bind", {}).items()}, none_elem=spec.get("none_elem"),
            chained=spec.get("chained", False), strings=spec.get("strings"))
    env = {p: (coq_name(p), ty) for p, ty in spec.get("env", {}).items()}
    # locals the expression reads: each must be assigned exactly once in the function, by a
    # simple statement earlier in the same block; they become `let`s (found by use, not by
    # name, so renaming such a local is harmless)
    lets = []
    let_src = []

    def add_lets(expr_node, depth=0):
        if depth > 8:
            raise Unsupported("locals depend on each other too deeply")
        for name in sorted(Tr.loaded_names([expr_node])):
            if name in env or name in [n for n, _ in lets]:
                continue
            defs = [b for b in block[:idx] if isinstance(b, ast.Assign) and len(b.targets) == 1
                    and isinstance(b.targets[0], ast.Name) and b.targets[0].id == name]
            stores = sum(1 for n in ast.walk(fn) if isinstance(n, ast.Name) and isinstance(n.ctx, ast.Store) and n.id == name)
            if not defs and not stores:
                continue                      # not a local (a builtin such as max/any, or unknown: expr() decides)
            if len(defs) != 1 or stores != 1:
                raise Unsupported("local `%s` is not assigned exactly once, before the located statement in its block" % name)
            add_lets(defs[0].value, depth + 1)
            t, ty = tr.expr(defs[0].value, env)
            if ty in (NONE, EMPTY):
                raise Unsupported("local `%s` has an undetermined type" % name)
            env[name] = (coq_name(name), ty)
            lets.append((coq_name(name), t))
            let_src.append((name, src(defs[0].value)))

    add_lets(node)
    if len(lets) != spec.get("n_lets", 0):
        raise Unsupported("%s: the located expression uses %d locals, expected %d" % (spec["qual"], len(lets), spec.get("n_lets", 0)))
    # names the expression reads must be parameters, lets or comprehension variables
    t, ty = (tr.as_bool(node, env, frozenset()), BOOL) if spec["ret"] == BOOL else tr.expr(node, env)
    if ty != spec["ret"]:
        raise Unsupported("result type %s, expected %s" % (ty, spec["ret"]))
    for k in spec.get("bind", {}):
        if k not in tr.used:
            raise Unsupported("expected expression `%s` no longer occurs in the located expression of %s" % (k, spec["qual"]))
    body = t
    for n, lt in reversed(lets):
        body = "let %s := %s in\n  %s" % (n, lt, body)
    LOCATED[spec["name"]] = {"expr": src(node), "lets": let_src}
    params = " ".join("(%s : %s)" % (n, ty_str(pt)) for n, pt in spec["params"])
    note = "(* located expression: `%s` *)\n" % src(node).replace("(*", "( *").replace("*)", "* )")
    return header(spec, text) + note + "Definition %s %s : %s :=\n  %s.\n" % (spec["name"], params, ty_str(ty), body)


def t_classconst(spec, fn, text):
    """a class-level constant `NAME = (A.X, A.Y, ...)` whose elements are bound to
    integers by the spec (the model's encoding of the enumeration members)"""
    # `fn` is the ClassDef here
    found = [st for st in fn.body if isinstance(st, ast.Assign) and len(st.targets) == 1
             and isinstance(st.targets[0], ast.Name) and st.targets[0].id == spec["const"]]
    if len(found) != 1:
        raise Unsupported("%d class-level assignments of %s" % (len(found), spec["const"]))
    stores = sum(1 for n in ast.walk(fn) if isinstance(n, (ast.Name, ast.Attribute)) and isinstance(n.ctx, ast.Store)
                 and (getattr(n, "id", None) == spec["const"] or getattr(n, "attr", None) == spec["const"]))
    if stores != 1:
        raise Unsupported("%s is assigned %d times in the class" % (spec["const"], stores))
    tr = Tr(bind={k: (v[0], v[1]) for k, v in spec.get("bind", {}).items()})
    t, ty = tr.expr(found[0].value, {})
    if ty != spec["ret"]:
        raise Unsupported("type %s, expected %s" % (ty, spec["ret"]))
    return header(spec, ast.get_source_segment(spec["_source"], found[0]) or "") + \
        "Definition %s : %s :=\n  %s.\n" % (spec["name"], ty_str(ty), t)


def t_closure_generator(spec, fn, text):
    """a generator method that defines ONE nested recursive generator (a closure
    over attributes of self only) and yields from it:

        def outer(self, n, **parameters):
            x = <bound call>
            def helper(a, **kw): ... yield ... / for c in helper(a[1:], **d): yield ...
            if c:
                ...; yield from helper(...)

    -> `<name>_helper_fuel` (Fixpoint on fuel, the bound attributes of self as leading
    parameters), `<name>_helper` (fuel from the spec) and `<name>`."""
    if arg_names(fn, spec.get("kwarg")) != spec["args"]:
        raise Unsupported("signature changed: %s" % arg_names(fn, spec.get("kwarg")))
    body = [st for st in fn.body if not _is_docstring(st)]
    inner = [st for st in body if isinstance(st, ast.FunctionDef)]
    if len(inner) != 1 or inner[0].name != spec["helper"]:
        raise Unsupported("expected exactly one nested function %s" % spec["helper"])
    h = inner[0]
    if any(isinstance(n, (ast.FunctionDef, ast.Lambda, ast.ClassDef, ast.Nonlocal, ast.Global)) for st in h.body for n in ast.walk(st)):
        raise Unsupported("nested definitions inside %s" % h.name)
    if h.decorator_list or h.args.defaults or h.args.kw_defaults:
        raise Unsupported("decorators / default arguments on %s" % h.name)
    hk = spec.get("helper_kwarg")
    if arg_names(h, hk) != spec["helper_args"]:
        raise Unsupported("signature of %s changed: %s" % (h.name, arg_names(h, hk)))
    hnames = spec["helper_args"] + ([hk] if hk else [])
    htys = [spec["helper_types"][n] for n in hnames]
    elem = spec["elem"]
    closure = spec["closure"]          # [(gallina name, type)] : attributes of self the helper reads, via bind
    cl_names = " ".join(n for n, _ in closure)
    cl_params = " ".join("(%s : %s)" % (n, ty_str(t)) for n, t in closure)
    bind = {k: (v[0], v[1]) for k, v in spec.get("bind", {}).items()}
    hbind = {k: v for k, v in bind.items() if v[0] in [n for n, _ in closure]}
    fname = spec["name"] + "_helper_fuel"
    # ---- the helper
    trh = Tr(bind=hbind, rec=(h.name, "%s fuel' %s" % (fname, cl_names), elem, htys, bool(hk)),
             chained=spec.get("chained", False), strings=spec.get("strings"))
    if not any(isinstance(n, (ast.Yield, ast.YieldFrom)) for n in ast.walk(h)):
        raise Unsupported("%s is not a generator" % h.name)
    henv = {n: (coq_name(n), t) for n, t in zip(hnames, htys)}
    hbody = trh.gen_block(list(h.body), henv, elem)
    hparams = " ".join("(%s : %s)" % (coq_name(n), ty_str(t)) for n, t in zip(hnames, htys))
    out = header(spec, text)
    out += "(* fuel counts nested calls of %s; the wrapper supplies %s *)\n" % (h.name, spec["fuel"])
    out += "Fixpoint %s (fuel : nat) %s %s : %s :=\n  match fuel with\n  | O => []\n  | S fuel' =>\n  %s\n  end.\n\n" % (
        fname, cl_params, hparams, ty_str(TList(elem)), hbody)
    out += "Definition %s_helper %s %s : %s :=\n  %s (%s) %s %s.\n\n" % (
        spec["name"], cl_params, hparams, ty_str(TList(elem)), fname, spec["fuel"], cl_names, " ".join(hnames))
    # ---- the outer generator
    tro = Tr(bind=bind, rec=(h.name, "%s_helper %s" % (spec["name"], cl_names), elem, htys, bool(hk)),
             chained=spec.get("chained", False), strings=spec.get("strings"))
    oenv = {p: (coq_name(p), ty) for p, ty in spec.get("env", {}).items()}
    obody = tro.gen_block([st for st in body if st is not h], oenv, elem)
    for k in bind:
        if k not in tro.used and k not in trh.used:
            raise Unsupported("expected expression `%s` no longer occurs in %s" % (k, spec["qual"]))
    params = " ".join("(%s : %s)" % (n, ty_str(t)) for n, t in spec["params"])
    out += "Definition %s %s : %s :=\n  %s.\n" % (spec["name"], params, ty_str(TList(elem)), obody)
    return out


ANNOT = {
    "int": Z,
    "Tuple[int, ...]": TList(Z),
    "Tuple[Optional[int], ...]": TList(TOpt(Z)),
    "List[Optional[int]]": TList(TOpt(Z)),
    "List[int]": TList(Z),
    "Parameters": TList(Z),
    "Tuple[Tuple[int, ...], ...]": TList(TList(Z)),
}


def t_generator(spec, fn, text):
    """recursive generator -> Fixpoint on fuel + wrapper"""
    names = arg_names(fn)
    if names != spec["args"]:
        raise Unsupported("signature changed: %s" % names)
    ptys = []
    for a in fn.args.args:
        if a.annotation is None or src(a.annotation) not in ANNOT:
            raise Unsupported("parameter %s: unsupported annotation" % a.arg)
        ptys.append(ANNOT[src(a.annotation)])
    if fn.args.defaults:
        raise Unsupported("default arguments")
    if fn.returns is None or src(fn.returns) != spec["returns"]:
        raise Unsupported("return annotation changed")
    elem = spec["elem"]
    fname = spec["name"] + "_fuel"
    tr = Tr(rec=(fn.name, fname + " fuel'", elem, ptys))
    env = {n: (coq_name(n), t) for n, t in zip(names, ptys)}
    if not any(isinstance(n, (ast.Yield, ast.YieldFrom)) for n in ast.walk(fn)):
        raise Unsupported("not a generator")
    body = tr.gen_block(list(fn.body), env, elem)
    params = " ".join("(%s : %s)" % (coq_name(n), ty_str(t)) for n, t in zip(names, ptys))
    out = header(spec, text)
    out += (
        "(* fuel counts nested calls; the wrapper supplies %s, which the\n"
        "   hand-written Count/CompositionsSpec.v proves is always enough. *)\n" % spec["fuel"]
    )
    out += "Fixpoint %s (fuel : nat) %s : %s :=\n  match fuel with\n  | O => []\n  | S fuel' =>\n  %s\n  end.\n\n" % (
        fname, params, ty_str(TList(elem)), body)
    out += "Definition %s %s : %s :=\n  %s (%s) %s.\n" % (
        spec["name"], params, ty_str(TList(elem)), fname, spec["fuel"], " ".join(names))
    return out


TARGETS = {
    "reverse_shifts": dict(
        name="reverse_shifts", out="ReverseShifts", kind=t_function,
        file="comb_spec_searcher/strategies/rule.py", qual="ReverseRule.shifts",
        args=["self"],
        params=[("orig_shifts", TList(Z)), ("idx", Z)],
        bind={"self.original_rule.shifts()": ("orig_shifts", TList(Z)), "self.idx": ("idx", Z)},
        ret=TList(Z),
    ),
    "product_shifts": dict(
        name="product_shifts", out="ProductShifts", kind=t_function,
        file="comb_spec_searcher/strategies/strategy.py", qual="CartesianProductStrategy.shifts",
        args=["self", "comb_class", "children"],
        params=[("children", TList(CLS))], env={"children": TList(CLS)},
        skip=[GLUE_CHILDREN], ret=TList(Z),
    ),
    "union_shifts": dict(
        name="union_shifts", out="UnionShifts", kind=t_function,
        file="comb_spec_searcher/strategies/strategy.py", qual="DisjointUnionStrategy.shifts",
        args=["self", "comb_class", "children"],
        params=[("children", TList(CLS))], env={"children": TList(CLS)},
        skip=[GLUE_CHILDREN], ret=TList(Z),
    ),
    "quotient_parent_shift": dict(
        name="quotient_parent_shift", out="QuotientParentShift", kind=t_select,
        file="comb_spec_searcher/strategies/constructor/cartesian.py", qual="Quotient.__init__",
        args=["self", "parent", "children", "idx", "extra_parameters"],
        params=[("children", TList(CLS)), ("idx", Z)], env={"children": TList(CLS), "idx": Z},
        bind={"self.idx": ("idx", Z)},
        require_store={"self.idx": "idx"},
        select=[
            ("self._min_sizes", "quotient_min_sizes"),
            ("self._max_sizes", "quotient_max_sizes"),
            ("self._parent_shift", "quotient_parent_shift"),
        ],
    ),
    "can_give_terms": dict(
        name="can_give_terms", out="ForestCanGiveTerms", kind=t_function,
        file="comb_spec_searcher/rule_db/forest.py", qual="TableMethod._can_give_terms",
        decorators=["staticmethod"], args=["shifts"],
        params=[("shifts", TList(TOpt(Z)))], env={"shifts": TList(TOpt(Z))},
        ret=BOOL,
    ),
    "compute_shift": dict(
        name="compute_shift", out="ForestComputeShift", kind=t_function,
        file="comb_spec_searcher/rule_db/forest.py", qual="TableMethod._compute_shift",
        args=["self", "rule_key", "shifts_for_zero"],
        # the two reads of the function table are the parameters: the value of
        # the parent and the values of the children, in order
        params=[("parent_value", TOpt(Z)), ("children_values", TList(TOpt(Z))), ("shifts_for_zero", TList(Z))],
        env={"shifts_for_zero": TList(Z)},
        bind={
            "self._function[rule_key[0]]": ("parent_value", TOpt(Z)),
            "map(self._function.__getitem__, rule_key[1])": ("children_values", TList(TOpt(Z))),
        },
        none_elem=TOpt(Z), ret=TList(TOpt(Z)),
    ),
    "preimage_gap": dict(
        name="preimage_gap", out="ForestPreimageGap", kind=t_loopfun,
        file="comb_spec_searcher/rule_db/forest.py", qual="Function.preimage_gap",
        args=["self", "length"],
        params=[("preimage_count", TList(Z)), ("length", Z)], env={"length": Z},
        bind={"self._preimage_count": ("preimage_count", TList(Z))},
        skip=["if length <= 0:\n    raise ValueError('length argument must be positive')"],
        ret=Z,
    ),
    "perm_inv": dict(
        name="perm_inv", out="PermInv", kind=t_loopfun,
        file="comb_spec_searcher/isomorphism.py", qual="Bijection._perm_inv",
        decorators=["staticmethod"], args=["perm"],
        params=[("perm", TList(Z))], env={"perm": TList(Z)},
        extra_header="From CSS Require Import Gen.PreludeSeq.\n\n",
        ret=TList(Z),
    ),
    "compositions": dict(
        name="compositions", out="Compositions", kind=t_generator,
        file="comb_spec_searcher/utils.py", qual="compositions",
        args=["n", "k", "min_sizes", "max_sizes"],
        returns="Iterator[Tuple[int, ...]]", elem=TList(Z), fuel="Z.to_nat k + 1",
    ),
    # ---- the three param_map variants (parameter maps of the constructors)
    "constructor_param_map": dict(
        name="constructor_param_map", out="ConstructorParamMap", kind=t_imperative,
        file="comb_spec_searcher/strategies/constructor/base.py", qual="Constructor.param_map",
        decorators=["staticmethod"], args=["child_pos_to_parent_pos", "num_parent_params", "param"],
        params=[("child_pos_to_parent_pos", TList(TList(Z))), ("num_parent_params", Z), ("param", TList(Z))],
        env={"child_pos_to_parent_pos": TList(TList(Z)), "num_parent_params": Z, "param": TList(Z)},
        ret=TList(Z),
    ),
    "union_param_map": dict(
        name="union_param_map", out="UnionParamMap", kind=t_imperative,
        file="comb_spec_searcher/strategies/constructor/disjoint.py", qual="DisjointUnion.param_map",
        decorators=["staticmethod"], args=["child_pos_to_parent_pos", "num_parent_params", "param"],
        params=[("child_pos_to_parent_pos", TList(TList(Z))), ("num_parent_params", Z), ("param", TList(Z))],
        env={"child_pos_to_parent_pos": TList(TList(Z)), "num_parent_params": Z, "param": TList(Z)},
        asserts=True, ret=TList(Z),
    ),
    "quotient_param_map": dict(
        name="quotient_param_map", out="QuotientParamMap", kind=t_imperative,
        file="comb_spec_searcher/strategies/constructor/cartesian.py", qual="Quotient.param_map",
        decorators=["staticmethod"], args=["child_pos_to_parent_pos", "num_parent_params", "param"],
        params=[("child_pos_to_parent_pos", TList(TList(Z))), ("num_parent_params", Z), ("param", TList(Z))],
        env={"child_pos_to_parent_pos": TList(TList(Z)), "num_parent_params": Z, "param": TList(Z)},
        asserts=True, ret=TList(Z),
    ),
    # ---- class_queue.py (C16)
    "queue_can_do_inferral": dict(
        name="can_do_inferral", out="QueueCanDoInferral", kind=t_function,
        file="comb_spec_searcher/class_queue.py", qual="DefaultQueue.can_do_inferral",
        args=["self", "label"],
        params=[("inferral_strategies", TList(Z)), ("inferral_expanded", TList(Z)), ("label", Z)],
        env={"label": Z},
        bind={"self.inferral_strategies": ("inferral_strategies", TList(Z)),
              "self._inferral_expanded": ("inferral_expanded", TList(Z))},
        ret=BOOL,
    ),
    "queue_can_do_initial": dict(
        name="can_do_initial", out="QueueCanDoInitial", kind=t_function,
        file="comb_spec_searcher/class_queue.py", qual="DefaultQueue.can_do_initial",
        args=["self", "label"],
        params=[("initial_strategies", TList(Z)), ("initial_expanded", TList(Z)), ("label", Z)],
        env={"label": Z},
        bind={"self.initial_strategies": ("initial_strategies", TList(Z)),
              "self._initial_expanded": ("initial_expanded", TList(Z))},
        ret=BOOL,
    ),
    "queue_change_level_order": dict(
        name="change_level_order", out="QueueChangeLevelOrder", kind=t_local,
        file="comb_spec_searcher/class_queue.py", qual="DefaultQueue._change_level",
        args=["self"], locate=("call_arg", "self.curr_level[0].extend"), path=[],
        params=[("next_level", TDict(Z))],
        bind={"self.next_level": ("next_level", TDict(Z))},
        ret=TList(Z),
    ),
    # ---- tree_searcher.py (C05)
    "prune_rule_test": dict(
        name="prune_rule_test", out="TreePruneRuleTest", kind=t_local,
        file="comb_spec_searcher/tree_searcher.py", qual="prune",
        args=["rdict"], locate=("if_test", "rule_set.remove(rule)"), path=["While", "For", "For"],
        params=[("rdict", TDict(TList(TList(Z)))), ("rule", TList(Z))],
        env={"rdict": TDict(TList(TList(Z))), "rule": TList(Z)},
        ret=BOOL,
    ),
    "iterative_prune_rule_test": dict(
        name="iterative_prune_rule_test", out="TreeIterativePruneRuleTest", kind=t_local,
        file="comb_spec_searcher/tree_searcher.py", qual="iterative_prune",
        args=["rules_dict", "root"], locate=("if_test", "changed = True"), path=["While", "For", "For"],
        params=[("verified_labels", TList(Z)), ("rule", TList(Z))],
        env={"verified_labels": TList(Z), "rule": TList(Z)},
        ret=BOOL,
    ),
    "iterative_finder_rule_test": dict(
        name="iterative_finder_rule_test", out="TreeIterativeFinderRuleTest", kind=t_local,
        file="comb_spec_searcher/tree_searcher.py", qual="iterative_proof_tree_finder",
        args=["rules_dict", "root"], locate=("if_test", "changed = True"), path=["While", "For", "For"],
        params=[("verified_labels", TList(Z)), ("rule", TList(Z))],
        env={"verified_labels": TList(Z), "rule": TList(Z)},
        ret=BOOL,
    ),
    # ---- equiv_db.py (C06)
    "equiv_heaviest": dict(
        name="equiv_heaviest", out="EquivHeaviest", kind=t_local,
        file="comb_spec_searcher/equiv_db.py", qual="EquivalenceDB._set_equivalent",
        args=["self", "label", "other_label"], locate=("assign", "heaviest", 0, 1), path=[], n_lets=1,
        params=[("weights", TDict(Z)), ("root_label", Z), ("root_other", Z)],
        bind={"self.weights": ("weights", TDict(Z)), "self[label]": ("root_label", Z),
              "self[other_label]": ("root_other", Z)},
        ret=Z,
    ),
    # ---- rule_db/forest.py, the gap bookkeeping of the table method (C03) and the bucket order (C11)
    "increase_value_hold": dict(
        name="increase_value_hold", out="ForestIncreaseValueHold", kind=t_local,
        file="comb_spec_searcher/rule_db/forest.py", qual="TableMethod._increase_value",
        args=["self", "comb_class", "rule_idx"],
        locate=("if_test", "self._rule_holding_extra_terms.add(rule_idx)"), path=[],
        # current_value is the finite value of the class (the statement before returns on None)
        params=[("current_value", Z), ("gap_end", Z)], env={"current_value": Z},
        requires_before=["current_value = self._function[comb_class]", "if current_value is None:\n    return"],
        bind={"self._current_gap[1]": ("gap_end", Z)},
        ret=BOOL,
    ),
    "correct_gap_new_gap": dict(
        name="correct_gap_new_gap", out="ForestCorrectGapNewGap", kind=t_local,
        file="comb_spec_searcher/rule_db/forest.py", qual="TableMethod._correct_gap",
        args=["self"], locate=("assign", "new_gap", 0, 1), path=[], n_lets=1,
        params=[("gap_start", Z), ("gap_size", Z)],
        bind={"self._function.preimage_gap(self._gap_size)": ("gap_start", Z), "self._gap_size": ("gap_size", Z)},
        ret=TList(Z),
    ),
    "correct_gap_release": dict(
        name="correct_gap_release", out="ForestCorrectGapRelease", kind=t_local,
        file="comb_spec_searcher/rule_db/forest.py", qual="TableMethod._correct_gap",
        args=["self"],
        locate=("if_test", "self._processing_queue.extend(self._rule_holding_extra_terms)"), path=[],
        params=[("new_gap", TList(Z)), ("gap_end", Z)], env={"new_gap": TList(Z)},
        bind={"self._current_gap[1]": ("gap_end", Z)},
        ret=BOOL,
    ),
    "minimize_order": dict(
        name="minimize_order", out="ForestMinimizeOrder", kind=t_classconst,
        file="comb_spec_searcher/rule_db/forest.py", qual="ForestRuleExtractor", const="MINIMIZE_ORDER",
        # the model's (and the harness's) numbering of the buckets: Forest/Extractor.v bkey
        bind={"RuleBucket.REVERSE": ("0", Z), "RuleBucket.NORMAL": ("1", Z),
              "RuleBucket.EQUIV": ("2", Z), "RuleBucket.VERIFICATION": ("3", Z)},
        ret=TList(Z),
    ),
    # ---- CartesianProduct.reliance_profile and _valid_compositions (C08): dictionaries keyed by
    #      parameter names; names are integers in the models, "n" is 0
    "product_reliance_profile": dict(
        name="product_reliance_profile", out="ProductRelianceProfile", kind=t_imperative,
        file="comb_spec_searcher/strategies/constructor/cartesian.py", qual="CartesianProduct.reliance_profile",
        args=["self", "n"], kwarg="parameters",
        params=[("minimum_sizes", TDict(Z)), ("min_child_sizes", TList(TDict(Z))), ("max_child_sizes", TList(TDict(Z))),
                ("n", Z), ("parameters", TDict(Z))],
        env={"n": Z, "parameters": TDict(Z)},
        bind={"self.minimum_sizes": ("minimum_sizes", TDict(Z)),
              "self.min_child_sizes": ("min_child_sizes", TList(TDict(Z))),
              "self.max_child_sizes": ("max_child_sizes", TList(TDict(Z)))},
        # a sanity assertion on the key sets (sets of strings): not translated
        skip=["assert all((set(['n', *parameters]) == set(min_child_sizes) for min_child_sizes in self.min_child_sizes))"],
        strings={"n": 0}, ret=TList(TDict(TList(Z))),
    ),
    "product_valid_compositions": dict(
        name="valid_compositions", out="ProductValidCompositions", kind=t_closure_generator,
        file="comb_spec_searcher/strategies/constructor/cartesian.py", qual="CartesianProduct._valid_compositions",
        args=["self", "n"], kwarg="parameters",
        helper="_helper", helper_args=["minmaxes"], helper_kwarg="parameters",
        helper_types={"minmaxes": TList(TDict(TList(Z))), "parameters": TDict(Z)},
        closure=[("parent_parameters", TList(Z))],
        params=[("parent_parameters", TList(Z)), ("reliance_profile", TList(TDict(TList(Z)))), ("n", Z), ("parameters", TDict(Z))],
        env={"n": Z, "parameters": TDict(Z)},
        bind={"self.parent_parameters": ("parent_parameters", TList(Z)),
              "self.reliance_profile(n, **parameters)": ("reliance_profile", TList(TDict(TList(Z))))},
        elem=TList(TDict(Z)), fuel="S (length minmaxes)", strings={"n": 0}, chained=True,
    ),
    # ---- strategies/rule.py EquivalencePathRule.constructor: the composed dictionary (C09)
    "path_dict_initial": dict(
        name="path_dict_initial", out="PathDictInitial", kind=t_local,
        file="comb_spec_searcher/strategies/rule.py", qual="EquivalencePathRule.constructor",
        decorators=["property"], args=["self"], locate=("assign", "extra_parameters", 0, 2), path=["If"],
        params=[("first_names", TList(Z))],
        bind={"self.comb_class.extra_parameters": ("first_names", TList(Z))},
        ret=TDict(Z),
    ),
    "path_dict_compose": dict(
        name="path_dict_compose", out="PathDictCompose", kind=t_local,
        file="comb_spec_searcher/strategies/rule.py", qual="EquivalencePathRule.constructor",
        decorators=["property"], args=["self"], locate=("assign", "extra_parameters", 1, 2), path=["If", "For"],
        params=[("extra_parameters", TDict(Z)), ("rules_parameters", TDict(Z))],
        env={"extra_parameters": TDict(Z), "rules_parameters": TDict(Z)},
        ret=TDict(Z),
    ),
    "path_dict_invert": dict(
        name="path_dict_invert", out="PathDictInvert", kind=t_local,
        file="comb_spec_searcher/strategies/rule.py", qual="EquivalencePathRule.constructor",
        decorators=["property"], args=["self"], locate=("assign", "rules_parameters", 1, 2), path=["If", "For", "If"],
        params=[("rules_parameters", TDict(Z))], env={"rules_parameters": TDict(Z)},
        ret=TDict(Z),
    ),
    "path_dict_duplicates": dict(
        name="path_dict_duplicates", out="PathDictDuplicates", kind=t_local,
        file="comb_spec_searcher/strategies/rule.py", qual="EquivalencePathRule.constructor",
        decorators=["property"], args=["self"],
        locate=("if_test", "raise NotImplementedError('Complement rules with duplicate parameters are not supported in equivalence path rules')"),
        path=["If", "For", "If"],
        params=[("rules_parameters", TDict(Z))], env={"rules_parameters": TDict(Z)},
        ret=BOOL,
    ),
    # ---- the composition bounds CartesianProduct.get_terms / get_sub_objects hand to utils.compositions
    "product_min_sizes": dict(
        name="product_min_sizes", out="ProductMinSizes", kind=t_function,
        file="comb_spec_searcher/strategies/constructor/cartesian.py", qual="CartesianProduct.min_sizes",
        decorators=["property"], args=["self"],
        params=[("min_child_sizes", TList(TDict(Z)))],
        bind={"self.min_child_sizes": ("min_child_sizes", TList(TDict(Z)))},
        strings={"n": 0}, ret=TList(Z),
    ),
    "product_max_sizes": dict(
        name="product_max_sizes", out="ProductMaxSizes", kind=t_function,
        file="comb_spec_searcher/strategies/constructor/cartesian.py", qual="CartesianProduct.max_sizes",
        decorators=["property"], args=["self"],
        params=[("max_child_sizes", TList(TDict(Z)))],
        bind={"self.max_child_sizes": ("max_child_sizes", TList(TDict(Z)))},
        strings={"n": 0}, ret=TList(TOpt(Z)),
    ),
}

PRELUDE = """(* GENERATED by harness/translate.py (fixed text) — the Python primitives the
   generated definitions are written in.  DO NOT EDIT. *)
From Coq Require Import ZArith List Bool.
From CSS Require Export Base.PyList Gen.PreludeSeq.
Import ListNotations.
Open Scope Z_scope.

(* xs[k]: negative indices wrap once as in Python; where Python raises
   IndexError the default is returned (outside every theorem's precondition). *)
Definition py_get {A} (d : A) (l : list A) (k : Z) : A :=
  if (0 <=? k) && (k <? zlen l) then nth (Z.to_nat k) l d
  else if (k <? 0) && (- zlen l <=? k) then nth (Z.to_nat (zlen l + k)) l d
  else d.

(* sum(xs) on integers (Python folds from the left; + on Z is associative) *)
Definition py_sum (l : list Z) : Z := fold_right Z.add 0 l.

Fixpoint py_enumerate_from {A} (s : Z) (l : list A) : list (Z * A) :=
  match l with
  | [] => []
  | x :: t => (s, x) :: py_enumerate_from (s + 1) t
  end.
Definition py_enumerate {A} (l : list A) : list (Z * A) := py_enumerate_from 0 l.

(* range(a, b) *)
Definition py_range (a b : Z) : list Z :=
  map (fun j => a + Z.of_nat j) (seq 0 (Z.to_nat (b - a))).

Definition is_some {A} (o : option A) : bool := match o with Some _ => true | None => false end.
Definition is_none {A} (o : option A) : bool := match o with Some _ => false | None => true end.
(* an Optional[int] used as an int where the code has just tested `is not None` *)
Definition py_unopt (o : option Z) : Z := match o with Some v => v | None => 0 end.

(* `assert c` inside a generator: a failing assertion ends the output here
   (Python raises AssertionError instead; see harness/translate.py) *)
Definition py_assert {A} (c : bool) (rest : list A) : list A := if c then rest else [].

(* x in xs (tuple / list / set of integers, observed through membership) *)
Definition py_in (x : Z) (l : list Z) : bool := existsb (Z.eqb x) l.
(* bool(xs): truthiness of a sequence, set or dictionary *)
Definition py_nonempty {A} (l : list A) : bool := match l with [] => false | _ :: _ => true end.

(* dictionaries with integer keys: association lists in insertion order.
   d[k] (KeyError -> the default, outside every theorem's precondition), k in d,
   d[k] = v (a known key keeps its position), {k: v for ...} / dict(pairs) *)
Fixpoint py_dget {V} (d : V) (m : list (Z * V)) (k : Z) : V :=
  match m with
  | [] => d
  | (k', v) :: t => if k' =? k then v else py_dget d t k
  end.
Fixpoint py_dfind {V} (m : list (Z * V)) (k : Z) : option V :=
  match m with
  | [] => None
  | (k', v) :: t => if k' =? k then Some v else py_dfind t k
  end.
Definition py_dmem {V} (m : list (Z * V)) (k : Z) : bool := existsb (fun kv : Z * V => fst kv =? k) m.
Fixpoint py_dset {V} (m : list (Z * V)) (k : Z) (v : V) : list (Z * V) :=
  match m with
  | [] => [(k, v)]
  | (k', v') :: t => if k' =? k then (k', v) :: t else (k', v') :: py_dset t k v
  end.
Definition py_dict_of {V} (l : list (Z * V)) : list (Z * V) :=
  fold_left (fun m (kv : Z * V) => py_dset m (fst kv) (snd kv)) l [].

(* xs[k] = v on a list is py_setitem of Gen/PreludeSeq.v (re-exported above) *)

(* itertools.product of the sequences rs: first coordinate slowest *)
Fixpoint py_product {A} (rs : list (list A)) : list (list A) :=
  match rs with
  | [] => [[]]
  | r :: rs' => flat_map (fun x => map (cons x) (py_product rs')) r
  end.

(* sorted(xs, key=f) with an integer key: stable *)
Fixpoint py_insert_by {A} (key : A -> Z) (x : A) (s : list A) : list A :=
  match s with
  | [] => [x]
  | y :: r => if key y <? key x then y :: py_insert_by key x r else x :: y :: r
  end.
Fixpoint py_sorted_by {A} (key : A -> Z) (l : list A) : list A :=
  match l with
  | [] => []
  | x :: t => py_insert_by key x (py_sorted_by key t)
  end.

(* min(xs) / max(xs) of integers (ValueError on an empty sequence -> 0) *)
Definition py_max_list (l : list Z) : Z := match l with [] => 0 | x :: t => fold_left Z.max t x end.
Definition py_min_list (l : list Z) : Z := match l with [] => 0 | x :: t => fold_left Z.min t x end.
(* max of tuples of integers: lexicographic, the first maximal element wins *)
Fixpoint py_lex_ltb (a b : list Z) : bool :=
  match a, b with
  | [], [] => false
  | [], _ :: _ => true
  | _ :: _, [] => false
  | x :: a', y :: b' => (x <? y) || ((x =? y) && py_lex_ltb a' b')
  end.
(* set(xs): the distinct elements, observed through membership and len *)
Fixpoint py_set_of (l : list Z) : list Z :=
  match l with
  | [] => []
  | x :: t => if existsb (Z.eqb x) t then py_set_of t else x :: py_set_of t
  end.
Definition py_max_lex (l : list (list Z)) : list Z :=
  match l with [] => [] | x :: t => fold_left (fun m y => if py_lex_ltb m y then y else m) t x end.
"""


PRELUDE_SEQ = """(* GENERATED by harness/translate.py (fixed text) — list primitives used by the
   definitions translated from loops that build a list in place.  DO NOT EDIT. *)
From Coq Require Import ZArith List Bool.
From CSS Require Export Base.PyList.
Import ListNotations.
Open Scope Z_scope.

(* xs * n : n copies of xs, none when n <= 0 *)
Definition py_list_mul {A} (l : list A) (n : Z) : list A := concat (repeat l (Z.to_nat n)).

(* xs[k] = v : negative indices wrap once as in Python; where Python raises
   IndexError the list is returned unchanged (outside every theorem's precondition). *)
Definition py_setitem {A} (l : list A) (k : Z) (v : A) : list A :=
  match py_set l k v with Some l' => l' | None => l end.
"""


def translate_target(name, source=None):
    """Gallina text for one target; `source` overrides the file content (used
    by the fail-closed self-test of the plugin)."""
    spec = TARGETS[name]
    if source is None:
        path = os.path.join(core.REPO, spec["file"])
        with open(path) as f:
            source = f.read()
    tree = ast.parse(source)
    fn = find_def(tree, spec["qual"], want_class=spec["kind"] is t_classconst)
    spec = dict(spec, _source=source)
    if [src(d) for d in fn.decorator_list] != spec.get("decorators", []):
        raise Unsupported("%s: decorators %s, expected %s" % (
            spec["qual"], [src(d) for d in fn.decorator_list], spec.get("decorators", [])))
    text = ast.get_source_segment(source, fn) or ""
    return spec["kind"](spec, fn, text)


def regenerate(targets=None):
    """Re-translate the given targets (all when None).  Fail closed."""
    names = list(TARGETS) if targets is None else list(targets)
    log, ok = [], True
    try:
        changed = core.write_if_changed(os.path.join(GEN_DIR, "Prelude.v"), PRELUDE)
        log.append("Prelude: %s" % ("rewritten" if changed else "unchanged"))
        core.write_if_changed(os.path.join(GEN_DIR, "PreludeSeq.v"), PRELUDE_SEQ)
    except OSError as ex:
        return {"ok": False, "log": "cannot write Gen/Prelude.v: %s" % ex}
    for name in names:
        if name not in TARGETS:
            ok = False
            log.append("%s: FAILED unknown translator target" % name)
            continue
        out = os.path.join(GEN_DIR, TARGETS[name]["out"] + ".v")
        try:
            text = translate_target(name)
            changed = core.write_if_changed(out, text)
            log.append("%s: %s (%s from %s)" % (
                name, "rewritten" if changed else "unchanged",
                TARGETS[name]["qual"], os.path.join(core.REPO, TARGETS[name]["file"])))
        except (Unsupported, SyntaxError, OSError, RecursionError) as ex:
            ok = False
            log.append("%s: FAILED %s: %s" % (name, type(ex).__name__, ex))
            # fail closed: a stale generated file must not be mistaken for the
            # current source; make the dependent theories fail to compile
            try:
                core.write_if_changed(
                    out,
                    "(* GENERATED: translation of %s FAILED (%s); this file deliberately does not compile. *)\n"
                    "Translation_failed_closed.\n" % (TARGETS[name]["qual"], str(ex).replace("*)", "* )").replace("(*", "( *")),
                )
            except OSError:
                pass
    return {"ok": ok, "log": "; ".join(log)}


if __name__ == "__main__":
    import sys

    st = regenerate(sys.argv[1:] or None)
    print(st["log"].replace("; ", "\n"))
    sys.exit(0 if st["ok"] else 1)
