"""
Fail-closed Python-`ast` -> Gallina translator (DESIGN.md section 3.1).

    regenerate(targets_or_None) -> {"ok": bool, "log": str}

On every call the CURRENT source files under `harness.core.REPO` (honours
VERIF_REPO) are re-read, the target functions are located BY QUALIFIED NAME
and translated; `coq/theories/Gen/<Name>.v` is rewritten only when its text
changed (so hand-written theories recompile only when the arithmetic changed).
Anything outside the small supported subset raises `Unsupported`, the target
is reported failed and `ok` is False (the tie is then reported broken by
harness/core.py).  Nothing is ever guessed.

Supported subset (purely functional, over Z / bool / list / option Z):

  statements   `x = e` (single Name target), `return e`, bare `return` and
               `yield e` / `yield from map(f, <recursive call>)` in generators,
               `assert c` in generators (-> py_assert: an assertion failure
               truncates the output; Python raises instead — excluded by the
               hand-written theorems' completeness direction and by the
               self-test), `if c: ... [else: ...]`, `for i in range(a, b):` whose
               body only yields (-> flat_map), glue statements listed verbatim
               in the target's `skip`.
  expressions  int constants, None, names, + - * (Z; + also list ++), unary -,
               not/and/or, single comparisons, `is None` / `is not None`,
               conditional expressions, tuple displays (homogeneous -> list),
               generator expressions / list comprehensions with ONE `for`
               (over a sequence, enumerate(..), range(..)) and `if` filters,
               tuple/sum/all/any/len/enumerate/range/min/max/abs/cast,
               `xs[e]`, `xs[c:]` (c a non-negative literal), `(i,).__add__`,
               the method calls `c.minimum_size_of_object()` / `c.is_atom()` on
               a class descriptor (a pair (min size, is_atom)).

An option-typed expression may be used as an integer only where Python's
control flow has just established `is not None` for the textually identical
expression (right operand of `X is None or ...`, of `X is not None and ...`,
the matching branch of a conditional expression); it is then emitted as
`py_unopt X`.  `cast(Tuple[int, ...], xs)` on a list of options is emitted as
`map py_unopt xs` (Python would raise TypeError on a None; the code only
evaluates it behind `all(s is not None ...) and`, and Coq's `&&` is pure).

Indexing is total in Gallina: `py_get default xs i` wraps negative indices
like Python and returns the default where Python raises IndexError.  Every
theorem states the in-range precondition; the harness checks ranges itself.
"""
import ast
import os
import re
import textwrap

from harness import core

GEN_DIR = os.path.join(core.THEORIES, "Gen")


class Unsupported(Exception):
    pass


# ------------------------------------------------------------------ types
Z = "Z"
BOOL = "bool"
CLS = "cls"          # class descriptor: (minimum_size_of_object, is_atom)
NONE = "none"        # the literal None before unification


def TList(t):
    return ("list", t)


def TOpt(t):
    return ("option", t)


def TProd(a, b):
    return ("prod", a, b)


def ty_str(t):
    if t == Z:
        return "Z"
    if t == BOOL:
        return "bool"
    if t == CLS:
        return "(Z * bool)"
    if isinstance(t, tuple) and t[0] == "list":
        return "list (%s)" % ty_str(t[1]) if not _atomic(t[1]) else "list %s" % ty_str(t[1])
    if isinstance(t, tuple) and t[0] == "option":
        return "option (%s)" % ty_str(t[1]) if not _atomic(t[1]) else "option %s" % ty_str(t[1])
    if isinstance(t, tuple) and t[0] == "prod":
        return "(%s * %s)" % (ty_str(t[1]), ty_str(t[2]))
    raise Unsupported("no Gallina type for %r" % (t,))


def _atomic(t):
    return t in (Z, BOOL, CLS) or (isinstance(t, tuple) and t[0] == "prod")


def default_of(t):
    if t == Z:
        return "0"
    if t == BOOL:
        return "false"
    if t == CLS:
        return "(0, false)"
    if isinstance(t, tuple) and t[0] == "list":
        return "[]"
    if isinstance(t, tuple) and t[0] == "option":
        return "None"
    raise Unsupported("no default value for type %r" % (t,))


COQ_RESERVED = {
    "as", "at", "cofix", "else", "end", "exists", "exists2", "fix", "for", "forall", "fun",
    "if", "IF", "in", "let", "match", "mod", "Prop", "return", "Set", "then", "Type",
    "using", "where", "with", "Definition", "Fixpoint", "Lemma", "Theorem", "fuel",
}


def coq_name(name):
    if not re.match(r"^[A-Za-z_][A-Za-z0-9_]*$", name) or name in COQ_RESERVED:
        raise Unsupported("name %r cannot be used in Gallina" % name)
    return name


def src(node):
    return ast.unparse(node)


# ------------------------------------------------------------------ expressions
class Tr:
    """Translator for one target.  env: python name -> (gallina text, type)."""

    def __init__(self, bind=None, rec=None, none_elem=None):
        self.bind = bind or {}          # unparse text -> (gallina text, type)
        self.rec = rec                  # (python function name, gallina callee, elem type) for generators
        self.used = set()               # bound parameters actually used
        self.none_elem = none_elem      # type given to a bare `None` comprehension element (from the target spec)

    # -- helpers
    def as_int(self, node, env, narrowed):
        t, ty = self.expr(node, env, narrowed)
        if ty == Z:
            return t
        if ty == TOpt(Z) and src(node) in narrowed:
            return "(py_unopt %s)" % t
        raise Unsupported("integer expected, got %s in `%s`" % (ty, src(node)))

    def as_bool(self, node, env, narrowed):
        t, ty = self.expr(node, env, narrowed)
        if ty != BOOL:
            raise Unsupported("boolean expected in `%s` (truthiness of other types is not supported)" % src(node))
        return t

    def binder(self, target, elem_ty, env):
        """pattern text and extended env for a comprehension / loop target"""
        env = dict(env)
        if isinstance(target, ast.Name):
            n = "_" if target.id == "_" else coq_name(target.id)
            if target.id != "_":
                env[target.id] = (n, elem_ty)
            return "(%s : %s)" % (n, ty_str(elem_ty)), env
        if (
            isinstance(target, ast.Tuple)
            and len(target.elts) == 2
            and all(isinstance(e, ast.Name) for e in target.elts)
            and isinstance(elem_ty, tuple)
            and elem_ty[0] == "prod"
        ):
            names = []
            for e, t in zip(target.elts, elem_ty[1:]):
                n = "_" if e.id == "_" else coq_name(e.id)
                if e.id != "_":
                    env[e.id] = (n, t)
                names.append(n)
            return "'(%s, %s)" % tuple(names), env
        raise Unsupported("unsupported loop target `%s` for elements of type %s" % (src(target), elem_ty))

    def comprehension(self, node, env, narrowed):
        """(elt for target in iter if c...) -> (text, list type)"""
        if len(node.generators) != 1:
            raise Unsupported("only one `for` per comprehension: `%s`" % src(node))
        g = node.generators[0]
        if g.is_async:
            raise Unsupported("async comprehension")
        it, ity = self.expr(g.iter, env, narrowed)
        if not (isinstance(ity, tuple) and ity[0] == "list"):
            raise Unsupported("cannot iterate over `%s` of type %s" % (src(g.iter), ity))
        pat, env2 = self.binder(g.target, ity[1], env)
        cur = it
        for c in g.ifs:
            cur = "(filter (fun %s => %s) %s)" % (pat, self.as_bool(c, env2, narrowed), cur)
        et, ety = self.expr(node.elt, env2, narrowed)
        if ety == NONE:
            if self.none_elem is None:
                raise Unsupported("comprehension of bare None")
            et, ety = "None", self.none_elem
        return "(map (fun %s => %s) %s)" % (pat, et, cur), TList(ety), (pat, env2, cur)

    # -- main
    def expr(self, node, env, narrowed=frozenset()):
        key = src(node)
        if key in self.bind:
            self.used.add(key)
            return self.bind[key]
        if isinstance(node, ast.Constant):
            if node.value is None:
                return "None", NONE
            if isinstance(node.value, bool):
                return ("true" if node.value else "false"), BOOL
            if isinstance(node.value, int):
                return ("%d" % node.value if node.value >= 0 else "(%d)" % node.value), Z
            raise Unsupported("constant `%s`" % key)
        if isinstance(node, ast.Name):
            if node.id in env:
                return env[node.id]
            raise Unsupported("unknown name `%s`" % node.id)
        if isinstance(node, ast.UnaryOp):
            if isinstance(node.op, ast.USub):
                return "(- %s)" % self.as_int(node.operand, env, narrowed), Z
            if isinstance(node.op, ast.Not):
                return "(negb %s)" % self.as_bool(node.operand, env, narrowed), BOOL
            raise Unsupported("unary operator in `%s`" % key)
        if isinstance(node, ast.BinOp):
            if isinstance(node.op, (ast.Add, ast.Sub, ast.Mult)):
                lt, lty = self.expr(node.left, env, narrowed)
                rt, rty = self.expr(node.right, env, narrowed)
                if isinstance(node.op, ast.Add) and isinstance(lty, tuple) and lty[0] == "list":
                    if lty != rty:
                        raise Unsupported("`+` of sequences with different element types in `%s`" % key)
                    return "(%s ++ %s)" % (lt, rt), lty
                if isinstance(node.op, ast.Mult) and isinstance(lty, tuple) and lty[0] == "list" and rty == Z:
                    # xs * n: n copies of xs (none when n <= 0), as in Python
                    return "(py_list_mul %s %s)" % (lt, rt), lty
                a = self.as_int(node.left, env, narrowed)
                b = self.as_int(node.right, env, narrowed)
                op = {ast.Add: "+", ast.Sub: "-", ast.Mult: "*"}[type(node.op)]
                return "(%s %s %s)" % (a, op, b), Z
            raise Unsupported("binary operator in `%s`" % key)
        if isinstance(node, ast.BoolOp):
            parts = []
            nar = set(narrowed)
            for v in node.values:
                parts.append(self.as_bool(v, env, frozenset(nar)))
                w = self.none_test(v)
                if w is not None:
                    subject, is_none = w
                    # `X is None or REST`: REST runs only when X is not None
                    # `X is not None and REST`: likewise
                    if (isinstance(node.op, ast.Or) and is_none) or (isinstance(node.op, ast.And) and not is_none):
                        nar.add(subject)
            op = " || " if isinstance(node.op, ast.Or) else " && "
            return "(" + op.join(parts) + ")", BOOL
        if isinstance(node, ast.Compare):
            if len(node.ops) != 1:
                raise Unsupported("chained comparison `%s`" % key)
            op, right = node.ops[0], node.comparators[0]
            if isinstance(op, (ast.Is, ast.IsNot)):
                if not (isinstance(right, ast.Constant) and right.value is None):
                    raise Unsupported("`is` is only supported against None: `%s`" % key)
                lt, lty = self.expr(node.left, env, narrowed)
                if not (isinstance(lty, tuple) and lty[0] == "option"):
                    raise Unsupported("`%s`: left side is not Optional (type %s)" % (key, lty))
                return "(%s %s)" % ("is_none" if isinstance(op, ast.Is) else "is_some", lt), BOOL
            a = self.as_int(node.left, env, narrowed)
            b = self.as_int(right, env, narrowed)
            if isinstance(op, ast.Lt):
                return "(%s <? %s)" % (a, b), BOOL
            if isinstance(op, ast.LtE):
                return "(%s <=? %s)" % (a, b), BOOL
            if isinstance(op, ast.Gt):
                return "(%s <? %s)" % (b, a), BOOL
            if isinstance(op, ast.GtE):
                return "(%s <=? %s)" % (b, a), BOOL
            if isinstance(op, ast.Eq):
                return "(%s =? %s)" % (a, b), BOOL
            if isinstance(op, ast.NotEq):
                return "(negb (%s =? %s))" % (a, b), BOOL
            raise Unsupported("comparison operator in `%s`" % key)
        if isinstance(node, ast.IfExp):
            c = self.as_bool(node.test, env, narrowed)
            nb, no = set(narrowed), set(narrowed)
            w = self.none_test(node.test)
            if w is not None:
                (no if w[1] else nb).add(w[0])
            bt, bty = self.expr(node.body, env, frozenset(nb))
            ot, oty = self.expr(node.orelse, env, frozenset(no))
            # Optional[int] used as int inside its own narrowed branch
            if bty == TOpt(Z) and src(node.body) in nb and oty == Z:
                bt, bty = "(py_unopt %s)" % bt, Z
            if oty == TOpt(Z) and src(node.orelse) in no and bty == Z:
                ot, oty = "(py_unopt %s)" % ot, Z
            if bty == NONE and oty == NONE:
                raise Unsupported("conditional of two None")
            if bty == NONE:
                bt, bty = "None", (oty if isinstance(oty, tuple) and oty[0] == "option" else TOpt(oty))
                if not (isinstance(oty, tuple) and oty[0] == "option"):
                    ot, oty = "(Some %s)" % ot, bty
            elif oty == NONE:
                ot, oty = "None", (bty if isinstance(bty, tuple) and bty[0] == "option" else TOpt(bty))
                if not (isinstance(bty, tuple) and bty[0] == "option"):
                    bt, bty = "(Some %s)" % bt, oty
            if bty != oty:
                raise Unsupported("branches of `%s` have different types %s / %s" % (key, bty, oty))
            return "(if %s then %s else %s)" % (c, bt, ot), bty
        if isinstance(node, (ast.Tuple, ast.List)):
            if not node.elts:
                raise Unsupported("empty tuple display (element type unknown)")
            parts = [self.expr(e, env, narrowed) for e in node.elts]
            tys = {p[1] for p in parts}
            if len(tys) != 1 or NONE in tys:
                raise Unsupported("heterogeneous tuple `%s`" % key)
            return "[" + "; ".join(p[0] for p in parts) + "]", TList(parts[0][1])
        if isinstance(node, (ast.GeneratorExp, ast.ListComp)):
            t, ty, _ = self.comprehension(node, env, narrowed)
            return t, ty
        if isinstance(node, ast.Subscript):
            vt, vty = self.expr(node.value, env, narrowed)
            if not (isinstance(vty, tuple) and vty[0] == "list"):
                raise Unsupported("subscript of non-sequence `%s`" % key)
            sl = node.slice
            if isinstance(sl, ast.Slice):
                if (
                    sl.upper is None
                    and sl.step is None
                    and isinstance(sl.lower, ast.Constant)
                    and isinstance(sl.lower.value, int)
                    and not isinstance(sl.lower.value, bool)
                    and sl.lower.value >= 0
                ):
                    return "(skipn %d%%nat %s)" % (sl.lower.value, vt), vty
                raise Unsupported("only slices `xs[c:]` with a literal c >= 0 are supported: `%s`" % key)
            i = self.as_int(sl, env, narrowed)
            return "(py_get %s %s %s)" % (default_of(vty[1]), vt, i), vty[1]
        if isinstance(node, ast.Call):
            return self.call(node, env, narrowed)
        raise Unsupported("expression `%s` (%s)" % (key, type(node).__name__))

    @staticmethod
    def none_test(node):
        """`X is None` -> (text of X, True); `X is not None` -> (text, False)"""
        if (
            isinstance(node, ast.Compare)
            and len(node.ops) == 1
            and isinstance(node.ops[0], (ast.Is, ast.IsNot))
            and isinstance(node.comparators[0], ast.Constant)
            and node.comparators[0].value is None
        ):
            return src(node.left), isinstance(node.ops[0], ast.Is)
        return None

    def call(self, node, env, narrowed):
        key = src(node)
        if node.keywords:
            raise Unsupported("keyword arguments in `%s`" % key)
        f = node.func
        # methods of class descriptors
        if isinstance(f, ast.Attribute) and not node.args:
            vt, vty = self.expr(f.value, env, narrowed)
            if vty == CLS and f.attr == "minimum_size_of_object":
                return "(fst %s)" % vt, Z
            if vty == CLS and f.attr == "is_atom":
                return "(snd %s)" % vt, BOOL
            raise Unsupported("method call `%s`" % key)
        if not isinstance(f, ast.Name):
            raise Unsupported("call `%s`" % key)
        name, args = f.id, node.args
        if name in env:
            raise Unsupported("call of a local name `%s`" % key)
        if self.rec and name == self.rec[0]:
            if len(args) != len(self.rec[3]):
                raise Unsupported("recursive call with wrong arity `%s`" % key)
            parts = []
            for a, want in zip(args, self.rec[3]):
                t, ty = self.expr(a, env, narrowed)
                if ty != want:
                    raise Unsupported("recursive call argument `%s` has type %s, expected %s" % (src(a), ty, want))
                parts.append(t)
            return "(%s %s)" % (self.rec[1], " ".join(parts)), TList(self.rec[2])
        if name == "tuple" and len(args) == 1:
            t, ty = self.expr(args[0], env, narrowed)
            if not (isinstance(ty, tuple) and ty[0] == "list"):
                raise Unsupported("tuple() of non-sequence `%s`" % key)
            return t, ty
        if name == "sum" and len(args) == 1:
            t, ty = self.expr(args[0], env, narrowed)
            if ty != TList(Z):
                raise Unsupported("sum() of %s in `%s`" % (ty, key))
            return "(py_sum %s)" % t, Z
        if name in ("all", "any") and len(args) == 1:
            a = args[0]
            if isinstance(a, (ast.GeneratorExp, ast.ListComp)):
                _, _, (pat, env2, cur) = self.comprehension(a, env, narrowed)
                body = self.as_bool(a.elt, env2, narrowed)
                return "(%s (fun %s => %s) %s)" % ("forallb" if name == "all" else "existsb", pat, body, cur), BOOL
            t, ty = self.expr(a, env, narrowed)
            if ty != TList(BOOL):
                raise Unsupported("%s() of %s" % (name, ty))
            return "(%s (fun b => b) %s)" % ("forallb" if name == "all" else "existsb", t), BOOL
        if name == "len" and len(args) == 1:
            t, ty = self.expr(args[0], env, narrowed)
            if not (isinstance(ty, tuple) and ty[0] == "list"):
                raise Unsupported("len() of %s" % (ty,))
            return "(zlen %s)" % t, Z
        if name == "enumerate" and len(args) == 1:
            t, ty = self.expr(args[0], env, narrowed)
            if not (isinstance(ty, tuple) and ty[0] == "list"):
                raise Unsupported("enumerate() of %s" % (ty,))
            return "(py_enumerate %s)" % t, TList(TProd(Z, ty[1]))
        if name == "zip" and len(args) == 2:
            at, aty = self.expr(args[0], env, narrowed)
            bt, bty = self.expr(args[1], env, narrowed)
            for ty in (aty, bty):
                if not (isinstance(ty, tuple) and ty[0] == "list"):
                    raise Unsupported("zip() of %s" % (ty,))
            return "(combine %s %s)" % (at, bt), TList(TProd(aty[1], bty[1]))
        if name == "range" and len(args) in (1, 2):
            lo = "0" if len(args) == 1 else self.as_int(args[0], env, narrowed)
            hi = self.as_int(args[-1], env, narrowed)
            return "(py_range %s %s)" % (lo, hi), TList(Z)
        if name in ("min", "max") and len(args) == 2:
            a = self.as_int(args[0], env, narrowed)
            b = self.as_int(args[1], env, narrowed)
            return "(Z.%s %s %s)" % (name, a, b), Z
        if name == "abs" and len(args) == 1:
            return "(Z.abs %s)" % self.as_int(args[0], env, narrowed), Z
        if name == "cast" and len(args) == 2:
            if src(args[0]) != "Tuple[int, ...]":
                raise Unsupported("cast to `%s`" % src(args[0]))
            t, ty = self.expr(args[1], env, narrowed)
            if ty == TList(TOpt(Z)):
                return "(map py_unopt %s)" % t, TList(Z)
            if ty == TList(Z):
                return t, ty
            raise Unsupported("cast of %s" % (ty,))
        raise Unsupported("call `%s`" % key)

    # -------------------------------------------------------------- statements
    def fun_block(self, stmts, env, skip, narrowed=frozenset()):
        """straight-line function body ending in `return e` -> (text, type).
        `narrowed`: texts of Optional names the control flow has established
        to be not None (`if X is None: return ...` narrows X afterwards)."""
        if not stmts:
            raise Unsupported("function body falls off the end (returns None)")
        s, rest = stmts[0], stmts[1:]
        if _is_docstring(s):
            return self.fun_block(rest, env, skip, narrowed)
        if src(s) in skip:
            skip[src(s)] += 1
            return self.fun_block(rest, env, skip, narrowed)
        if isinstance(s, ast.Return):
            if s.value is None:
                raise Unsupported("bare return in a function")
            return self.expr(s.value, env, narrowed)
        if isinstance(s, ast.Assign):
            n, t, ty = self.assign(s, env, narrowed)
            env2 = dict(env)
            env2[n] = (coq_name(n), ty)
            bt, bty = self.fun_block(rest, env2, skip, frozenset(narrowed) - {n})
            return "let %s := %s in\n  %s" % (coq_name(n), t, bt), bty
        if isinstance(s, ast.If):
            c = self.as_bool(s.test, env, narrowed)
            nb, no = set(narrowed), set(narrowed)
            w = self.none_test(s.test)
            if w is not None and re.match(r"^[A-Za-z_][A-Za-z0-9_]*$", w[0]):
                (no if w[1] else nb).add(w[0])
            bt, bty = self.fun_block(list(s.body) + rest, env, skip, frozenset(nb))
            ot, oty = self.fun_block(list(s.orelse) + rest, env, skip, frozenset(no))
            if bty != oty:
                raise Unsupported("branches return different types")
            return "(if %s then %s else %s)" % (c, bt, ot), bty
        raise Unsupported("statement `%s`" % src(s).split("\n")[0])

    def assign(self, s, env, narrowed=frozenset()):
        if len(s.targets) != 1 or not isinstance(s.targets[0], ast.Name):
            raise Unsupported("assignment target `%s`" % src(s).split("\n")[0])
        t, ty = self.expr(s.value, env, narrowed)
        if ty == NONE:
            raise Unsupported("assignment of bare None")
        return s.targets[0].id, t, ty

    def gen_block(self, stmts, env, elem_ty, in_loop=False):
        """generator body -> Gallina list expression of element type elem_ty"""
        if not stmts:
            return "[]"
        s, rest = stmts[0], stmts[1:]
        if _is_docstring(s):
            return self.gen_block(rest, env, elem_ty, in_loop)
        if isinstance(s, ast.Return):
            if s.value is not None:
                raise Unsupported("`return value` in a generator")
            if in_loop:
                raise Unsupported("`return` inside a loop")
            return "[]"
        if isinstance(s, ast.Expr) and isinstance(s.value, ast.Yield):
            if s.value.value is None:
                raise Unsupported("bare yield")
            t, ty = self.expr(s.value.value, env)
            if ty != elem_ty:
                raise Unsupported("yield of %s, expected %s" % (ty, elem_ty))
            tail = self.gen_block(rest, env, elem_ty, in_loop)
            return "(%s :: %s)" % (t, tail)
        if isinstance(s, ast.Expr) and isinstance(s.value, ast.YieldFrom):
            t = self.yield_from(s.value.value, env, elem_ty)
            tail = self.gen_block(rest, env, elem_ty, in_loop)
            return "(%s ++ %s)" % (t, tail)
        if isinstance(s, ast.Assert):
            if s.msg is not None:
                raise Unsupported("assert with message")
            c = self.as_bool(s.test, env, frozenset())
            return "(py_assert %s %s)" % (c, self.gen_block(rest, env, elem_ty, in_loop))
        if isinstance(s, ast.Assign):
            n, t, ty = self.assign(s, env)
            env2 = dict(env)
            env2[n] = (coq_name(n), ty)
            return "(let %s := %s in\n    %s)" % (coq_name(n), t, self.gen_block(rest, env2, elem_ty, in_loop))
        if isinstance(s, ast.If):
            c = self.as_bool(s.test, env, frozenset())
            b = self.gen_block(list(s.body) + rest, env, elem_ty, in_loop)
            o = self.gen_block(list(s.orelse) + rest, env, elem_ty, in_loop)
            return "(if %s\n   then %s\n   else %s)" % (c, b, o)
        if isinstance(s, ast.For):
            if s.orelse:
                raise Unsupported("for/else")
            for sub in ast.walk(s):
                if isinstance(sub, (ast.Return, ast.Break, ast.Continue)):
                    raise Unsupported("return/break/continue inside a for loop")
            assigned = {
                n.id for sub in s.body for n in ast.walk(sub) if isinstance(n, ast.Name) and isinstance(n.ctx, ast.Store)
            } | {n.id for n in ast.walk(s.target) if isinstance(n, ast.Name)}
            used_after = {n.id for r in rest for n in ast.walk(r) if isinstance(n, ast.Name) and isinstance(n.ctx, ast.Load)}
            if assigned & used_after:
                raise Unsupported("loop variables %s are used after the loop" % sorted(assigned & used_after))
            it, ity = self.expr(s.iter, env)
            if not (isinstance(ity, tuple) and ity[0] == "list"):
                raise Unsupported("for over %s" % (ity,))
            pat, env2 = self.binder(s.target, ity[1], env)
            body = self.gen_block(list(s.body), env2, elem_ty, True)
            tail = self.gen_block(rest, env, elem_ty, in_loop)
            return "(flat_map (fun %s => %s)\n      %s ++ %s)" % (pat, body, it, tail)
        raise Unsupported("statement `%s`" % src(s).split("\n")[0])

    def yield_from(self, node, env, elem_ty):
        """yield from map(f, rec(...)) with f = (x,).__add__"""
        if not (isinstance(node, ast.Call) and isinstance(node.func, ast.Name) and node.func.id == "map"
                and len(node.args) == 2 and not node.keywords):
            t, ty = self.expr(node, env)
            if ty != TList(elem_ty):
                raise Unsupported("yield from %s" % (ty,))
            return t
        f, xs = node.args
        xt, xty = self.expr(xs, env)
        if xty != TList(elem_ty):
            raise Unsupported("yield from map over %s" % (xty,))
        if (
            isinstance(f, ast.Attribute)
            and f.attr == "__add__"
            and isinstance(f.value, ast.Tuple)
            and isinstance(elem_ty, tuple)
            and elem_ty[0] == "list"
        ):
            pt, pty = self.expr(f.value, env)
            if pty != elem_ty:
                raise Unsupported("`%s` prepends %s to %s" % (src(f), pty, elem_ty))
            return "(map (fun t_ => %s ++ t_) %s)" % (pt, xt)
        raise Unsupported("mapped function `%s`" % src(f))


def _is_docstring(s):
    return isinstance(s, ast.Expr) and isinstance(s.value, ast.Constant) and isinstance(s.value.value, str)


# ------------------------------------------------------------------ locating
def find_def(tree, qual):
    """Locate a (possibly nested in classes) function by qualified name."""
    parts = qual.split(".")
    body = tree.body
    node = None
    for i, p in enumerate(parts):
        found = [
            n for n in body
            if isinstance(n, (ast.ClassDef, ast.FunctionDef)) and n.name == p
        ]
        if len(found) != 1:
            raise Unsupported("%d definitions named %r while resolving %s" % (len(found), p, qual))
        node = found[0]
        last = i == len(parts) - 1
        if last != isinstance(node, ast.FunctionDef):
            raise Unsupported("%s: %r is not a %s" % (qual, p, "function" if last else "class"))
        body = node.body
    return node


def arg_names(fn):
    a = fn.args
    if a.vararg or a.kwarg or a.kwonlyargs or a.posonlyargs:
        raise Unsupported("unsupported parameter kinds in %s" % fn.name)
    return [x.arg for x in a.args]


HEADER = """(* GENERATED by harness/translate.py — DO NOT EDIT.
   Source: %s  (%s), re-read from the repository on every ./check run.
   A source edit that changes the arithmetic changes this definition, and the
   hand-written theories that import it are re-checked against it.

%s
*)
From Coq Require Import ZArith List Bool.
From CSS Require Import Gen.Prelude.
Import ListNotations.
Open Scope Z_scope.

"""


def header(spec, fn_src):
    safe = fn_src.replace("(*", "( *").replace("*)", "* )")
    return HEADER % (spec["file"], spec["qual"], textwrap.indent(safe, "   ")) + spec.get("extra_header", "")


GLUE_CHILDREN = (
    "if children is None:\n"
    "    children = self.decomposition_function(comb_class)\n"
    "    if children is None:\n"
    "        raise StrategyDoesNotApply('Strategy does not apply')"
)


# ------------------------------------------------------------------ targets
def t_function(spec, fn, text):
    """plain function: parameters are given by the spec (bound expressions or
    function parameters), body is assignments then `return e`."""
    if arg_names(fn) != spec["args"]:
        raise Unsupported("signature changed: %s" % arg_names(fn))
    tr = Tr(bind={k: (v[0], v[1]) for k, v in spec.get("bind", {}).items()}, none_elem=spec.get("none_elem"))
    env = {p: (coq_name(p), ty) for p, ty in spec.get("env", {}).items()}
    skip = {s: 0 for s in spec.get("skip", [])}
    body, ty = tr.fun_block(list(fn.body), env, skip)
    for k in spec.get("bind", {}):
        if k not in tr.used:
            raise Unsupported("expected expression `%s` no longer occurs in %s" % (k, spec["qual"]))
    for s, cnt in skip.items():
        if cnt != 1:
            raise Unsupported("expected glue statement not found exactly once: %s" % s.split("\n")[0])
    if ty != spec["ret"]:
        raise Unsupported("result type %s, expected %s" % (ty, spec["ret"]))
    params = " ".join("(%s : %s)" % (n, ty_str(t)) for n, t in spec["params"])
    return header(spec, text) + "Definition %s %s : %s :=\n  %s.\n" % (spec["name"], params, ty_str(ty), body)


def t_select(spec, fn, text):
    """selected `self.X = e` assignments of an __init__, in order; each becomes
    a Definition over the parameters it (transitively) uses."""
    if arg_names(fn) != spec["args"]:
        raise Unsupported("signature changed: %s" % arg_names(fn))
    wanted = dict(spec["select"])
    stores = {}
    for n in ast.walk(fn):
        if isinstance(n, ast.Attribute) and isinstance(n.ctx, ast.Store) and src(n) in set(wanted) | set(spec["require_store"]):
            stores[src(n)] = stores.get(src(n), 0) + 1
    for a in list(wanted) + list(spec["require_store"]):
        if stores.get(a, 0) != 1:
            raise Unsupported("%s is assigned %d times in %s" % (a, stores.get(a, 0), spec["qual"]))
    top = {}
    for s in fn.body:
        if isinstance(s, ast.Assign) and len(s.targets) == 1 and src(s.targets[0]) in set(wanted) | set(spec["require_store"]):
            top[src(s.targets[0])] = s
    for a, want_src in spec["require_store"].items():
        if a not in top or src(top[a].value) != want_src:
            raise Unsupported("expected `%s = %s` at the top level of %s" % (a, want_src, spec["qual"]))
    # parameters must not be rebound before use
    for n in ast.walk(fn):
        if isinstance(n, ast.Name) and isinstance(n.ctx, ast.Store) and n.id in spec["env"]:
            raise Unsupported("parameter %s is reassigned" % n.id)
    base_bind = {k: (v[0], v[1]) for k, v in spec.get("bind", {}).items()}
    param_ty = dict(spec["params"])
    out = header(spec, text)
    done = {}       # attr -> (text of application, type, params used)
    order = [s for s in fn.body if isinstance(s, ast.Assign) and len(s.targets) == 1 and src(s.targets[0]) in wanted]
    if [src(s.targets[0]) for s in order] != [a for a, _ in spec["select"]]:
        raise Unsupported("selected assignments are not top-level statements in the expected order")
    for s in order:
        attr = src(s.targets[0])
        bind = dict(base_bind)
        for a, (app, ty, _) in done.items():
            bind[a] = (app, ty)
        tr = Tr(bind=bind)
        env = {p: (coq_name(p), ty) for p, ty in spec["env"].items()}
        t, ty = tr.expr(s.value, env)
        if ty == NONE:
            raise Unsupported("%s = None" % attr)
        used = set()
        for n in ast.walk(s.value):
            if isinstance(n, ast.Name) and n.id in spec["env"]:
                used.add(n.id)
        for k in tr.used:
            if k in done:
                used |= done[k][2]
            else:
                used.add(base_bind[k][0])
        plist = [(n, pt) for n, pt in spec["params"] if n in used]
        name = wanted[attr]
        out += "Definition %s %s : %s :=\n  %s.\n\n" % (
            name, " ".join("(%s : %s)" % (n, ty_str(pt)) for n, pt in plist), ty_str(ty), t)
        app = "(%s %s)" % (name, " ".join(n for n, _ in plist)) if plist else name
        done[attr] = (app, ty, {n for n, _ in plist})
    return out


def t_loopfun(spec, fn, text):
    """function of the shape

           <glue statements listed in `skip`>
           x = e ...                      (state initialisation)
           for <target> in <seq>:         (body: assignments to state variables,
               ...                         if/elif/else, `return e`)
           <straight-line tail ending in return>

    -> a structural Fixpoint over the sequence carrying the state variables
    (early `return e` inside the loop = the result e), plus a wrapper."""
    if arg_names(fn) != spec["args"]:
        raise Unsupported("signature changed: %s" % arg_names(fn))
    tr = Tr(bind={k: (v[0], v[1]) for k, v in spec.get("bind", {}).items()})
    env = {p: (coq_name(p), ty) for p, ty in spec.get("env", {}).items()}
    skip = {s: 0 for s in spec.get("skip", [])}
    stmts = [s for s in fn.body if not _is_docstring(s)]
    pre, loop, post = [], None, []
    for s in stmts:
        if src(s) in skip:
            skip[src(s)] += 1
            continue
        if loop is None and isinstance(s, ast.For):
            loop = s
        elif loop is None:
            pre.append(s)
        else:
            post.append(s)
    for s_, cnt in skip.items():
        if cnt != 1:
            raise Unsupported("expected glue statement not found exactly once: %s" % s_.split("\n")[0])
    if loop is None or loop.orelse:
        raise Unsupported("expected exactly one plain for loop")
    for sub in ast.walk(loop):
        if isinstance(sub, (ast.Break, ast.Continue, ast.For, ast.While)) and sub is not loop:
            raise Unsupported("break/continue/nested loop inside the loop")
    # state initialisation
    inits = []
    for s in pre:
        if not isinstance(s, ast.Assign):
            raise Unsupported("statement before the loop: `%s`" % src(s).split("\n")[0])
        n, t, ty = tr.assign(s, env)
        inits.append((n, t))
        env[n] = (coq_name(n), ty)
    state = []
    for sub in ast.walk(loop):
        # `xs[e] = e'` stores into the list bound to the state variable xs
        if isinstance(sub, ast.Subscript) and isinstance(sub.ctx, ast.Store):
            if not isinstance(sub.value, ast.Name) or sub.value.id not in env or sub.value.id in spec.get("env", {}):
                raise Unsupported("item assignment to `%s`" % src(sub.value))
            if sub.value.id not in state:
                state.append(sub.value.id)
        if isinstance(sub, ast.Name) and isinstance(sub.ctx, ast.Store):
            in_target = any(sub is n for n in ast.walk(loop.target))
            if in_target:
                continue
            if sub.id not in env:
                raise Unsupported("loop assigns `%s`, which is not initialised before the loop" % sub.id)
            if sub.id in spec.get("env", {}):
                raise Unsupported("loop assigns the parameter `%s`" % sub.id)
            if sub.id not in state:
                state.append(sub.id)
    it, ity = tr.expr(loop.iter, env)
    if not (isinstance(ity, tuple) and ity[0] == "list"):
        raise Unsupported("for over %s" % (ity,))
    pat, env_body = tr.binder(loop.target, ity[1], env)
    if pat.startswith("'"):
        pat = pat[1:]
    lname = spec["name"] + "_loop"
    params = [(n, t) for n, t in spec["params"]]
    carried = [(n, env[n][1]) for n in state]

    def call(e):
        return "(%s rest_ %s)" % (lname, " ".join([n for n, _ in params] + [e[n][0] for n in state]))

    def block(ss, e):
        if not ss:
            return call(e), None
        s, rest = ss[0], ss[1:]
        if isinstance(s, ast.Return):
            if s.value is None:
                raise Unsupported("bare return")
            return tr.expr(s.value, e)
        if (
            isinstance(s, ast.Assign)
            and len(s.targets) == 1
            and isinstance(s.targets[0], ast.Subscript)
            and isinstance(s.targets[0].value, ast.Name)
            and s.targets[0].value.id in state
            and not isinstance(s.targets[0].slice, ast.Slice)
        ):
            # xs[k] = v  ->  xs := py_setitem xs k v  (IndexError: outside every theorem's precondition)
            n = s.targets[0].value.id
            lt, lty = e[n]
            if not (isinstance(lty, tuple) and lty[0] == "list"):
                raise Unsupported("item assignment to non-list `%s`" % n)
            kt = tr.as_int(s.targets[0].slice, e, frozenset())
            vt, vty = tr.expr(s.value, e)
            if vty != lty[1]:
                raise Unsupported("item assignment of %s into %s" % (vty, lty))
            bt, bty = block(rest, e)
            return "(let %s := (py_setitem %s %s %s) in %s)" % (coq_name(n), lt, kt, vt, bt), bty
        if isinstance(s, ast.Assign):
            n, t, ty = tr.assign(s, e)
            if n not in state and n in e:
                raise Unsupported("loop rebinds `%s`" % n)
            if n in state and ty != e[n][1]:
                raise Unsupported("state variable `%s` changes type" % n)
            e2 = dict(e)
            e2[n] = (coq_name(n), ty)
            bt, bty = block(rest, e2)
            return "(let %s := %s in %s)" % (coq_name(n), t, bt), bty
        if isinstance(s, ast.If):
            c = tr.as_bool(s.test, e, frozenset())
            bt, bty = block(list(s.body) + rest, e)
            ot, oty = block(list(s.orelse) + rest, e)
            if bty is not None and oty is not None and bty != oty:
                raise Unsupported("branches return different types")
            return "(if %s then %s else %s)" % (c, bt, ot), (bty if bty is not None else oty)
        raise Unsupported("statement in loop: `%s`" % src(s).split("\n")[0])

    body, bty = block(list(loop.body), env_body)
    tail, tty = tr.fun_block(post, env, {})
    if tty != spec["ret"] or (bty is not None and bty != tty):
        raise Unsupported("result type %s / %s, expected %s" % (bty, tty, spec["ret"]))
    for k in spec.get("bind", {}):
        if k not in tr.used:
            raise Unsupported("expected expression `%s` no longer occurs in %s" % (k, spec["qual"]))
    allp = " ".join("(%s : %s)" % (coq_name(n), ty_str(t)) for n, t in params + carried)
    out = header(spec, text)
    out += "Fixpoint %s (l_ : %s) %s : %s :=\n  match l_ with\n  | [] => %s\n  | %s :: rest_ => %s\n  end.\n\n" % (
        lname, ty_str(ity), allp, ty_str(tty), tail, pat.replace("(", "(").strip(), body)
    wrapper = call({n: (coq_name(n), None) for n in state}).replace("rest_", it, 1)
    for n, t in reversed(inits):
        wrapper = "let %s := %s in\n  %s" % (coq_name(n), t, wrapper)
    out += "Definition %s %s : %s :=\n  %s.\n" % (
        spec["name"], " ".join("(%s : %s)" % (coq_name(n), ty_str(t)) for n, t in params), ty_str(tty), wrapper)
    return out


ANNOT = {
    "int": Z,
    "Tuple[int, ...]": TList(Z),
    "Tuple[Optional[int], ...]": TList(TOpt(Z)),
}


def t_generator(spec, fn, text):
    """recursive generator -> Fixpoint on fuel + wrapper"""
    names = arg_names(fn)
    if names != spec["args"]:
        raise Unsupported("signature changed: %s" % names)
    ptys = []
    for a in fn.args.args:
        if a.annotation is None or src(a.annotation) not in ANNOT:
            raise Unsupported("parameter %s: unsupported annotation" % a.arg)
        ptys.append(ANNOT[src(a.annotation)])
    if fn.args.defaults:
        raise Unsupported("default arguments")
    if fn.returns is None or src(fn.returns) != spec["returns"]:
        raise Unsupported("return annotation changed")
    elem = spec["elem"]
    fname = spec["name"] + "_fuel"
    tr = Tr(rec=(fn.name, fname + " fuel'", elem, ptys))
    env = {n: (coq_name(n), t) for n, t in zip(names, ptys)}
    if not any(isinstance(n, (ast.Yield, ast.YieldFrom)) for n in ast.walk(fn)):
        raise Unsupported("not a generator")
    body = tr.gen_block(list(fn.body), env, elem)
    params = " ".join("(%s : %s)" % (coq_name(n), ty_str(t)) for n, t in zip(names, ptys))
    out = header(spec, text)
    out += (
        "(* fuel counts nested calls; the wrapper supplies %s, which the\n"
        "   hand-written Count/CompositionsSpec.v proves is always enough. *)\n" % spec["fuel"]
    )
    out += "Fixpoint %s (fuel : nat) %s : %s :=\n  match fuel with\n  | O => []\n  | S fuel' =>\n  %s\n  end.\n\n" % (
        fname, params, ty_str(TList(elem)), body)
    out += "Definition %s %s : %s :=\n  %s (%s) %s.\n" % (
        spec["name"], params, ty_str(TList(elem)), fname, spec["fuel"], " ".join(names))
    return out


TARGETS = {
    "reverse_shifts": dict(
        name="reverse_shifts", out="ReverseShifts", kind=t_function,
        file="comb_spec_searcher/strategies/rule.py", qual="ReverseRule.shifts",
        args=["self"],
        params=[("orig_shifts", TList(Z)), ("idx", Z)],
        bind={"self.original_rule.shifts()": ("orig_shifts", TList(Z)), "self.idx": ("idx", Z)},
        ret=TList(Z),
    ),
    "product_shifts": dict(
        name="product_shifts", out="ProductShifts", kind=t_function,
        file="comb_spec_searcher/strategies/strategy.py", qual="CartesianProductStrategy.shifts",
        args=["self", "comb_class", "children"],
        params=[("children", TList(CLS))], env={"children": TList(CLS)},
        skip=[GLUE_CHILDREN], ret=TList(Z),
    ),
    "union_shifts": dict(
        name="union_shifts", out="UnionShifts", kind=t_function,
        file="comb_spec_searcher/strategies/strategy.py", qual="DisjointUnionStrategy.shifts",
        args=["self", "comb_class", "children"],
        params=[("children", TList(CLS))], env={"children": TList(CLS)},
        skip=[GLUE_CHILDREN], ret=TList(Z),
    ),
    "quotient_parent_shift": dict(
        name="quotient_parent_shift", out="QuotientParentShift", kind=t_select,
        file="comb_spec_searcher/strategies/constructor/cartesian.py", qual="Quotient.__init__",
        args=["self", "parent", "children", "idx", "extra_parameters"],
        params=[("children", TList(CLS)), ("idx", Z)], env={"children": TList(CLS), "idx": Z},
        bind={"self.idx": ("idx", Z)},
        require_store={"self.idx": "idx"},
        select=[
            ("self._min_sizes", "quotient_min_sizes"),
            ("self._max_sizes", "quotient_max_sizes"),
            ("self._parent_shift", "quotient_parent_shift"),
        ],
    ),
    "can_give_terms": dict(
        name="can_give_terms", out="ForestCanGiveTerms", kind=t_function,
        file="comb_spec_searcher/rule_db/forest.py", qual="TableMethod._can_give_terms",
        decorators=["staticmethod"], args=["shifts"],
        params=[("shifts", TList(TOpt(Z)))], env={"shifts": TList(TOpt(Z))},
        ret=BOOL,
    ),
    "compute_shift": dict(
        name="compute_shift", out="ForestComputeShift", kind=t_function,
        file="comb_spec_searcher/rule_db/forest.py", qual="TableMethod._compute_shift",
        args=["self", "rule_key", "shifts_for_zero"],
        # the two reads of the function table are the parameters: the value of
        # the parent and the values of the children, in order
        params=[("parent_value", TOpt(Z)), ("children_values", TList(TOpt(Z))), ("shifts_for_zero", TList(Z))],
        env={"shifts_for_zero": TList(Z)},
        bind={
            "self._function[rule_key[0]]": ("parent_value", TOpt(Z)),
            "map(self._function.__getitem__, rule_key[1])": ("children_values", TList(TOpt(Z))),
        },
        none_elem=TOpt(Z), ret=TList(TOpt(Z)),
    ),
    "preimage_gap": dict(
        name="preimage_gap", out="ForestPreimageGap", kind=t_loopfun,
        file="comb_spec_searcher/rule_db/forest.py", qual="Function.preimage_gap",
        args=["self", "length"],
        params=[("preimage_count", TList(Z)), ("length", Z)], env={"length": Z},
        bind={"self._preimage_count": ("preimage_count", TList(Z))},
        skip=["if length <= 0:\n    raise ValueError('length argument must be positive')"],
        ret=Z,
    ),
    "perm_inv": dict(
        name="perm_inv", out="PermInv", kind=t_loopfun,
        file="comb_spec_searcher/isomorphism.py", qual="Bijection._perm_inv",
        decorators=["staticmethod"], args=["perm"],
        params=[("perm", TList(Z))], env={"perm": TList(Z)},
        extra_header="From CSS Require Import Gen.PreludeSeq.\n\n",
        ret=TList(Z),
    ),
    "compositions": dict(
        name="compositions", out="Compositions", kind=t_generator,
        file="comb_spec_searcher/utils.py", qual="compositions",
        args=["n", "k", "min_sizes", "max_sizes"],
        returns="Iterator[Tuple[int, ...]]", elem=TList(Z), fuel="Z.to_nat k + 1",
    ),
}

PRELUDE = """(* GENERATED by harness/translate.py (fixed text) — the Python primitives the
   generated definitions are written in.  DO NOT EDIT. *)
From Coq Require Import ZArith List Bool.
From CSS Require Export Base.PyList.
Import ListNotations.
Open Scope Z_scope.

(* xs[k]: negative indices wrap once as in Python; where Python raises
   IndexError the default is returned (outside every theorem's precondition). *)
Definition py_get {A} (d : A) (l : list A) (k : Z) : A :=
  if (0 <=? k) && (k <? zlen l) then nth (Z.to_nat k) l d
  else if (k <? 0) && (- zlen l <=? k) then nth (Z.to_nat (zlen l + k)) l d
  else d.

(* sum(xs) on integers (Python folds from the left; + on Z is associative) *)
Definition py_sum (l : list Z) : Z := fold_right Z.add 0 l.

Fixpoint py_enumerate_from {A} (s : Z) (l : list A) : list (Z * A) :=
  match l with
  | [] => []
  | x :: t => (s, x) :: py_enumerate_from (s + 1) t
  end.
Definition py_enumerate {A} (l : list A) : list (Z * A) := py_enumerate_from 0 l.

(* range(a, b) *)
Definition py_range (a b : Z) : list Z :=
  map (fun j => a + Z.of_nat j) (seq 0 (Z.to_nat (b - a))).

Definition is_some {A} (o : option A) : bool := match o with Some _ => true | None => false end.
Definition is_none {A} (o : option A) : bool := match o with Some _ => false | None => true end.
(* an Optional[int] used as an int where the code has just tested `is not None` *)
Definition py_unopt (o : option Z) : Z := match o with Some v => v | None => 0 end.

(* `assert c` inside a generator: a failing assertion ends the output here
   (Python raises AssertionError instead; see harness/translate.py) *)
Definition py_assert {A} (c : bool) (rest : list A) : list A := if c then rest else [].
"""


PRELUDE_SEQ = """(* GENERATED by harness/translate.py (fixed text) — list primitives used by the
   definitions translated from loops that build a list in place.  DO NOT EDIT. *)
From Coq Require Import ZArith List Bool.
From CSS Require Export Base.PyList.
Import ListNotations.
Open Scope Z_scope.

(* xs * n : n copies of xs, none when n <= 0 *)
Definition py_list_mul {A} (l : list A) (n : Z) : list A := concat (repeat l (Z.to_nat n)).

(* xs[k] = v : negative indices wrap once as in Python; where Python raises
   IndexError the list is returned unchanged (outside every theorem's precondition). *)
Definition py_setitem {A} (l : list A) (k : Z) (v : A) : list A :=
  match py_set l k v with Some l' => l' | None => l end.
"""


def translate_target(name, source=None):
    """Gallina text for one target; `source` overrides the file content (used
    by the fail-closed self-test of the plugin)."""
    spec = TARGETS[name]
    if source is None:
        path = os.path.join(core.REPO, spec["file"])
        with open(path) as f:
            source = f.read()
    tree = ast.parse(source)
    fn = find_def(tree, spec["qual"])
    if [src(d) for d in fn.decorator_list] != spec.get("decorators", []):
        raise Unsupported("%s: decorators %s, expected %s" % (
            spec["qual"], [src(d) for d in fn.decorator_list], spec.get("decorators", [])))
    text = ast.get_source_segment(source, fn) or ""
    return spec["kind"](spec, fn, text)


def regenerate(targets=None):
    """Re-translate the given targets (all when None).  Fail closed."""
    names = list(TARGETS) if targets is None else list(targets)
    log, ok = [], True
    try:
        changed = core.write_if_changed(os.path.join(GEN_DIR, "Prelude.v"), PRELUDE)
        log.append("Prelude: %s" % ("rewritten" if changed else "unchanged"))
        core.write_if_changed(os.path.join(GEN_DIR, "PreludeSeq.v"), PRELUDE_SEQ)
    except OSError as ex:
        return {"ok": False, "log": "cannot write Gen/Prelude.v: %s" % ex}
    for name in names:
        if name not in TARGETS:
            ok = False
            log.append("%s: FAILED unknown translator target" % name)
            continue
        out = os.path.join(GEN_DIR, TARGETS[name]["out"] + ".v")
        try:
            text = translate_target(name)
            changed = core.write_if_changed(out, text)
            log.append("%s: %s (%s from %s)" % (
                name, "rewritten" if changed else "unchanged",
                TARGETS[name]["qual"], os.path.join(core.REPO, TARGETS[name]["file"])))
        except (Unsupported, SyntaxError, OSError, RecursionError) as ex:
            ok = False
            log.append("%s: FAILED %s: %s" % (name, type(ex).__name__, ex))
            # fail closed: a stale generated file must not be mistaken for the
            # current source; make the dependent theories fail to compile
            try:
                core.write_if_changed(
                    out,
                    "(* GENERATED: translation of %s FAILED (%s); this file deliberately does not compile. *)\n"
                    "Translation_failed_closed.\n" % (TARGETS[name]["qual"], str(ex).replace("*)", "* )").replace("(*", "( *")),
                )
            except OSError:
                pass
    return {"ok": ok, "log": "; ".join(log)}


if __name__ == "__main__":
    import sys

    st = regenerate(sys.argv[1:] or None)
    print(st["log"].replace("; ", "\n"))
    sys.exit(0 if st["ok"] else 1)
