"""
Generic machinery shared by every property check.

A property plugin (harness/props/cXX.py) provides

    ID            "C15"
    TITLE         short text
    COQ_PROPS     "Props/C15.v"             file holding only the property theorems
    COQ_RUN       ("ClassDB.Run", "run_c15") module (under CSS.) and function sx -> sx
    GEN_TARGETS   [] or names of translator targets the proofs import (Gen/*.v)
    RULE          how cases are generated / what counts as non-trivial
    N             {"quick": n, "thorough": n}
    gen(rng, tier)            -> iterator of JSON-able cases
    encode(case)              -> nested int lists sent to the model
    impl(case)                -> {"out": nested int lists, ...extra} from the REAL code
    oracle(case, res)         -> None or a string saying how the PROPERTY fails
    nontrivial(case, res)     -> bool
    key(case)                 -> hashable canonical form (distinctness)
    shrink(case)              -> iterator of smaller cases          (optional)
    finding_match(case, why)  -> string identifying a known finding (optional)
    extra_checks(ctx)         -> list of (name, ok, detail)         (optional)
    TRUSTED, ASSUMPTIONS      lists of strings
"""
import fcntl
import hashlib
import importlib
import json
import multiprocessing as mp
import os
import random
import re
import shutil
import subprocess
import sys
import time
import traceback

VERIF = os.path.dirname(os.path.dirname(os.path.abspath(__file__)))
REPO = os.environ.get("VERIF_REPO", "/repo")
COQ = os.path.join(VERIF, "coq")
THEORIES = os.path.join(COQ, "theories")
WORK = os.path.join(VERIF, ".work")
# evidence is only ever written for /repo itself: a run against a scratch copy (VERIF_REPO, used
# for mutation experiments and seeded changes) writes to .work/evidence-scratch instead
EVID = os.path.join(VERIF, "evidence") if os.path.realpath(REPO) == "/repo" else os.path.join(WORK, "evidence-scratch")
REPLAY = os.path.join(EVID, "replay")
NCPU = min(16, os.cpu_count() or 4)

FORBIDDEN = re.compile(
    r"\b(Admitted|admit|Axiom|Axioms|Parameter|Parameters|Conjecture|Conjectures|"
    r"Hypothesis\b(?!.*\(\*\s*in-section\s*\*\))|bypass_check|Admit Obligations)\b|"
    r"Unset\s+Guard|Unset\s+Positivity|Unset\s+Universe|type-in-type|impredicative-set"
)
# axioms of the standard library that may appear in Print Assumptions
ALLOWED_AXIOMS = (
    "functional_extensionality_dep",
    "proof_irrelevance",
    "classic",
    "JMeq_eq",
    "Eqdep.Eq_rect_eq.eq_rect_eq",
    "eq_rect_eq",
    "propositional_extensionality",
    "constructive_indefinite_description",
    "constructive_definite_description",
)


def _rfile(path):
    with open(path) as f:
        return f.read()


def _wfile(path, text):
    with open(path, "w") as f:
        f.write(text)


# ----------------------------------------------------------------- sx text
def sx_str(x):
    if isinstance(x, bool):
        return "1" if x else "0"
    if isinstance(x, int):
        return str(x)
    return "(" + " ".join(sx_str(y) for y in x) + ")"


def sx_parse(s):
    toks = s.replace("(", " ( ").replace(")", " ) ").split()
    pos = 0

    def item():
        nonlocal pos
        t = toks[pos]
        pos += 1
        if t == "(":
            acc = []
            while toks[pos] != ")":
                acc.append(item())
            pos += 1
            return acc
        return int(t)

    return item()


def sx_coq(x):
    if isinstance(x, bool):
        x = int(x)
    if isinstance(x, int):
        return "I (%d)" % x
    return "L [" + "; ".join(sx_coq(y) for y in x) + "]"


# ----------------------------------------------------------------- shell
def sh(cmd, cwd=None, timeout=600, env=None, inp=None):
    e = dict(os.environ)
    if env:
        e.update(env)
    try:
        p = subprocess.run(
            cmd,
            cwd=cwd,
            shell=isinstance(cmd, str),
            input=inp,
            stdout=subprocess.PIPE,
            stderr=subprocess.STDOUT,
            timeout=timeout,
            env=e,
            text=True,
        )
        return p.returncode, p.stdout
    except subprocess.TimeoutExpired as ex:
        out = ex.stdout or ""
        if isinstance(out, bytes):
            out = out.decode(errors="replace")
        return 124, out + "\nTIMEOUT after %ss" % timeout


class Lock:
    def __init__(self, name):
        os.makedirs(WORK, exist_ok=True)
        self.path = os.path.join(WORK, name + ".lock")

    def __enter__(self):
        self.f = open(self.path, "w")
        fcntl.flock(self.f, fcntl.LOCK_EX)
        return self

    def __exit__(self, *a):
        fcntl.flock(self.f, fcntl.LOCK_UN)
        self.f.close()


# ----------------------------------------------------------------- coq build
def all_v_files():
    out = []
    for root, _, files in os.walk(THEORIES):
        for f in sorted(files):
            if f.endswith(".v"):
                out.append(os.path.relpath(os.path.join(root, f), COQ))
    return sorted(out)


def write_if_changed(path, text):
    try:
        if _rfile(path) == text:
            return False
    except OSError:
        pass
    os.makedirs(os.path.dirname(path), exist_ok=True)
    with open(path, "w") as f:
        f.write(text)
    return True


def coq_prepare():
    """(Re)generate _CoqProject and Makefile.  Caller holds the coq lock."""
    proj = "-Q theories CSS\n" + "\n".join(all_v_files()) + "\n"
    changed = write_if_changed(os.path.join(COQ, "_CoqProject"), proj)
    if changed or not os.path.exists(os.path.join(COQ, "Makefile")):
        rc, out = sh("coq_makefile -f _CoqProject -o Makefile", cwd=COQ, timeout=120)
        if rc != 0:
            raise RuntimeError("coq_makefile failed:\n" + out)


def coq_make(targets=None, timeout=1500):
    """Full .vo build (never -vos) of the given targets (all when None)."""
    with Lock("coq"):
        coq_prepare()
        cmd = "make -j%d %s" % (NCPU, " ".join(targets or []))
        rc, out = sh("timeout %d %s" % (timeout, cmd), cwd=COQ, timeout=timeout + 30)
    return rc == 0, out


def forbidden_scan():
    """No Admitted/admit/Axiom/Parameter/... anywhere in the development."""
    hits = []
    for rel in all_v_files():
        src = _rfile(os.path.join(COQ, rel))
        # strip comments (nested)
        out, depth, i = [], 0, 0
        while i < len(src):
            if src.startswith("(*", i):
                depth += 1
                i += 2
            elif src.startswith("*)", i) and depth:
                depth -= 1
                i += 2
            else:
                if not depth:
                    out.append(src[i])
                i += 1
        code = "".join(out)
        # Hypothesis/Variable are only allowed inside a Section
        depth_sec = 0
        for ln, line in enumerate(code.split("\n"), 1):
            st = line.strip()
            if re.match(r"(Section|Module)\b", st):
                depth_sec += 1
            if re.match(r"End\b", st):
                depth_sec -= 1
            if re.search(
                r"\b(Admitted|admit|Axiom|Axioms|Parameter|Parameters|Conjecture|Conjectures|bypass_check)\b",
                st,
            ) or re.search(
                r"Admit\s+Obligations|Unset\s+Guard|Unset\s+Positivity|Unset\s+Universe\s+Checking|type-in-type|impredicative-set",
                st,
            ):
                hits.append("%s:%d: %s" % (rel, ln, st))
            if depth_sec <= 0 and re.match(r"(Hypothesis|Hypotheses|Variable|Variables|Context)\b", st):
                hits.append("%s:%d: outside section: %s" % (rel, ln, st))
    return hits


def coq_check_props(plugin):
    """
    Build the dependencies of the property file, then compile the property file
    itself afresh and read theorem names and Print Assumptions output.
    Returns dict(ok, obligations, discharged, theorems, axioms, log).
    """
    rel = "theories/" + plugin.COQ_PROPS
    src = _rfile(os.path.join(COQ, rel))
    theorems = re.findall(r"^\s*Theorem\s+([A-Za-z0-9_']+)", src, re.M)
    printed = re.findall(r"^\s*Print Assumptions\s+([A-Za-z0-9_']+)\s*\.", src, re.M)
    res = {
        "ok": False,
        "obligations": len(theorems),
        "discharged": 0,
        "theorems": theorems,
        "axioms": {},
        "log": "",
        "broken": None,
    }
    missing = [t for t in theorems if t not in printed]
    if missing:
        res["log"] = "theorems without Print Assumptions: %s" % missing
        res["broken"] = "Print Assumptions missing for " + ",".join(missing)
        return res
    run_vo = "theories/" + plugin.COQ_RUN[0].replace(".", "/") + ".vo"
    ok, out = coq_make([rel + "o", run_vo])
    if not ok:
        res["log"] = out[-6000:]
        m = re.search(r'File "\./([^"]+)", line (\d+)', out)
        res["broken"] = "make failed" + (" at %s:%s" % (m.group(1), m.group(2)) if m else "")
        return res
    with Lock("coq"):
        rc, out = sh(
            "timeout 600 coqc -Q theories CSS %s" % rel, cwd=COQ, timeout=630
        )
    res["log"] = out[-6000:]
    if rc != 0:
        res["broken"] = "coqc %s failed" % rel
        return res
    # Print Assumptions outputs come in order
    blocks = re.split(r"(?m)^(?=Closed under the global context|Axioms:)", out)
    blocks = [b for b in blocks if b.startswith("Closed under") or b.startswith("Axioms:")]
    if len(blocks) != len(printed):
        res["broken"] = "could not match Print Assumptions output (%d blocks for %d commands)" % (
            len(blocks),
            len(printed),
        )
        return res
    bad = []
    for name, b in zip(printed, blocks):
        if b.startswith("Closed under"):
            res["axioms"][name] = []
        else:
            names = re.findall(r"(?m)^([A-Za-z0-9_.']+)\s*:", b[len("Axioms:"):])
            res["axioms"][name] = names
            for a in names:
                if not any(a == x or a.endswith("." + x) for x in ALLOWED_AXIOMS):
                    bad.append("%s depends on %s" % (name, a))
    if bad:
        res["broken"] = "; ".join(bad)
        return res
    res["discharged"] = len(theorems)
    res["ok"] = True
    return res


# ----------------------------------------------------------------- extraction
DRIVER_BODY = os.path.join(VERIF, "ocaml", "driver_body.ml")


def build_model(plugin):
    """Extract run : sx -> sx (ExtrOcamlBasic only) and link the generic driver."""
    wd = os.path.join(WORK, plugin.ID, "ocaml")
    shutil.rmtree(wd, ignore_errors=True)
    os.makedirs(wd)
    mod, fn = plugin.COQ_RUN
    name = plugin.ID.lower() + "_model"
    ex = (
        "Require Import ExtrOcamlBasic.\n"
        "From CSS Require Import Base.Sx %s.\n"
        "Definition sx_main_entry := %s.\n"
        'Extraction "%s.ml" sx_main_entry.\n' % (mod, fn, name)
    )
    _wfile(os.path.join(wd, "Ex.v"), ex)
    rc, out = sh("timeout 300 coqc -Q %s CSS Ex.v" % THEORIES, cwd=wd, timeout=330)
    if rc != 0:
        return None, "extraction failed:\n" + out[-3000:]
    main = _rfile(os.path.join(wd, name + ".ml")) + "\n" + _rfile(DRIVER_BODY)
    _wfile(os.path.join(wd, "main.ml"), main)
    rc, out = sh(
        "timeout 300 ocamlfind ocamlopt -O2 -w -a -o model main.ml 2>&1 || "
        "timeout 300 ocamlfind ocamlopt -w -a -o model main.ml",
        cwd=wd,
        timeout=630,
    )
    if rc != 0 or not os.path.exists(os.path.join(wd, "model")):
        return None, "ocamlopt failed:\n" + out[-3000:]
    return os.path.join(wd, "model"), ""


def _run_model_chunk(args):
    binary, lines = args
    p = subprocess.run(
        "ulimit -s unlimited 2>/dev/null; exec " + binary,
        shell=True,
        input="\n".join(lines) + "\n",
        stdout=subprocess.PIPE,
        stderr=subprocess.PIPE,
        text=True,
        timeout=3600,
    )
    outs = p.stdout.split("\n")
    if outs and outs[-1] == "":
        outs.pop()
    if len(outs) != len(lines):
        outs += ["ERROR model died: " + p.stderr[-200:]] * (len(lines) - len(outs))
    return outs


def run_model(binary, encoded, pool=None):
    lines = [sx_str(e) for e in encoded]
    if not lines:
        return []
    n = max(1, min(NCPU, len(lines) // 50 or 1))
    size = (len(lines) + n - 1) // n
    chunks = [lines[i : i + size] for i in range(0, len(lines), size)]
    if pool is None or len(chunks) == 1:
        res = [_run_model_chunk((binary, c)) for c in chunks]
    else:
        res = pool.map(_run_model_chunk, [(binary, c) for c in chunks])
    out = []
    for r in res:
        for line in r:
            if line.startswith("ERROR"):
                out.append({"error": line})
            else:
                out.append(sx_parse(line))
    return out


def vm_crosscheck(plugin, pairs):
    """Evaluate a sample inside Coq (vm_compute) and compare with the extracted run."""
    if not pairs:
        return True, "no sample"
    # one directory per process: two runs of the same property at the same time (a seeded-change evaluation next to
    # a sweep) used to delete each other's Cases.v ("Can't open ./Cases.vo" reported as a broken extraction)
    wd = os.path.join(WORK, plugin.ID, "vm-%d" % os.getpid())
    shutil.rmtree(wd, ignore_errors=True)
    os.makedirs(wd)
    mod, fn = plugin.COQ_RUN
    body = ";\n  ".join("(%s, %s)" % (sx_coq(a), sx_coq(b)) for a, b in pairs)
    src = (
        "From Coq Require Import ZArith List Bool.\n"
        "From CSS Require Import Base.Sx %s.\nImport ListNotations.\nOpen Scope Z_scope.\n"
        "Definition cases : list (sx * sx) := [\n  %s ].\n"
        "Definition ok := forallb (fun p => sx_eqb (%s (fst p)) (snd p)) cases.\n"
        "Eval vm_compute in ok.\n" % (mod, body, fn)
    )
    _wfile(os.path.join(wd, "Cases.v"), src)
    rc, out = sh(
        "ulimit -s unlimited 2>/dev/null; timeout 600 coqc -Q %s CSS Cases.v" % THEORIES,
        cwd=wd,
        timeout=630,
    )
    ok = rc == 0 and re.search(r"=\s*true\s*:\s*bool", out) is not None
    shutil.rmtree(wd, ignore_errors=True)
    return ok, out[-1500:]


# ----------------------------------------------------------------- impl side
_PLUGIN = None


def _init_worker(modname):
    global _PLUGIN
    sys.setrecursionlimit(100000)
    _quiet_logging()
    _PLUGIN = importlib.import_module(modname)


def _quiet_logging():
    try:
        import logging

        import comb_spec_searcher  # noqa: F401  (sets the log level to INFO at import time)
        import logzero

        logzero.loglevel(logging.ERROR)
        logging.getLogger().setLevel(logging.ERROR)
    except Exception:  # pylint: disable=broad-except
        pass


class CaseTimeout(Exception):
    pass


def _alarm(*_):
    raise CaseTimeout("case exceeded its CPU-time budget")


def _impl_one(case):
    import signal

    budget = float(getattr(_PLUGIN, "CASE_CPU_SECONDS", 120))
    signal.signal(signal.SIGVTALRM, _alarm)
    signal.setitimer(signal.ITIMER_VIRTUAL, budget)
    try:
        return _impl_one_inner(case)
    except CaseTimeout:
        return ({"out": {"exception": "CaseTimeout"}, "exception": "CaseTimeout: more than %ss of CPU" % budget},
                "implementation did not finish within %ss of CPU time" % budget, False)
    finally:
        signal.setitimer(signal.ITIMER_VIRTUAL, 0)


def guarded_impl(plugin, case):
    """plugin.impl(case) under the per-case CPU budget (also in the main process: shrinking and
    replays must not hang on a change that makes the implementation loop)."""
    import signal

    budget = float(getattr(plugin, "CASE_CPU_SECONDS", 120))
    old_handler = signal.signal(signal.SIGVTALRM, _alarm)
    signal.setitimer(signal.ITIMER_VIRTUAL, budget)
    try:
        return plugin.impl(case)
    except CaseTimeout:
        return {"out": {"exception": "CaseTimeout"}, "exception": "CaseTimeout: more than %ss of CPU" % budget}
    except BaseException as ex:  # pylint: disable=broad-except
        return {"out": {"exception": type(ex).__name__}, "exception": "%s: %s" % (type(ex).__name__, ex)}
    finally:
        signal.setitimer(signal.ITIMER_VIRTUAL, 0)
        signal.signal(signal.SIGVTALRM, old_handler)


def _impl_one_inner(case):
    try:
        res = _PLUGIN.impl(case)
    except CaseTimeout:
        raise
    except BaseException as ex:  # pylint: disable=broad-except
        res = {
            "out": {"exception": type(ex).__name__},
            "exception": "%s: %s" % (type(ex).__name__, ex),
            "trace": traceback.format_exc()[-1500:],
        }
    try:
        why = _PLUGIN.oracle(case, res)
    except BaseException as ex:  # pylint: disable=broad-except
        why = "oracle crashed: %s: %s\n%s" % (type(ex).__name__, ex, traceback.format_exc()[-800:])
    try:
        nt = bool(_PLUGIN.nontrivial(case, res))
    except BaseException:  # pylint: disable=broad-except
        nt = False
    return res, why, nt


def _encode(plugin, case, res=None):
    """Model input for a case.  Plugins whose model replays inputs recorded from
    the real run (packets, oracle answers, set orders) define encode_with(case, res)."""
    if hasattr(plugin, "encode_with"):
        if res is None:
            res = guarded_impl(plugin, case)
        return plugin.encode_with(case, res)
    return plugin.encode(case)


def _canon_model(plugin, mo):
    """order-insensitive parts of a model answer are normalised by the plugin"""
    if hasattr(plugin, "canon_model") and not isinstance(mo, dict):
        return plugin.canon_model(mo)
    return mo


def load_known():
    p = os.path.join(VERIF, "known_findings.json")
    try:
        return json.loads(_rfile(p))
    except OSError:
        return []


def case_hash(case):
    return hashlib.sha1(json.dumps(case, sort_keys=True).encode()).hexdigest()[:12]


def write_replay(pid, kind, payload):
    os.makedirs(REPLAY, exist_ok=True)
    h = hashlib.sha1(json.dumps(payload, sort_keys=True, default=str).encode()).hexdigest()[:12]
    path = os.path.join(REPLAY, "%s-%s-%s.json" % (pid, kind, h))
    payload = dict(payload)
    payload["property"] = pid
    payload["kind"] = kind
    with open(path, "w") as f:
        json.dump(payload, f, indent=1, default=str)
    return path


def canon(x):
    """tuples -> lists, bools -> ints, so that model and impl outputs compare."""
    if isinstance(x, bool):
        return int(x)
    if isinstance(x, (list, tuple)):
        return [canon(y) for y in x]
    return x


class Ctx:
    pass


def run_property(modname, tier, seed, replay=None, n_override=None):
    t0 = time.time()
    _quiet_logging()
    plugin = importlib.import_module(modname)
    pid = plugin.ID
    os.makedirs(EVID, exist_ok=True)
    os.makedirs(os.path.join(WORK, pid), exist_ok=True)
    lines = []  # VIOLATION / KNOWN-FINDING lines

    def say(s):
        print(s, flush=True)

    # ---- 0. regenerate translated definitions from /repo's current source
    gen_status = {"ok": True, "log": ""}
    if getattr(plugin, "GEN_TARGETS", None):
        from harness import translate

        gen_status = translate.regenerate(plugin.GEN_TARGETS)
        say("[%s] translator: %s" % (pid, "ok" if gen_status["ok"] else "FAILED " + gen_status["log"][-400:]))

    # ---- 0b. has the code this property is anchored in been edited since the models were
    #          last brought in line with it?  (information + a wider exploration, never an alarm)
    src_changed = []
    try:
        from harness import sourcehash

        src_changed = sourcehash.changed_files(pid)
    except Exception as ex:  # pylint: disable=broad-except
        say("[%s] source fingerprints unavailable: %s" % (pid, ex))
    if src_changed:
        say("[%s] anchored source differs from the recorded fingerprint: %s -> exploring 3x the cases" % (pid, ", ".join(src_changed)))

    # ---- 1. proofs
    hits = forbidden_scan()
    proofs = coq_check_props(plugin)
    if hits:
        proofs["ok"] = False
        proofs["broken"] = "forbidden construct: " + "; ".join(hits[:5])
    if not gen_status["ok"]:
        proofs["ok"] = False
        proofs["broken"] = "translator failed closed: " + gen_status["log"][-300:]
    say(
        "[%s] proofs: %d/%d theorems closed%s"
        % (pid, proofs["discharged"], proofs["obligations"], "" if proofs["ok"] else "  BROKEN: %s" % proofs["broken"])
    )

    # ---- 2. executable model
    binary, berr = build_model(plugin)
    if binary is None:
        say("[%s] model build failed: %s" % (pid, berr[-600:]))

    # ---- 3. cases, 4. compare — in batches, so that a thorough run (10^5..10^6 cases) never
    #      holds more than one batch of implementation / model outputs in memory.  Retained for
    #      the later steps (shrinking, replay files, evidence samples, in-Coq cross-check,
    #      extra_checks): the whole first batch, every case on which the oracle fails or model and
    #      implementation disagree (at most 20 per failure signature), and the last case.
    rng = random.Random(seed)
    first = []
    corpus_dir = os.path.join(VERIF, "harness", "corpus", pid)
    n = 0
    if replay:
        rp = json.loads(_rfile(replay))
        first = [rp["case"]] if "case" in rp else []
        n = len(first)
    else:
        if os.path.isdir(corpus_dir):
            for f in sorted(os.listdir(corpus_dir)):
                if f.endswith(".json"):
                    first.append(json.loads(_rfile(os.path.join(corpus_dir, f)))["case"])
        n = n_override or plugin.N[tier]
        if not proofs["ok"] or binary is None:
            n *= 3  # violation search: widen the exploration
        elif src_changed and not n_override:
            n *= 3  # the modelled source was edited since it was last compared: look harder
        n = max(n, len(first))
    n_corpus = len(first)
    BATCH = int(getattr(plugin, "BATCH", 20000))
    gen_it = iter(()) if replay else plugin.gen(rng, tier)

    def next_batch(already, prefix):
        out = list(prefix)
        while len(out) < BATCH and already + len(out) < n:
            try:
                out.append(next(gen_it))
            except StopIteration:
                break
        return out

    cases, impl_res, enc = [], [], []
    model_out = [] if binary is not None else None
    mismatches, oracle_fail = [], []
    total, n_mismatch, n_oracle_fail = 0, 0, 0
    seen, nontriv = set(), 0
    dist = {}
    sig_count = {}
    last = None

    MAX_TIMEOUTS = int(getattr(plugin, "MAX_TIMEOUTS", 24))
    n_timeouts, stop_after_batch = 0, False
    ctx = mp.get_context("fork")
    with ctx.Pool(NCPU, initializer=_init_worker, initargs=(modname,)) as pool:
        batch_no = 0
        while True:
            bc = next_batch(total, first if batch_no == 0 else [])
            if not bc:
                break
            chunk = max(1, min(200, len(bc) // (NCPU * 4) or 1))
            b_res = []
            for r in pool.imap(_impl_one, bc, chunksize=chunk):
                b_res.append(r)
                if str(r[0].get("exception", "")).startswith("CaseTimeout"):
                    n_timeouts += 1
                    if n_timeouts >= MAX_TIMEOUTS:
                        break
            if n_timeouts >= MAX_TIMEOUTS:
                # the implementation hangs on many inputs: stop exploring, report what was seen
                say("[%s] %d cases exceeded their CPU budget: exploration stopped after %d cases"
                    % (pid, n_timeouts, total + len(b_res)))
                pool.terminate()
                bc = bc[: len(b_res)]
                stop_after_batch = True
            b_enc = b_mo = None
            if binary is not None:
                b_enc = [_encode(plugin, c, b_res[i][0]) for i, c in enumerate(bc)]
                b_mo = run_model(binary, b_enc, None if stop_after_batch else pool)
            for j, c in enumerate(bc):
                res, why, nt = b_res[j]
                k = plugin.key(c) if hasattr(plugin, "key") else json.dumps(c, sort_keys=True)
                kd = hashlib.sha1(repr(k).encode()).digest()[:12]
                if kd not in seen:
                    seen.add(kd)
                    if nt:
                        nontriv += 1
                if hasattr(plugin, "classify"):
                    for tag in plugin.classify(c, res):
                        dist[tag] = dist.get(tag, 0) + 1
                mism = False
                if b_mo is not None:
                    mo = _canon_model(plugin, b_mo[j])
                    mism = canon(res.get("out")) != canon(mo)
                keep = batch_no == 0
                if why:
                    n_oracle_fail += 1
                    sig = "o:" + re.sub(r"\d+", "N", str(why))[:80]
                    sig_count[sig] = sig_count.get(sig, 0) + 1
                    keep = keep or sig_count[sig] <= 20
                if mism:
                    n_mismatch += 1
                    sig_count["m"] = sig_count.get("m", 0) + 1
                    keep = keep or sig_count["m"] <= 20
                if keep:
                    idx = len(cases)
                    cases.append(c)
                    impl_res.append(b_res[j])
                    if b_mo is not None:
                        enc.append(b_enc[j])
                        model_out.append(b_mo[j])
                    if why:
                        oracle_fail.append((idx, why))
                    if mism:
                        mismatches.append(idx)
                else:
                    last = (c, b_res[j], b_enc[j] if b_enc is not None else None, b_mo[j] if b_mo is not None else None)
            total += len(bc)
            batch_no += 1
            if stop_after_batch:
                break
            if tier == "thorough" and batch_no > 1:
                say("[%s] ... %d cases so far (%d mismatches, %d oracle failures)" % (pid, total, n_mismatch, n_oracle_fail))
    if last is not None:
        cases.append(last[0])
        impl_res.append(last[1])
        if model_out is not None:
            enc.append(last[2])
            model_out.append(last[3])

    known = [k for k in load_known() if k.get("property") == pid and k.get("kind") == "open"]
    violations = 0

    def is_known(case, why):
        if not hasattr(plugin, "finding_match"):
            return None
        m = plugin.finding_match(case, why)
        for k in known:
            if k.get("match") == m:
                return k
        return None

    def fails(case):
        """does the PROPERTY fail on the implementation for this case?"""
        r = guarded_impl(plugin, case)
        if str(r.get("exception", "")).startswith("CaseTimeout"):
            return "implementation did not finish within its CPU-time budget"
        try:
            return plugin.oracle(case, r)
        except BaseException as ex:  # pylint: disable=broad-except
            return "oracle crashed: %s" % ex

    def shrink(case, pred):
        if not hasattr(plugin, "shrink"):
            return case
        budget = 400
        deadline = time.time() + float(getattr(plugin, "SHRINK_SECONDS", 240))
        progress = True
        while progress and budget > 0 and time.time() < deadline:
            progress = False
            for cand in plugin.shrink(case):
                budget -= 1
                if budget <= 0 or time.time() > deadline:
                    break
                if pred(cand):
                    case = cand
                    progress = True
                    break
        return case

    reported_known = set()
    # 4a. the property itself fails on the real code
    seen_why = set()
    for i, why in oracle_fail:
        kf = is_known(cases[i], why)
        if kf is not None:
            if kf["what"] not in reported_known:
                reported_known.add(kf["what"])
                say("KNOWN-FINDING: property=%s %s" % (pid, kf["what"]))
            continue
        sig = re.sub(r"\d+", "N", why)[:80]
        if sig in seen_why and len(seen_why) >= 1:
            continue
        seen_why.add(sig)
        def still_new(c):
            # shrinking must not drift into a listed known finding: the replay
            # has to be an input that fails because of the change at hand
            w = fails(c)
            return bool(w) and is_known(c, w) is None

        small = shrink(cases[i], still_new)
        path = write_replay(
            pid,
            "failing-input",
            {"case": small, "why": fails(small) or why, "original_case": cases[i], "seed": seed},
        )
        say("VIOLATION property=%s replay=%s" % (pid, path))
        violations += 1
        if violations >= 3:
            break

    # 4b. broken tie: model/impl disagree, or theorems no longer check
    broken_tie = []
    if not proofs["ok"]:
        broken_tie.append(("broken-theorem", {"what": proofs["broken"], "log": proofs["log"][-3000:]}))
    if binary is None:
        broken_tie.append(("broken-model", {"what": "executable model does not build", "log": berr[-3000:]}))
    if mismatches:
        i = mismatches[0]

        def mism(c):
            r = guarded_impl(plugin, c)
            mo = _canon_model(plugin, run_model(binary, [_encode(plugin, c, r)])[0])
            return canon(r.get("out")) != canon(mo)

        small = shrink(cases[i], mism)
        r = guarded_impl(plugin, small)
        mo = _canon_model(plugin, run_model(binary, [_encode(plugin, small, r)])[0])
        broken_tie.append(
            (
                "broken-correspondence",
                {
                    "what": "model %s and implementation disagree on %d of %d cases"
                    % (plugin.COQ_RUN[1], n_mismatch, total),
                    "case": small,
                    "impl_out": canon(r.get("out")),
                    "impl_exception": r.get("exception"),
                    "model_out": mo,
                    "seed": seed,
                },
            )
        )
    if broken_tie and violations == 0:
        # the oracle already ran on every case (including the widened search);
        # no input on which the property itself fails was found
        kind, payload = broken_tie[0]
        payload["all_broken"] = [k for k, _ in broken_tie]
        path = write_replay(pid, kind, payload)
        say("VIOLATION property=%s replay=%s no-failing-input-found" % (pid, path))
        violations += 1

    # ---- 5. extra per-property checks (contracts, non-vacuity, self tests)
    extra = []
    if hasattr(plugin, "extra_checks") and not replay:
        c = Ctx()
        c.tier, c.seed, c.cases, c.impl_res = tier, seed, cases, impl_res
        try:
            extra = plugin.extra_checks(c)
        except BaseException as ex:  # pylint: disable=broad-except
            extra = [("extra_checks crashed", False, "%s\n%s" % (ex, traceback.format_exc()[-1500:]))]
        for name, ok, detail in extra:
            if not ok:
                path = write_replay(pid, "extra-check", {"what": name, "detail": detail})
                say("VIOLATION property=%s replay=%s%s" % (pid, path, "" if "failing input" in str(detail) else " no-failing-input-found"))
                violations += 1

    # ---- 6. in-Coq evaluation of a sample (cross-check of the extraction path)
    vm_ok, vm_n = True, 0
    if binary is not None and model_out is not None and not replay and proofs["ok"]:
        idx = list(range(len(cases)))
        random.Random(seed + 1).shuffle(idx)
        k = 40 if tier == "quick" else 300
        pairs = []
        for i in idx:
            if isinstance(model_out[i], dict):
                continue
            e = enc[i]
            if len(sx_str(e)) > 4000:
                continue
            pairs.append((e, model_out[i]))
            if len(pairs) >= k:
                break
        vm_ok, vm_log = vm_crosscheck(plugin, pairs)
        vm_n = len(pairs)
        if not vm_ok:
            path = write_replay(pid, "broken-extraction", {"what": "vm_compute and extracted model disagree", "log": vm_log})
            say("VIOLATION property=%s replay=%s no-failing-input-found" % (pid, path))
            violations += 1

    # ---- 6b. thorough tier: independent re-check of the compiled theorems (coqchk) and its axiom summary
    coqchk = None
    if tier == "thorough" and proofs["ok"] and not replay:
        modname_coq = "CSS." + plugin.COQ_PROPS[:-2].replace("/", ".")
        with Lock("coq"):
            rc, out = sh("timeout 1500 coqchk -silent -o -Q theories CSS %s" % modname_coq, cwd=COQ, timeout=1530)
        summary = out[out.find("CONTEXT SUMMARY"):] if "CONTEXT SUMMARY" in out else out[-1500:]
        coqchk = {"ok": rc == 0, "summary": " ".join(summary.split())[:1500]}
        say("[%s] coqchk: %s" % (pid, "ok" if rc == 0 else "FAILED"))
        if rc != 0:
            path = write_replay(pid, "broken-theorem", {"what": "coqchk rejects " + modname_coq, "log": out[-3000:]})
            say("VIOLATION property=%s replay=%s no-failing-input-found" % (pid, path))
            violations += 1

    # ---- 7. evidence
    samples = []
    for i in list(range(min(2, len(cases)))) + ([len(cases) - 1] if len(cases) > 2 else []):
        samples.append(
            {
                "case": cases[i],
                "impl_out": canon(impl_res[i][0].get("out")),
                "model_out": model_out[i] if model_out is not None else None,
            }
        )
    for s in samples:
        if len(json.dumps(s)) > 3000:
            s["impl_out"] = "(elided, %d chars)" % len(json.dumps(s["impl_out"]))
            s["model_out"] = "(elided)"
        if len(json.dumps(s)) > 3000:
            s["case"] = json.dumps(s["case"])[:2500] + "…"
    axioms_used = sorted({a for v in proofs["axioms"].values() for a in v})
    trusted = [
        "Coq 8.16.1 kernel (coqc); vm_compute used for Examples and the in-Coq cross-check; no native_compute",
        "Print Assumptions of every theorem in %s: %s"
        % (plugin.COQ_PROPS, "Closed under the global context" if not axioms_used else "axioms " + ", ".join(axioms_used)),
        "extraction with ExtrOcamlBasic only (bool, option, unit, list, prod, sumbool, sumor; andb/orb inlined); Z, N, nat, positive stay Coq datatypes; ocaml/driver_body.ml; OCaml 4.13.1",
        "correspondence harness harness/core.py + harness/props/%s.py (generators, canonicalisation, oracle)" % pid.lower(),
    ] + list(getattr(plugin, "TRUSTED", []))
    ev = {
        "property_id": pid,
        "tier": tier,
        "seed": seed,
        "level": "proof",
        "coverage": {
            "obligations": proofs["obligations"],
            "discharged": proofs["discharged"],
            "checker_cmd": "cd /verif/coq && coq_makefile -f _CoqProject -o Makefile && make theories/%so && coqc -Q theories CSS theories/%s"
            % (plugin.COQ_PROPS, plugin.COQ_PROPS),
            "trusted_base": trusted,
            "theorems": proofs["theorems"],
            "axioms_per_theorem": proofs["axioms"],
            "evaluations": total,
            "distinct_nontrivial": nontriv,
            "rule": plugin.RULE,
            "samples": samples,
            "traces_validated_against_impl": (total - n_mismatch) if model_out is not None else 0,
            "model_impl_mismatches": n_mismatch,
            "oracle_failures": n_oracle_fail,
            "corpus_cases": n_corpus if not replay else 0,
            "vm_compute_crosschecked": vm_n,
            "distribution": dist,
            "extra_checks": [{"name": n_, "ok": bool(o), "detail": str(d)[:600]} for n_, o, d in extra],
            "translator": gen_status.get("log", "")[-400:] if getattr(plugin, "GEN_TARGETS", None) else "not used by this property",
            "coqchk": coqchk if coqchk is not None else "run in the thorough tier only",
            "anchored_source_changed_since_recorded": src_changed,
        },
        "assumptions": list(getattr(plugin, "ASSUMPTIONS", [])),
        "wall_s": round(time.time() - t0, 2),
        "violations": violations,
    }
    if not replay:
        with open(os.path.join(EVID, pid + ".json"), "w") as f:
            json.dump(ev, f, indent=1, default=str)
    say(
        "[%s] %s: %d cases (%d distinct non-trivial), %d mismatches, %d oracle failures, vm-checked %d, %.1fs"
        % (pid, tier, total, nontriv, n_mismatch, n_oracle_fail, vm_n, time.time() - t0)
    )
    return 1 if violations else 0
