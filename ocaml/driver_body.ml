(* Generic driver, appended after the code extracted from Coq (which defines
   the types sx = I of z | L of sx list, z, positive and the function sx_main_entry).
   Reads one s-expression per line on stdin, prints run's answer per line.
   Integers must fit OCaml's 63-bit int (checked). *)
let rec pos_of_int n =
  if n = 1 then XH
  else if n land 1 = 0 then XO (pos_of_int (n lsr 1))
  else XI (pos_of_int (n lsr 1))
let z_of_int n =
  if n = 0 then Z0 else if n > 0 then Zpos (pos_of_int n) else Zneg (pos_of_int (- n))
let rec int_of_pos d p =
  if d > 61 then failwith "integer overflow in driver" else
  match p with
  | XH -> 1
  | XO q -> 2 * int_of_pos (d + 1) q
  | XI q -> 2 * int_of_pos (d + 1) q + 1
let int_of_z = function Z0 -> 0 | Zpos p -> int_of_pos 0 p | Zneg p -> - (int_of_pos 0 p)

let parse (s : string) : sx =
  let n = String.length s in
  let pos = ref 0 in
  let rec skip () = if !pos < n && (s.[!pos] = ' ' || s.[!pos] = '\t' || s.[!pos] = '\r') then (incr pos; skip ()) in
  let rec item () : sx =
    skip ();
    if !pos >= n then failwith "unexpected end"
    else if s.[!pos] = '(' then begin
      incr pos;
      let acc = ref [] in
      let fin = ref false in
      while not !fin do
        skip ();
        if !pos >= n then failwith "missing )"
        else if s.[!pos] = ')' then (incr pos; fin := true)
        else acc := item () :: !acc
      done;
      L (List.rev !acc)
    end else begin
      let st = !pos in
      if s.[!pos] = '-' then incr pos;
      while !pos < n && s.[!pos] >= '0' && s.[!pos] <= '9' do incr pos done;
      if !pos = st then failwith ("bad token at " ^ string_of_int st);
      I (z_of_int (int_of_string (String.sub s st (!pos - st))))
    end in
  item ()

let rec print (b : Buffer.t) (x : sx) : unit =
  match x with
  | I z -> Buffer.add_string b (string_of_int (int_of_z z))
  | L l ->
      Buffer.add_char b '(';
      List.iteri (fun i y -> if i > 0 then Buffer.add_char b ' '; print b y) l;
      Buffer.add_char b ')'

let () =
  let b = Buffer.create 65536 in
  (try
     while true do
       let line = input_line stdin in
       if String.length line > 0 then begin
         Buffer.clear b;
         (try print b (sx_main_entry (parse line))
          with Failure m -> (Buffer.clear b; Buffer.add_string b ("ERROR " ^ m))
             | Stack_overflow -> (Buffer.clear b; Buffer.add_string b "ERROR stack overflow"));
         print_string (Buffer.contents b);
         print_char '\n'
       end
     done
   with End_of_file -> ());
  flush stdout
