"""
C15 triage: `key in classdb` raises ValueError("Invalid key") for a key that is neither an
instance of the database's class type nor an int; the clause says membership tests are total,
"False for everything else".

Run:  PYTHONPATH=/repo /venv/bin/python repro.py      exit 0 = behaviour present
"""
import sys

from comb_spec_searcher.class_db import ClassDB
from example import AvoidingWithPrefix


class Other(AvoidingWithPrefix):
    """a second class type; ClassDB(Other) does not accept plain AvoidingWithPrefix objects"""


db = ClassDB(AvoidingWithPrefix)
known = AvoidingWithPrefix("", ["aa"], "ab")
unknown = AvoidingWithPrefix("", ["bb"], "ab")
assert db.get_label(known) == 0

# inside the quantifier ("membership tests ... over arbitrary classes", labels incl. unknown ones)
inside = {
    "known class": known in db,
    "known label": 0 in db,
    "unknown class": unknown in db,
    "unknown label 7": 7 in db,
    "negative label -1": -1 in db,
}
print("class / int keys:", inside)
assert inside == {"known class": True, "known label": True, "unknown class": False,
                  "unknown label 7": False, "negative label -1": False}


def probe(key):
    try:
        return key in db
    except ValueError as exc:
        return "ValueError(%s)" % exc


foreign = {
    "str": probe("x"),
    "None": probe(None),
    "float 0.0": probe(0.0),
    "tuple": probe((0,)),
    "class of another type (ClassDB(Other), key AvoidingWithPrefix)": None,
    "bool True (an int: label 1)": probe(True),
}
db2 = ClassDB(Other)
try:
    foreign["class of another type (ClassDB(Other), key AvoidingWithPrefix)"] = known in db2
except ValueError as exc:
    foreign["class of another type (ClassDB(Other), key AvoidingWithPrefix)"] = "ValueError(%s)" % exc
for k, v in foreign.items():
    print("  %-66s -> %s" % (k, v))

present = foreign["str"] == "ValueError(Invalid key)"
print("behaviour present:", present)
sys.exit(0 if present else 1)
