"""
C08 triage: CombinatorialSpecification.random_sample_object_of_size(300) raises RecursionError
although the class has objects of that size.

Run:  PYTHONPATH=/repo /venv/bin/python repro.py      exit 0 = behaviour present

The script also shows WHICH limit is hit: the failure is unchanged when Python's own recursion
limit is raised to 10**6 and happens at about 750 Python frames, far below the limit
n * number_of_rules = 2700 the library sets itself.  It is CPython 3.12's fixed C-stack guard
(every `f(n=n, **params)` call and every `tuple(<genexpr>)` of the sampler re-enters the
interpreter from C), which sys.setrecursionlimit cannot move.
"""
import logging
import random
import sys

logging.disable(logging.CRITICAL)

from comb_spec_searcher import CombinatorialSpecificationSearcher  # noqa: E402
from example import AvoidingWithPrefix, pack  # noqa: E402

css = CombinatorialSpecificationSearcher(AvoidingWithPrefix("", ["aa"], "ab"), pack)
spec = css.auto_search()
random.seed(0)


def frames_of(exc):
    tb, k = exc.__traceback__, 0
    while tb is not None:
        k += 1
        tb = tb.tb_next
    return k


def sample(n):
    try:
        obj = spec.random_sample_object_of_size(n)
        return ("object", len(obj), None)
    except RecursionError as exc:  # the behaviour under triage
        return ("RecursionError", None, frames_of(exc))


count300 = spec.count_objects_of_size(300)
assert count300 > 0
small = sample(100)
big = sample(300)
print("rules:", spec.number_of_rules(), " count(300) > 0:", count300 > 0)
print("n=100:", small)
print("n=300 (library limit n*rules = %d):" % (300 * spec.number_of_rules()), big)

sys.setrecursionlimit(10**6)
big_high = sample(300)
print("n=300 with sys.setrecursionlimit(10**6):", big_high)

present = small[0] == "object" and big[0] == "RecursionError"
c_stack = big_high[0] == "RecursionError" and big[2] < 300 * spec.number_of_rules()
print("behaviour present:", present, "| limit hit is the interpreter's C-stack guard:", c_stack)
sys.exit(0 if present else 1)
