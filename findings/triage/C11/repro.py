"""
C11 triage: under RuleDBForest an extracted key cannot be turned back into a rule when the rule
was produced by a StrategyFactory for ANOTHER class than the one the factory was applied to
(a "foreign parent"; the searcher supports such rules: _expand_class_with_strategy labels
rule.comb_class) and no strategy of the pack produces it on a class of the key.
ForestRuleExtractor._find_rule replays the pack on the parent and the children of the key only
and raises RuntimeError("Can't find a rule ..."): auto_search() fails although the start class
pumps, while the default RuleDB returns the specification.

Run:  PYTHONPATH=/repo /venv/bin/python repro.py      exit 0 = behaviour present
"""
import logging
import sys

import logzero

from comb_spec_searcher import AtomStrategy, CombinatorialSpecificationSearcher, StrategyPack
from comb_spec_searcher.rule_db import RuleDB, RuleDBForest
from comb_spec_searcher.rule_db.forest import ForestRuleExtractor
from comb_spec_searcher.strategies.strategy import StrategyFactory
from example import AvoidingWithPrefix, ExpansionStrategy, RemoveFrontOfPrefix

logzero.loglevel(logging.ERROR)


class ExpandEmptyPrefix(ExpansionStrategy):
    """ExpansionStrategy restricted to classes with the empty prefix."""

    def decomposition_function(self, c):
        if c.prefix:
            return None
        return super().decomposition_function(c)


def swap(w):
    return "".join("b" if x == "a" else "a" for x in w)


class SwappedExpansionFactory(StrategyFactory):
    """Applied to the class with prefix p it yields the expansion RULE of the class with prefix
    swap(p): a ready rule whose parent is not the class the factory was called on."""

    def __call__(self, comb_class):
        if comb_class.prefix and not comb_class.just_prefix:
            other = AvoidingWithPrefix(swap(comb_class.prefix), comb_class.patterns, comb_class.alphabet)
            yield ExpansionStrategy()(other)

    @classmethod
    def from_dict(cls, d):
        return cls()

    def __repr__(self):
        return "SwappedExpansionFactory()"

    def __str__(self):
        return "expansion of the class with the letters of the prefix exchanged"


def pack():
    return StrategyPack(
        initial_strats=[RemoveFrontOfPrefix(), ExpandEmptyPrefix()],
        inferral_strats=[],
        expansion_strats=[[SwappedExpansionFactory()]],
        ver_strats=[AtomStrategy()],
        name="foreign parent",
    )


TRUTH = [1, 2, 2, 2, 2, 2, 2, 2]  # words over {a,b} avoiding aa, bb


def run(ruledb):
    start = AvoidingWithPrefix("", ["aa", "bb"], ["a", "b"])
    css = CombinatorialSpecificationSearcher(start, pack(), ruledb=ruledb)
    try:
        spec = css.auto_search()
        counts = [spec.count_objects_of_size(n) for n in range(8)]
        return ("spec", counts), css
    except RuntimeError as ex:
        return ("RuntimeError", str(ex).split("\n")[0][:60]), css


if __name__ == "__main__":
    base, _ = run(RuleDB())
    print("RuleDB                     :", base)
    present = base == ("spec", TRUTH)
    for reverse in (False, True):
        got, css = run(RuleDBForest(reverse=reverse))
        print("RuleDBForest(reverse=%-5s):" % reverse, got)
        # the clause, key by key: the database reports a specification ...
        assert css.ruledb.has_specification()
        ex = ForestRuleExtractor(css.start_label, css.ruledb, css.classdb, css.strategy_pack)
        ex.check()
        lost = []
        for rk in ex.needed_rules:
            try:
                rule = ex._find_rule(rk)  # pylint: disable=protected-access
                assert rule.forest_key(css.classdb.get_label, css.classdb.is_empty) == rk
            except RuntimeError:
                lost.append(rk)
        print("   extracted keys: %d, not re-creatable: %s" % (len(ex.needed_rules), lost))
        present = present and got[0] == "RuntimeError" and bool(lost)
    print("behaviour present:", present)
    sys.exit(0 if present else 1)
