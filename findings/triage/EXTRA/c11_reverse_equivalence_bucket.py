"""
C11, clause "reverse rules are used only when no choice without them exists" — key-level demonstration
on the real ForestRuleExtractor: a key of bucket EQUIV (which is where ReverseRule.forest_key files the
REVERSE OF AN EQUIVALENCE rule, rule.py:1020) is kept although a NORMAL (forward) key for the same class
would do, because NORMAL keys are minimised before EQUIV keys (MINIMIZE_ORDER).

Run:  PYTHONPATH=/repo /venv/bin/python c11_reverse_equivalence_bucket.py     exit 0 = behaviour present
"""
import sys

from comb_spec_searcher.rule_db.forest import ForestRuleExtractor, TableMethod
from comb_spec_searcher.typing import ForestRuleKey, RuleBucket


class StubDB:
    def __init__(self, tm):
        self.table_method = tm


keys = [
    ForestRuleKey(1, (), (), RuleBucket.VERIFICATION),
    ForestRuleKey(2, (), (), RuleBucket.VERIFICATION),
    ForestRuleKey(0, (1,), (1,), RuleBucket.NORMAL),   # a forward rule for class 0
    ForestRuleKey(0, (2,), (0,), RuleBucket.EQUIV),    # e.g. the reverse of the equivalence rule 2 -> (0,)
]
tm = TableMethod()
for k in keys:
    tm.add_rule_key(k)
assert tm.is_pumping(0)
ex = ForestRuleExtractor(0, StubDB(tm), None, None)
ex.check()
print("needed:", ex.needed_rules)
kept_equiv = any(k.parent == 0 and k.bucket == RuleBucket.EQUIV for k in ex.needed_rules)
print("the EQUIV-bucket key is kept although the NORMAL key alone would do:", kept_equiv)
sys.exit(0 if kept_equiv else 1)
