"""
C20 triage (G.4 "to be confirmed"): an EquivalencePathRule whose end class tracks a statistic the
start class does not track.  EquivalencePathRule.constructor builds a DisjointUnion with
fixed_values = {k: 0}; get_terms sums the statistic out (the count is right), get_equation
(DisjointUnion.get_equation) leaves the child's variable free: F_0(x) = F_1(x, k) -- not
satisfied by the true series (F_1(x, k) is a polynomial in k; the equation needs k := 1).

This is the OPEN finding union-equation-unmapped-child-parameter seen through another rule form
(the rebuilt constructor IS a DisjointUnion), not a new defect.

Run:  PYTHONPATH=/repo:/root/work/GA6 /venv/bin/python repro.py     exit 0 = behaviour present
(needs harness/universes/c08_stats.py of the verification tree for the classes with statistics)
"""
import os
import sys
from collections import Counter

import sympy

sys.path.insert(1, os.path.normpath(os.path.join(os.path.dirname(os.path.abspath(__file__)), "..", "..", "..")))

from comb_spec_searcher.strategies.rule import EquivalencePathRule  # noqa: E402
from harness.universes.c08_stats import AddStat, StatWord  # noqa: E402

C = StatWord("", [], "ab", stats=())           # all words over {a,b}, tracking nothing
rule = AddStat()(C)                            # C = the same words tracking k = number of a's
D = rule.children[0]
path = EquivalencePathRule([rule])
print("fixed_values of the rebuilt constructor:", path.constructor.fixed_values)


def terms(cls, n):
    return Counter(cls.get_parameters(o) for o in cls.objects_of_size(n))


path.subterms = (lambda n: terms(D, n),)
print("get_terms 0..4:", [dict(path.get_terms(n)) for n in range(5)], "(true counts 1,2,4,8,16)")
assert all(path.get_terms(n) == terms(C, n) for n in range(5))

x = sympy.var("x")
k = sympy.var(D.extra_parameters[0])
F0, F1 = sympy.Function("F_0")(x), sympy.Function("F_1")(x, k)
eq = path.get_equation(lambda c: F0 if c == C else F1)
print("equation:", eq)

N = 4
true0 = sum(sum(terms(C, n).values()) * x**n for n in range(N + 1))
true1 = sum(v * k ** p[0] * x**n for n in range(N + 1) for p, v in terms(D, n).items())
diff = sympy.expand((eq.lhs - eq.rhs).subs({F0: true0, F1: true1}))
print("lhs - rhs with the true series (mod x^%d):" % (N + 1), diff)
print("                      ... with k := 1     :", sympy.expand(diff.subs(k, 1)))
present = diff != 0 and sympy.expand(diff.subs(k, 1)) == 0 and k in eq.rhs.free_symbols
print("behaviour present (equation not satisfied; it is once the untracked variable is set to 1):", present)
sys.exit(0 if present else 1)
