"""
C09 triage: a ONE-CHILD CartesianProduct rule is an equivalence rule for the library
(Rule.is_equivalence() is True), but the two equivalence wrappers accept union/complement
constructors only.

 (A) the audit's observation: rule.to_equivalence_rule().constructor raises NotImplementedError
     (a form the library itself never derives for a one-child rule: both extractors call
     to_equivalence_rule() only when len(rule.children) > 1);
 (B) the form the library DOES derive: CombinatorialSpecification.__init__ ->
     _group_equiv_in_path wraps the one-child product rule into an EquivalencePathRule, whose
     constructor asserts isinstance(original_constructor, (DisjointUnion, Complement)):
     the specification returned by auto_search cannot count (AssertionError), for the forward
     rule and for its reverse (Quotient);
 (C) the reverse rule itself: Quotient._c asks utils.compositions for the compositions of 0 into
     0 parts (no sibling), gets none, and the division raises ZeroDivisionError.

Run:  PYTHONPATH=/repo /venv/bin/python repro.py      exit 0 = behaviours (B), (B'), (C) present
"""
import logging
import sys

logging.disable(logging.CRITICAL)

from comb_spec_searcher import (  # noqa: E402
    CartesianProductStrategy,
    CombinatorialSpecificationSearcher,
)
from comb_spec_searcher.strategies.rule import EquivalencePathRule  # noqa: E402
from comb_spec_searcher import AtomStrategy, StrategyPack  # noqa: E402
from example import (  # noqa: E402
    AvoidingWithPrefix,
    ExpansionStrategy,
    RemoveFrontOfPrefix,
    Word,
)


def swap(w):
    return w.translate(str.maketrans("ab", "ba"))


class Swap(CartesianProductStrategy):
    """Words avoiding P  =  (words avoiding swap(P)) as a product with ONE factor."""

    def __init__(self):
        super().__init__(ignore_parent=False)

    def decomposition_function(self, comb_class):
        if comb_class.prefix == "" and not comb_class.just_prefix and "aa" in comb_class.patterns:
            pats = [swap(p) for p in comb_class.patterns]
            return (AvoidingWithPrefix("", pats, comb_class.alphabet),)
        return None

    def formal_step(self):
        return "swap the letters"

    def forward_map(self, comb_class, obj, children=None):
        return (Word(swap(obj)),)

    def backward_map(self, comb_class, objs, children=None):
        yield Word(swap(objs[0]))

    @classmethod
    def from_dict(cls, d):
        return cls()

    def __repr__(self):
        return "Swap()"

    def __str__(self):
        return "swap the letters"


class ExpandUnlessAA(ExpansionStrategy):
    """example.ExpansionStrategy, not applied to the start class (so that the specification
    must use the one-child product; otherwise whether it does depends on the hash seed)"""

    def decomposition_function(self, comb_class):
        if comb_class.prefix == "" and "aa" in comb_class.patterns:
            return None
        return super().decomposition_function(comb_class)


pack = StrategyPack(
    initial_strats=[RemoveFrontOfPrefix(), Swap()],
    inferral_strats=[],
    expansion_strats=[[ExpandUnlessAA()]],
    ver_strats=[AtomStrategy()],
    name="example pack + one-child product",
)

C = AvoidingWithPrefix("", ["aa"], "ab")
D = AvoidingWithPrefix("", ["bb"], "ab")
truth = [sum(1 for _ in C.objects_of_size(n)) for n in range(8)]
rule = Swap()(C)
assert rule.children == (D,) and rule.is_equivalence()

# the rule itself counts correctly from the true enumeration of its child
rule.subterms = (lambda n: {(): sum(1 for _ in D.objects_of_size(n))},)
assert [rule.get_terms(n)[()] for n in range(8)] == truth

# (A)
try:
    got = rule.to_equivalence_rule()
    got.subterms = rule.subterms
    a_present = [got.get_terms(n)[()] for n in range(8)] != truth
except NotImplementedError:
    a_present = True
print("(A) to_equivalence_rule().constructor raises NotImplementedError:", a_present)


def attempt(label, count, expected):
    """True = the behaviour is present (exception or wrong numbers)."""
    try:
        got = [count(n) for n in range(8)]
    except (AssertionError, ZeroDivisionError, NotImplementedError) as exc:
        print("%s: raises %s" % (label, type(exc).__name__))
        return True
    print("%s: counts %s, truth %s" % (label, got, expected))
    return got != expected


# (B) the path form, as built by the library: specification found by a search
spec = CombinatorialSpecificationSearcher(C, pack).auto_search()
wrapped = [r for r in spec if isinstance(r, EquivalencePathRule) and isinstance(r.strategy, Swap)]
print("rules of the returned specification that wrap the one-child product in an EquivalencePathRule:", len(wrapped))
assert wrapped
b_fwd = attempt("(B) specification.count_objects_of_size", spec.count_objects_of_size, truth)

# (B') the path made of the reverse rule, and (C) the reverse rule itself (Quotient constructor)
rev = rule.to_reverse_rule(0)
assert rev.is_equivalence() and rev.comb_class == D and rev.children == (C,)
rev.subterms = (lambda n: {(): truth[n]},)
c_rev = attempt("(C) reverse rule (Quotient, no sibling) get_terms", lambda n: rev.get_terms(n)[()], truth)
path = EquivalencePathRule([rule.to_reverse_rule(0)])
path.subterms = (lambda n: {(): truth[n]},)
b_rev = attempt("(B') EquivalencePathRule([reverse rule]) get_terms", lambda n: path.get_terms(n)[()], truth)

print("present: (A) %s  (B) %s  (B') %s  (C) %s" % (a_present, b_fwd, b_rev, c_rev))
sys.exit(0 if (b_fwd and b_rev and c_rev) else 1)
